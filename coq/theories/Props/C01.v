(* C01 — the cycle table is a complete, ordered, gap-free segmentation.
   Model: Model/Features.v (compute_features) = Model/Extrema.v + Model/Zerox.v + Model/Cycles.v
   + burst features + labels.  `k_pos` are the sign bits of the reference band-pass of the padded
   signal (an input of the model); the hypothesis `length raw + 2 * k_padn k = length (k_pos k)`
   says they have the padded length.  All statements are structural: no logical axioms (Print
   Assumptions lists only primitive float/int declarations the model mentions). *)
From Coq Require Import List Arith Bool ZArith Floats.PrimFloat.
Import ListNotations.
From ByC Require Import Base.Result Model.Labels Model.Extrema Model.Cycles Model.Features.
From ByC Require Proofs.Extrema Proofs.Cycles.
Import Proofs.Cycles.

(* the find_extrema call made by the analysis: first extremum forced to a peak, on the negated
   signal for trough centring *)
Notation xin c raw k b :=
  {| x_pos := k_pos k; x_raw := (match c with Peak => raw | Trough => map PrimFloat.opp raw end); x_padn := k_padn k; x_boundary := b; x_first := FPeak |}.

(* every returned table: non-empty; in each row last < centre < next with the midpoints
   (inclusively) between the extrema they separate; every index inside (boundary, len - boundary);
   consecutive rows share their side extremum (tiling) and the midpoint between them; rows are
   the consecutive extrema of an interleaved peak/trough sequence (strict alternation);
   one row per cycle *)
Theorem C01_segmentation : forall c raw k b m out,
  compute_features c raw k b m = Ok out ->
  length raw + 2 * k_padn k = length (k_pos k) -> (0 <= b)%Z ->
  let rows := map r_s out in
  (rows <> [] /\ Forall (row_ordered_c c) rows /\
   Forall (fun r => row_within b (Z.of_nat (length raw))
                      (match c with Peak => r | Trough => rename_srow r end)) rows /\
   tiled rows /\
   (forall j, S j < length rows ->
      s_zx_decay (nth j (match c with Peak => rows | Trough => map rename_srow rows end) (Build_srow 0 0 0 0 0 0)) =
      s_last_zx (nth (S j) (match c with Peak => rows | Trough => map rename_srow rows end) (Build_srow 0 0 0 0 0 0)))) /\
  exists peaks troughs,
    find_extrema (xin c raw k b) = Ok (peaks, troughs) /\
    Proofs.Extrema.interleaved peaks troughs /\
    length out = length peaks - 1 /\ 2 <= length peaks /\
    (forall j, j < length out ->
       let r := nth j (match c with Peak => rows | Trough => map rename_srow rows end)
                    (Build_srow 0 0 0 0 0 0) in
       s_center r = nth (S j) peaks 0%Z /\ s_last r = nth j troughs 0%Z /\ s_next r = nth (S j) troughs 0%Z /\
       (s_last r < s_center r < s_next r)%Z) /\
    (forall j, S j < length out ->
       s_next (nth j rows (Build_srow 0 0 0 0 0 0)) = s_last (nth (S j) rows (Build_srow 0 0 0 0 0 0))).
Proof. exact compute_features_segmentation. Qed.
Print Assumptions C01_segmentation.

(* with row_ordered, row_within puts all six sample indices strictly inside (boundary, len - boundary) *)
Theorem C01_all_indices_beyond_boundary : forall b n r, row_ordered r -> row_within b n r ->
  (b < s_last_zx r < n - b)%Z /\ (b < s_last r < n - b)%Z /\ (b < s_zx_rise r < n - b)%Z /\
  (b < s_center r < n - b)%Z /\ (b < s_zx_decay r < n - b)%Z /\ (b < s_next r < n - b)%Z.
Proof. exact row_all_within. Qed.
Print Assumptions C01_all_indices_beyond_boundary.

(* a table is returned instead of an error exactly when at least two peaks (and two troughs)
   survive the boundary filter and the trimming *)
Theorem C01_table_iff_two_cycles_survive : forall c raw k b,
  length raw + 2 * k_padn k = length (k_pos k) -> (0 <= b)%Z ->
  (exists tab, shape_table c raw k b = Ok tab) <->
  exists peaks troughs, find_extrema (xin c raw k b) = Ok (peaks, troughs) /\ 2 <= length peaks.
Proof. exact shape_table_ok_iff_partial. Qed.
Print Assumptions C01_table_iff_two_cycles_survive.

(* the only failures of the modelled logic: no oscillation at all (Degenerate), fewer than two
   cycles (Index), or settings rejected by the labelling (Value) *)
Theorem C01_failure_classes : forall c raw k b m e,
  compute_features c raw k b m = Err e ->
  length raw + 2 * k_padn k = length (k_pos k) ->
  e = EDegenerate \/ e = EIndex \/
  (e = EValue /\
   match m with
   | Cycles t n => thr_valid t = false \/ (n < 0)%Z
   | Amp _ t n => in_range t 0%float 1%float = false \/ (n < 0)%Z
   end).
Proof. exact compute_features_err. Qed.
Print Assumptions C01_failure_classes.

(* row assembly by the six shifted slices *)
Theorem C01_row_assembly : forall peaks troughs rises decays,
  length troughs = length peaks -> length decays = length peaks ->
  length rises = length peaks - 1 -> peaks <> [] ->
  exists rows, cycle_rows peaks troughs rises decays = Ok rows /\
    length rows = length peaks - 1 /\
    forall k, k < length rows ->
      nth k rows (Build_srow 0 0 0 0 0 0) =
      {| s_center := nth (S k) peaks 0%Z; s_last := nth k troughs 0%Z; s_next := nth (S k) troughs 0%Z;
         s_zx_rise := nth k rises 0%Z; s_zx_decay := nth (S k) decays 0%Z; s_last_zx := nth k decays 0%Z |}.
Proof. exact cycle_rows_spec. Qed.
Print Assumptions C01_row_assembly.

(* non-vacuity: a concrete input yields a table with at least two rows *)
Theorem C01_nonvacuous : exists tab, shape_table Peak ex_raw ex_k 0 = Ok tab /\ 2 <= length tab.
Proof. exact shape_table_peak_nonvacuous. Qed.
Print Assumptions C01_nonvacuous.
