(* C10 — results are covariant with amplitude and sampling-rate units.
   Model: Model/Features.v (compute_features c raw k b m).

   Sampling-rate part: fs and f_range are NOT arguments of any model function — the model's
   result is, by its type, a function of (centre, samples, kernel outputs, boundary, method);
   every time feature is an integer number of samples.  fs / f_range enter only through the
   reference kernels (sign bits of the band-pass, envelope, detector mask), which the harness
   recomputes at 8 sampling rates and compares cell by cell on every run.

   Amplitude part (partial, stated precisely): binary64 scaling is exact only absent overflow /
   underflow / rounding, so covariance is proved relative to a CHECKABLE hypothesis: the scaling
   map s commutes, on the finitely many values that actually occur, with the handful of float
   operations the model applies (c10_hypb, a boolean evaluated on the concrete input).  Under it
   the whole table is covariant.  The hypothesis holds for powers of two (examples) and is
   necessary: with factor 3 a consistency value changes in the last bit.  The band-pass kernel is
   assumed linear (same sign bits for the scaled signal): k_pos k' = k_pos k.  band_amp: the
   envelope of the scaled run is assumed to be the scaled envelope (k_amp k' = map s (k_amp k)) and
   s must commute with the mean over each cycle's window (c10_ampb, checkable like c10_hypb). *)
From Coq Require Import List Arith Bool ZArith Floats.PrimFloat.
Import ListNotations.
From ByC Require Import Base.Result Base.ListAux Base.FloatBase Model.Extrema Model.Zerox Model.Cycles Model.Features Proofs.Scale Proofs.ScaleAmp.

(* every sample index, duration, symmetry, consistency, monotonicity, amplitude fraction and
   label is unchanged; every voltage feature is mapped by s; errors coincide *)
Theorem C10_table_covariant_under_checked_scaling : forall c s raw k' k b m,
  c10_hypb c s raw k b m = true -> k_pos k' = k_pos k -> k_padn k' = k_padn k ->
  features_rel s (compute_features c (map s raw) k' b m) (compute_features c raw k b m).
Proof. exact c10_checked. Qed.
Print Assumptions C10_table_covariant_under_checked_scaling.

(* what "covariant" means row by row *)
Theorem C10_meaning_of_features_rel : forall s r' r, frow_scaled s r' r <->
  r_s r' = r_s r /\
  (shape_scaled s (r_shape r') (r_shape r) /\
   volt_decay (r_shape r') = s (volt_decay (r_shape r)) /\ volt_rise (r_shape r') = s (volt_rise (r_shape r)) /\
   volt_amp (r_shape r') = s (volt_amp (r_shape r))) /\
  r_burst r' = r_burst r /\ r_is_burst r' = r_is_burst r.
Proof. intros; reflexivity. Qed.
Print Assumptions C10_meaning_of_features_rel.

(* the discrete core, under the order / midpoint laws alone *)
Theorem C10_extrema_invariant : forall s x, scale_on s (x_raw x) ->
  find_extrema {| x_pos := x_pos x; x_raw := map s (x_raw x); x_padn := x_padn x;
                  x_boundary := x_boundary x; x_first := x_first x |} = find_extrema x.
Proof. exact find_extrema_scale. Qed.
Print Assumptions C10_extrema_invariant.

Theorem C10_midpoints_invariant : forall s sig peaks troughs, scale_on s sig ->
  find_zerox (map s sig) peaks troughs = find_zerox sig peaks troughs.
Proof. exact find_zerox_scale. Qed.
Print Assumptions C10_midpoints_invariant.

(* the hypothesis is decidable on any concrete input ... *)
Theorem C10_hypothesis_checker_sound : forall s vals, scale_onb s vals = true -> scale_on s vals.
Proof. exact scale_onb_sound. Qed.
Print Assumptions C10_hypothesis_checker_sound.

(* ... holds for a power-of-two factor on a concrete 7-cycle signal (both centrings), where the
   theorem then applies ... *)
Theorem C10_nonvacuous :
  c10_hypb Peak ScaleExamples.x4 ScaleExamples.sc_raw ScaleExamples.sc_k 0 ScaleExamples.sc_m = true /\
  c10_hypb Trough ScaleExamples.x4 ScaleExamples.sc_raw ScaleExamples.sc_kt 0 ScaleExamples.sc_m = true /\
  c10_hypb Peak ScaleExamples.xsmall ScaleExamples.sc_raw ScaleExamples.sc_k 0 ScaleExamples.sc_m = true.
Proof.
  exact (conj ScaleExamples.sc_hyp_x4 (conj ScaleExamples.sc_hyp_x4_trough ScaleExamples.sc_hyp_xsmall)).
Qed.
Print Assumptions C10_nonvacuous.

(* ... and fails for overflow, underflow, a shift, and a non-power-of-two factor *)
Theorem C10_hypothesis_rejects_inexact_scalings :
  scale_onb (fun x => (x * 0x1p-1060)%float) ScaleExamples.sc_raw = false /\
  scale_onb (fun x => (x * 0x1p1023)%float) ScaleExamples.sc_raw = false /\
  scale_onb (fun x => (x + 1)%float) ScaleExamples.sc_raw = false.
Proof.
  exact (conj ScaleExamples.sc_hyp_underflow (conj ScaleExamples.sc_hyp_overflow ScaleExamples.sc_hyp_shift)).
Qed.
Print Assumptions C10_hypothesis_rejects_inexact_scalings.

(* band_amp: every row's band_amp is the mean of the amplitude envelope over [last, next) ... *)
Theorem C10_band_amp_is_the_mean_envelope_of_the_cycle : forall c raw k b m out,
  compute_features c raw k b m = Ok out ->
  Forall (fun r => band_amp (r_shape r) = fmean (zslice (k_amp k) (s_last (r_s r)) (s_next (r_s r)))) out.
Proof. exact compute_features_band_amp. Qed.
Print Assumptions C10_band_amp_is_the_mean_envelope_of_the_cycle.

(* ... hence, when the envelope of the scaled signal is the scaled envelope and the scaling commutes with the
   mean on the windows that occur (checked hypothesis c10_ampb), band_amp is multiplied as well - together
   with everything the first theorem states (frow_scaled) *)
Theorem C10_band_amp_covariant_under_checked_scaling : forall c s raw k' k b m out' out,
  c10_hypb c s raw k b m = true -> c10_ampb c s raw k b m = true ->
  k_pos k' = k_pos k -> k_padn k' = k_padn k -> k_amp k' = map s (k_amp k) ->
  compute_features c raw k b m = Ok out ->
  compute_features c (map s raw) k' b m = Ok out' ->
  Forall2 (fun r' r => frow_scaled s r' r /\ band_amp (r_shape r') = s (band_amp (r_shape r))) out' out.
Proof. exact c10_band_amp_checked. Qed.
Print Assumptions C10_band_amp_covariant_under_checked_scaling.

(* the mean condition follows from commutation with the float operations of the mean (every partial sum,
   the final division); it holds for x * 4 on the example and is a genuine condition (fails for x * x) *)
Theorem C10_mean_condition_from_operations : forall s amp r,
  let w := zslice amp (s_last r) (s_next r) in
  s 0%float = 0%float -> sums_on s 0%float w ->
  (s (fsum_left w) / Z2F (Z.of_nat (length w)))%float = s (fsum_left w / Z2F (Z.of_nat (length w)))%float ->
  mean_on s amp r.
Proof. exact mean_on_from_sums. Qed.
Print Assumptions C10_mean_condition_from_operations.

Theorem C10_band_amp_nonvacuous :
  c10_hypb Peak ScaleExamples.x4 ScaleExamples.sc_raw ScaleExamples.sc_k 0 ScaleExamples.sc_m = true /\
  c10_ampb Peak ScaleExamples.x4 ScaleExamples.sc_raw ScaleExamples.sc_k 0 ScaleExamples.sc_m = true /\
  k_amp ScaleExamples.sc_k' = map ScaleExamples.x4 (k_amp ScaleExamples.sc_k) /\
  (exists out out', compute_features Peak ScaleExamples.sc_raw ScaleExamples.sc_k 0 ScaleExamples.sc_m = Ok out /\
     compute_features Peak (map ScaleExamples.x4 ScaleExamples.sc_raw) ScaleExamples.sc_k' 0 ScaleExamples.sc_m = Ok out' /\
     3 <= length out) /\
  c10_ampb Peak (fun x => (x * x)%float) ScaleExamples.sc_raw
    {| k_pos := k_pos ScaleExamples.sc_k; k_padn := 0; k_amp := map (fun i => Z2F (Z.of_nat i)) (seq 0 80) |} 0 ScaleExamples.sc_m = false.
Proof. exact c10_band_amp_example. Qed.
Print Assumptions C10_band_amp_nonvacuous.
