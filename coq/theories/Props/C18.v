(* C18 — table and signal windowing utilities are lossless selections.
   Model: Model/Window.v (binary64: a cycle's time stamps are sample / fs, compared with the limits;
   rows carry six sample indices plus an opaque payload X = all feature columns).
   In the real-number statements  finite x  means that the binary64 number x is finite and  FR x  is its
   real value (FloatFacts: is_finite (Prim2B x), B2R (Prim2B x) through Flocq's Prim2B bridge). *)
From Coq Require Import List Arith Bool ZArith Reals Floats.PrimFloat.
Import ListNotations.
From ByC Require Import Base.Result Base.FloatBase Base.FloatFacts Model.Cycles Model.Epoch Model.Window Proofs.Window.

(* limit_df returns, in order and with unchanged payload, exactly the rows passing the window test,
   all six sample columns shifted by one and the same offset — the sample index nearest to fs*start — (or none) *)
Theorem C18_limit_df_is_a_filter : forall (X : Type) (rows : list (@wrow X)) fs start stop reset out,
  limit_df rows fs start stop reset = Ok out ->
  let off := if reset
             then F2Z_round (fs * match start with Some a => a | None => 0%float end)%float
             else 0%Z in
  out = map (fun r => (shift_srow off (fst r), snd r)) (filter (keep_row fs start stop) rows).
Proof. exact @limit_df_spec. Qed.
Print Assumptions C18_limit_df_is_a_filter.

Theorem C18_limit_df_uniform_shift : forall (X : Type) (rows : list (@wrow X)) fs start stop reset out,
  limit_df rows fs start stop reset = Ok out ->
  let off := limit_offset fs start reset in
  forall o, In o out ->
    exists r, In r rows /\ keep_row fs start stop r = true /\ snd o = snd r /\
      s_center (fst o) = (s_center (fst r) - off)%Z /\
      s_last (fst o) = (s_last (fst r) - off)%Z /\
      s_next (fst o) = (s_next (fst r) - off)%Z /\
      s_zx_rise (fst o) = (s_zx_rise (fst r) - off)%Z /\
      s_zx_decay (fst o) = (s_zx_decay (fst r) - off)%Z /\
      s_last_zx (fst o) = (s_last_zx (fst r) - off)%Z.
Proof. exact @limit_df_uniform_shift. Qed.
Print Assumptions C18_limit_df_uniform_shift.

(* which rows pass: the time stamp of the cycle's first sample is not before start and the time stamp of its last
   sample is not after stop (binary64 comparisons; either limit optional, start defaults to 0) *)
Theorem C18_keep_row_iff : forall (X : Type) fs start stop (r : @wrow X),
  keep_row fs start stop r = true <->
  (start_or_0 start <=? FloatBase.Z2F (s_last (fst r)) / fs)%float = true /\
  (match stop with
   | Some b => (FloatBase.Z2F (s_next (fst r)) / fs <=? b)%float = true
   | None => True
   end).
Proof. exact @keep_row_iff. Qed.
Print Assumptions C18_keep_row_iff.

(* every cycle entirely inside [start, stop] is kept — in REAL arithmetic on the actual binary64 inputs: finite
   fs > 0, finite limits, sample indices below 2^53, finite time stamps; if last / fs >= start and (stop given)
   next / fs <= stop as real numbers, the row is kept.  (Rounding to nearest is monotone and the limits are binary64
   numbers, so rounding cannot push an inside cycle out.) *)
Theorem C18_inside_kept_real : forall (X : Type) fs start stop (r : @wrow X),
  finite fs = true -> (0 < FR fs)%R ->
  finite (start_or_0 start) = true ->
  (Z.abs (s_last (fst r)) < 2 ^ 53)%Z ->
  finite (FloatBase.Z2F (s_last (fst r)) / fs)%float = true ->
  (FR (start_or_0 start) <= IZR (s_last (fst r)) / FR fs)%R ->
  (forall b, stop = Some b ->
     finite b = true /\ (Z.abs (s_next (fst r)) < 2 ^ 53)%Z /\
     finite (FloatBase.Z2F (s_next (fst r)) / fs)%float = true /\
     (IZR (s_next (fst r)) / FR fs <= FR b)%R) ->
  keep_row fs start stop r = true.
Proof. exact @inside_kept_real. Qed.
Print Assumptions C18_inside_kept_real.

(* limits taken from the library's own time axis arange(n) / fs: start = time stamp of sample k0, stop = time stamp
   of sample k1; a cycle spanning samples k0 <= last <= next <= k1 is kept, whatever (k / fs) * fs rounds to
   (x |-> fl(x / fs) is monotone for fs > 0) *)
Theorem C18_on_grid_limits : forall (X : Type) fs (k0 k1 : Z) (r : @wrow X),
  finite fs = true -> (0 < FR fs)%R ->
  (Z.abs k0 < 2 ^ 53)%Z -> (Z.abs k1 < 2 ^ 53)%Z ->
  finite (FloatBase.Z2F k0 / fs)%float = true -> finite (FloatBase.Z2F k1 / fs)%float = true ->
  (k0 <= s_last (fst r))%Z -> (s_last (fst r) <= s_next (fst r))%Z -> (s_next (fst r) <= k1)%Z ->
  keep_row fs (Some (FloatBase.Z2F k0 / fs)%float) (Some (FloatBase.Z2F k1 / fs)%float) r = true.
Proof. exact @on_grid_limits. Qed.
Print Assumptions C18_on_grid_limits.

Theorem C18_on_grid_start_only : forall (X : Type) fs (k0 : Z) (r : @wrow X),
  finite fs = true -> (0 < FR fs)%R ->
  (Z.abs k0 < 2 ^ 53)%Z -> (Z.abs (s_last (fst r)) < 2 ^ 53)%Z ->
  finite (FloatBase.Z2F k0 / fs)%float = true -> finite (FloatBase.Z2F (s_last (fst r)) / fs)%float = true ->
  (k0 <= s_last (fst r))%Z ->
  keep_row fs (Some (FloatBase.Z2F k0 / fs)%float) None r = true.
Proof. exact @on_grid_start. Qed.
Print Assumptions C18_on_grid_start_only.

(* ... and no cycle entirely outside it.  REAL arithmetic: a cycle (last < next) whose last sample lies before start,
   next / fs < start, or whose first sample lies after stop, stop < last / fs, is dropped.  No extra hypothesis on the
   limits is needed: the rounding error of a time stamp k / fs with |k| < 2^53 is below one sample period 1 / fs
   (Proofs/Window.v time_error), and the tested sample lies a whole period further out than the one in the hypothesis *)
Theorem C18_outside_not_kept_real : forall (X : Type) fs start stop (r : @wrow X),
  finite fs = true -> (0 < FR fs)%R ->
  (Z.abs (s_last (fst r)) < 2 ^ 53)%Z -> (Z.abs (s_next (fst r)) < 2 ^ 53)%Z ->
  (s_last (fst r) < s_next (fst r))%Z ->
  (finite (start_or_0 start) = true /\
   finite (FloatBase.Z2F (s_last (fst r)) / fs)%float = true /\
   (IZR (s_next (fst r)) / FR fs < FR (start_or_0 start))%R) \/
  (exists b, stop = Some b /\ finite b = true /\
   finite (FloatBase.Z2F (s_next (fst r)) / fs)%float = true /\
   (FR b < IZR (s_last (fst r)) / FR fs)%R) ->
  keep_row fs start stop r = false.
Proof. exact @outside_not_kept_real. Qed.
Print Assumptions C18_outside_not_kept_real.

(* the same in binary64 order on the time stamps (what the harness oracle evaluates): last time stamp < start, or
   stop < first time stamp *)
Theorem C18_outside_not_kept : forall (X : Type) fs start stop (r : @wrow X),
  finite fs = true -> (0 < FR fs)%R ->
  (Z.abs (s_last (fst r)) < 2 ^ 53)%Z -> (Z.abs (s_next (fst r)) < 2 ^ 53)%Z ->
  (s_last (fst r) <= s_next (fst r))%Z ->
  finite (FloatBase.Z2F (s_last (fst r)) / fs)%float = true ->
  finite (FloatBase.Z2F (s_next (fst r)) / fs)%float = true ->
  (finite (start_or_0 start) = true /\
   (FloatBase.Z2F (s_next (fst r)) / fs <? start_or_0 start)%float = true) \/
  (exists b, stop = Some b /\ finite b = true /\ (b <? FloatBase.Z2F (s_last (fst r)) / fs)%float = true) ->
  keep_row fs start stop r = false.
Proof. exact @outside_not_kept. Qed.
Print Assumptions C18_outside_not_kept.

(* the pre-repair row test (sample index against start * fs) refuted: at fs = 100, start = the time stamp of sample 7,
   a cycle spanning samples [7, 10] was dropped; the repaired test keeps it *)
Theorem C18_legacy_boundary_cycle_refuted : forall (X : Type) (x : X) (c zr zd lz : Z),
  let t7 := 0x1.1eb851eb851ecp-4%float in
  let r : @wrow X := (Build_srow c 7 10 zr zd lz, x) in
  (FloatBase.Z2F 7 / 100 =? t7)%float = true /\
  keep_row_legacy 100 (Some t7) None r = false /\
  keep_row 100 (Some t7) None r = true.
Proof. exact @legacy_boundary_cycle_refuted. Qed.
Print Assumptions C18_legacy_boundary_cycle_refuted.

(* limit_df succeeds exactly when the sampling rate is positive (+infinity and NaN pass the range check of the
   code; zero of either sign, negative numbers and -infinity do not), the limits are valid and — when the indices are
   reset — fs * start is a finite number (int(round(.)) of a NaN / infinity raises) *)
Theorem C18_limit_df_accepts_exactly_valid_limits : forall (X : Type) (rows : list (@wrow X)) fs start stop reset,
  (exists out, limit_df rows fs start stop reset = Ok out) <->
  ((0 <? fs)%float = true \/ PrimFloat.is_nan fs = true) /\ limits_ok start stop = true /\
  (reset = true -> PrimFloat.is_finite (fs * start_or_0 start)%float = true).
Proof. exact @limit_df_ok_iff. Qed.
Print Assumptions C18_limit_df_accepts_exactly_valid_limits.

(* a sampling rate of exactly 0 (+0.0 or -0.0) is refused; the pre-repair model accepted it *)
Theorem C18_limit_df_rejects_fs_zero : forall (X : Type) (rows : list (@wrow X)) start stop,
  limits_ok start stop = true ->
  (exists out, limit_df_legacy rows 0%float start stop false = Ok out) /\
  limit_df rows 0%float start stop false = Err EValue /\
  limit_df rows (-0)%float start stop false = Err EValue.
Proof. exact @limit_df_legacy_accepts_fs_zero. Qed.
Print Assumptions C18_limit_df_rejects_fs_zero.

(* limit_signal: exactly the samples with start <= t < stop, in order *)
Theorem C18_limit_signal : forall tv start stop out,
  limit_signal tv start stop = Ok out ->
  out = filter (fun x => (match start with Some a => (a <=? fst x)%float | None => true end) &&
                         (match stop with Some b => (fst x <? b)%float | None => true end)) tv.
Proof. exact limit_signal_spec. Qed.
Print Assumptions C18_limit_signal.

(* split / drop: a partition of the columns by the sample_ prefix, columns carried unchanged *)
Theorem C18_split_samples_partition : forall (C : Type) (cols : list (bool * C)),
  let '(f, s) := split_samples cols in
  (forall c, In c cols <-> In c f \/ In c s) /\
  (forall c, In c f -> fst c = false) /\
  (forall c, In c s -> fst c = true) /\
  (length f + length s = length cols)%nat.
Proof. intros C cols. exact (split_samples_partition cols). Qed.
Print Assumptions C18_split_samples_partition.

(* flatten: tables concatenated in order; row i of table k carries label k; 2-D lists are row-major *)
Theorem C18_flatten_rows_carry_their_table_label : forall (R L : Type) (dfs : list (list R)) (labels : list L) out,
  flatten1 dfs labels = Ok out ->
  length labels = length dfs /\
  map fst out = concat dfs /\
  forall k i d dl, (k < length dfs)%nat -> (i < length (nth k dfs []))%nat ->
    nth (length (concat (firstn k dfs)) + i)%nat out (d, dl) = (nth i (nth k dfs []) d, nth k labels dl).
Proof. exact @flatten1_spec. Qed.
Print Assumptions C18_flatten_rows_carry_their_table_label.

Theorem C18_flatten_2d_is_row_major : forall (R L : Type) (dfs : list (list (list R))) (labels : list L) (n1 : nat),
  (forall row, In row dfs -> length row = n1) ->
  flatten2 dfs labels = flatten1 (concat dfs) labels.
Proof. exact @flatten2_spec. Qed.
Print Assumptions C18_flatten_2d_is_row_major.

(* split / drop by column NAME: a column is a sample column iff its name STARTS WITH "sample_" (not: contains it);
   both parts keep the table order of the columns and carry every column (name, values) unchanged *)
From Coq Require Import String.

Theorem C18_split_by_sample_prefix : forall (C : Type) (cols : list (string * C)),
  split_named cols = (filter (fun c => negb (String.prefix "sample_" (fst c))) cols,
                      filter (fun c => String.prefix "sample_" (fst c)) cols) /\
  drop_named cols = filter (fun c => negb (String.prefix "sample_" (fst c))) cols.
Proof. exact @split_named_spec. Qed.
Print Assumptions C18_split_by_sample_prefix.

Theorem C18_sample_column_iff_name_starts_with_sample_ : forall s : string,
  is_sample_name s = true <-> exists t, s = ("sample_" ++ t)%string.
Proof. exact is_sample_name_iff. Qed.
Print Assumptions C18_sample_column_iff_name_starts_with_sample_.

Theorem C18_prefix_not_substring :
  is_sample_name "sample_peak" = true /\ is_sample_name "sample_" = true /\
  is_sample_name "n_sample_c3" = false /\ is_sample_name "resample_c1" = false /\
  is_sample_name "samples_c2" = false /\ is_sample_name "Sample_c4" = false /\
  is_sample_name "sample" = false /\ is_sample_name " sample_c0" = false.
Proof. exact sample_prefix_not_substring. Qed.
Print Assumptions C18_prefix_not_substring.
