(* C18 — table and signal windowing utilities are lossless selections.
   Model: Model/Window.v (binary64 for the limits start*fs / stop*fs; rows carry six sample
   indices plus an opaque payload X = all feature columns). *)
From Coq Require Import List Arith Bool ZArith Floats.PrimFloat.
Import ListNotations.
From ByC Require Import Base.Result Base.FloatBase Base.FloatFacts Model.Cycles Model.Epoch Model.Window Proofs.Window.

(* limit_df returns, in order and with unchanged payload, exactly the rows passing the window test,
   all six sample columns shifted by one and the same offset — the sample index nearest to fs*start — (or none) *)
Theorem C18_limit_df_is_a_filter : forall (X : Type) (rows : list (@wrow X)) fs start stop reset out,
  limit_df rows fs start stop reset = Ok out ->
  let off := if reset
             then F2Z_round (fs * match start with Some a => a | None => 0%float end)%float
             else 0%Z in
  out = map (fun r => (shift_srow off (fst r), snd r)) (filter (keep_row fs start stop) rows).
Proof. exact @limit_df_spec. Qed.
Print Assumptions C18_limit_df_is_a_filter.

Theorem C18_limit_df_uniform_shift : forall (X : Type) (rows : list (@wrow X)) fs start stop reset out,
  limit_df rows fs start stop reset = Ok out ->
  let off := limit_offset fs start reset in
  forall o, In o out ->
    exists r, In r rows /\ keep_row fs start stop r = true /\ snd o = snd r /\
      s_center (fst o) = (s_center (fst r) - off)%Z /\
      s_last (fst o) = (s_last (fst r) - off)%Z /\
      s_next (fst o) = (s_next (fst r) - off)%Z /\
      s_zx_rise (fst o) = (s_zx_rise (fst r) - off)%Z /\
      s_zx_decay (fst o) = (s_zx_decay (fst r) - off)%Z /\
      s_last_zx (fst o) = (s_last_zx (fst r) - off)%Z.
Proof. exact @limit_df_uniform_shift. Qed.
Print Assumptions C18_limit_df_uniform_shift.

(* every cycle entirely inside [start, stop] is kept (either limit optional) ... *)
Theorem C18_inside_kept : forall (X : Type) fs start stop (r : @wrow X),
  keep_row fs start stop r = true <->
  ((match start with Some a => a | None => 0%float end * fs) <=? FloatBase.Z2F (s_last (fst r)))%float = true /\
  (match stop with
   | Some b => (FloatBase.Z2F (s_next (fst r)) <=? (b * fs))%float = true
   | None => True
   end).
Proof. exact @keep_row_iff. Qed.
Print Assumptions C18_inside_kept.

(* ... and no cycle entirely outside it (binary64 order facts; sample indices below 2^53) *)
Theorem C18_outside_not_kept : forall (X : Type) fs start stop (r : @wrow X),
  finite (start_or_0 start * fs)%float = true ->
  (forall b, stop = Some b -> finite (b * fs)%float = true) ->
  (Z.abs (s_last (fst r)) < 2 ^ 53)%Z -> (Z.abs (s_next (fst r)) < 2 ^ 53)%Z ->
  (s_last (fst r) < s_next (fst r))%Z ->
  (FloatBase.Z2F (s_next (fst r)) <? (start_or_0 start * fs))%float = true \/
  (exists b, stop = Some b /\ ((b * fs) <? FloatBase.Z2F (s_last (fst r)))%float = true) ->
  keep_row fs start stop r = false.
Proof. exact @outside_not_kept. Qed.
Print Assumptions C18_outside_not_kept.

Theorem C18_limit_df_accepts_exactly_valid_limits : forall (X : Type) (rows : list (@wrow X)) fs start stop reset,
  (exists out, limit_df rows fs start stop reset = Ok out) <->
  in_range fs 0 infinity = true /\ limits_ok start stop = true.
Proof. exact @limit_df_ok_iff. Qed.
Print Assumptions C18_limit_df_accepts_exactly_valid_limits.

(* limit_signal: exactly the samples with start <= t < stop, in order *)
Theorem C18_limit_signal : forall tv start stop out,
  limit_signal tv start stop = Ok out ->
  out = filter (fun x => (match start with Some a => (a <=? fst x)%float | None => true end) &&
                         (match stop with Some b => (fst x <? b)%float | None => true end)) tv.
Proof. exact limit_signal_spec. Qed.
Print Assumptions C18_limit_signal.

(* split / drop: a partition of the columns by the sample_ prefix, columns carried unchanged *)
Theorem C18_split_samples_partition : forall (C : Type) (cols : list (bool * C)),
  let '(f, s) := split_samples cols in
  (forall c, In c cols <-> In c f \/ In c s) /\
  (forall c, In c f -> fst c = false) /\
  (forall c, In c s -> fst c = true) /\
  (length f + length s = length cols)%nat.
Proof. intros C cols. exact (split_samples_partition cols). Qed.
Print Assumptions C18_split_samples_partition.

(* flatten: tables concatenated in order; row i of table k carries label k; 2-D lists are row-major *)
Theorem C18_flatten_rows_carry_their_table_label : forall (R L : Type) (dfs : list (list R)) (labels : list L) out,
  flatten1 dfs labels = Ok out ->
  length labels = length dfs /\
  map fst out = concat dfs /\
  forall k i d dl, (k < length dfs)%nat -> (i < length (nth k dfs []))%nat ->
    nth (length (concat (firstn k dfs)) + i)%nat out (d, dl) = (nth i (nth k dfs []) d, nth k labels dl).
Proof. exact @flatten1_spec. Qed.
Print Assumptions C18_flatten_rows_carry_their_table_label.

Theorem C18_flatten_2d_is_row_major : forall (R L : Type) (dfs : list (list (list R))) (labels : list L) (n1 : nat),
  (forall row, In row dfs -> length row = n1) ->
  flatten2 dfs labels = flatten1 (concat dfs) labels.
Proof. exact @flatten2_spec. Qed.
Print Assumptions C18_flatten_2d_is_row_major.

(* split / drop by column NAME: a column is a sample column iff its name STARTS WITH "sample_" (not: contains it);
   both parts keep the table order of the columns and carry every column (name, values) unchanged *)
From Coq Require Import String.

Theorem C18_split_by_sample_prefix : forall (C : Type) (cols : list (string * C)),
  split_named cols = (filter (fun c => negb (String.prefix "sample_" (fst c))) cols,
                      filter (fun c => String.prefix "sample_" (fst c)) cols) /\
  drop_named cols = filter (fun c => negb (String.prefix "sample_" (fst c))) cols.
Proof. exact @split_named_spec. Qed.
Print Assumptions C18_split_by_sample_prefix.

Theorem C18_sample_column_iff_name_starts_with_sample_ : forall s : string,
  is_sample_name s = true <-> exists t, s = ("sample_" ++ t)%string.
Proof. exact is_sample_name_iff. Qed.
Print Assumptions C18_sample_column_iff_name_starts_with_sample_.

Theorem C18_prefix_not_substring :
  is_sample_name "sample_peak" = true /\ is_sample_name "sample_" = true /\
  is_sample_name "n_sample_c3" = false /\ is_sample_name "resample_c1" = false /\
  is_sample_name "samples_c2" = false /\ is_sample_name "Sample_c4" = false /\
  is_sample_name "sample" = false /\ is_sample_name " sample_c0" = false.
Proof. exact sample_prefix_not_substring. Qed.
Print Assumptions C18_prefix_not_substring.
