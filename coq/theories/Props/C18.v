(* C18 — theorems are added below as the proofs are completed; see DESIGN.md *)
From Coq Require Import List Arith Bool ZArith Floats.PrimFloat.
Import ListNotations.
From ByC Require Import Base.Result Model.Window.

Theorem C18_placeholder_drop_is_split_left : forall (C : Type) (cols : list (bool * C)),
  drop_samples cols = fst (split_samples cols).
Proof. reflexivity. Qed.
Print Assumptions C18_placeholder_drop_is_split_left.
