(* C07 — amplitude burst labels follow the dual-threshold rule.
   Model: Model/Features.v, method Amp mask t n: `mask` is the sample-wise output of the external
   dual-amplitude-threshold detector (an input of the model, computed by the harness with the
   documented minimum-cycle count), t the burst_fraction_threshold, n the run filter's count.
   The entry point evaluated against the implementation (run_features, method MAmp mask t bk tk)
   receives the RAW min_n_cycles entries of the two option dictionaries and resolves n itself. *)
From Coq Require Import List Arith Bool ZArith Floats.PrimFloat.
Import ListNotations.
From ByC Require Import Base.Result Base.ListAux Base.FloatBase Base.FloatFacts Model.Runs Model.Labels Model.Cycles Model.BurstFeat Model.Features
  Proofs.Labels Proofs.LabelsOrder Proofs.BurstFeat Proofs.FeaturesSpec Proofs.Routing
  Model.TableRuns Proofs.TableRuns.
From ByC Require Import Harness.Compare.

(* burst_fraction of a cycle = fraction of detector samples that are True over [last side,
   next side] INCLUSIVE; the label = (fraction >= threshold, run >= n) rule on those fractions *)
Theorem C07_table_columns : forall c raw k b mask t n out,
  compute_features c raw k b (Amp mask t n) = Ok out ->
  exists tab lab,
    shape_table c raw k b = Ok tab /\
    labels_amp t n (map (burst_fraction_row mask) (map fst tab)) = Ok lab /\
    length out = length tab /\
    forall i, i < length tab ->
      let r := nth i out frow0 in
      r_s r = fst (nth i tab pair0) /\
      r_shape r = snd (nth i tab pair0) /\
      b_bf (r_burst r) = burst_fraction_row mask (fst (nth i tab pair0)) /\
      b_af (r_burst r) = fnan /\ b_ac (r_burst r) = fnan /\
      b_pc (r_burst r) = fnan /\ b_mo (r_burst r) = fnan /\
      r_is_burst r = nth i lab false.
Proof. exact compute_features_amp_spec. Qed.
Print Assumptions C07_table_columns.

Theorem C07_burst_fraction_window_is_inclusive : forall mask r,
  burst_fraction_row mask r = frac_true (zslice mask (s_last r) (s_next r + 1)).
Proof. exact burst_fraction_row_def. Qed.
Print Assumptions C07_burst_fraction_window_is_inclusive.

Theorem C07_burst_fraction_in_unit_interval : forall mask r,
  (0 <= s_last r)%Z -> (s_last r <= s_next r)%Z ->
  (s_next r < Z.of_nat (length mask))%Z -> (Z.of_nat (length mask) < 2 ^ 52)%Z ->
  (0 <=? burst_fraction_row mask r)%float = true /\ (burst_fraction_row mask r <=? 1)%float = true.
Proof. exact burst_fraction_row_range. Qed.
Print Assumptions C07_burst_fraction_in_unit_interval.

(* a cycle is labelled exactly when it lies in a run of >= n consecutive cycles whose burst
   fraction reaches the threshold (stated on the returned columns) *)
Theorem C07_label_iff_run_of_cycles_reaching_threshold : forall c raw k b mask t n out i,
  compute_features c raw k b (Amp mask t n) = Ok out ->
  (r_is_burst (nth i out frow0) = true <->
   exists a e, a <= i < e /\ e <= length out /\ Z.to_nat n <= e - a /\
     forall j, a <= j < e -> (t <=? b_bf (r_burst (nth j out frow0)))%float = true).
Proof. exact compute_features_amp_label_iff_cols. Qed.
Print Assumptions C07_label_iff_run_of_cycles_reaching_threshold.

(* one and the same minimum-cycle count reaches the detector and the run filter: the burst
   options' value if given, else the thresholds' value, else 3 *)
Theorem C07_one_min_cycle_count : forall bk tk,
  detector_min_n bk tk = filter_min_n bk tk /\
  detector_min_n bk tk = match bk with Some b => b | None => match tk with Some t => t | None => 3%Z end end.
Proof. exact min_n_consistent. Qed.
Print Assumptions C07_one_min_cycle_count.

(* raising burst_fraction_threshold on fixed inputs never adds a burst label (binary64) *)
Theorem C07_raising_threshold_never_adds_a_label : forall c raw k b mask t t' n out out',
  finite t = true -> finite t' = true -> PrimFloat.leb t t' = true ->
  compute_features c raw k b (Amp mask t n) = Ok out ->
  compute_features c raw k b (Amp mask t' n) = Ok out' ->
  forall i, r_is_burst (nth i out' frow0) = true -> r_is_burst (nth i out frow0) = true.
Proof. exact compute_features_amp_mono. Qed.
Print Assumptions C07_raising_threshold_never_adds_a_label.

(* the routing on the pipeline model that is evaluated against the implementation: given the RAW
   min_n_cycles entries of burst_kwargs (bk) and threshold_kwargs (tk), None = key absent, the model
   analyses with the burst options' value if given, else the thresholds' value, else 3 ... *)
Theorem C07_pipeline_resolves_the_count_from_the_raw_options : forall c raw p padn amp b mask t bk tk,
  run_features (c, raw, (p, padn, amp), b, MAmp mask t bk tk) =
  compute_features c raw (kernels_in p padn amp) b
    (Amp (barr_bits mask) t
       (match bk with Some n => n | None => match tk with Some n => n | None => 3%Z end end)).
Proof. exact run_features_amp. Qed.
Print Assumptions C07_pipeline_resolves_the_count_from_the_raw_options.

(* ... so the labels of the returned table are the (fraction >= threshold, run) rule with exactly the
   count the sample-wise detector is documented to receive (detector_min_n), applied to the table's
   own burst_fraction column *)
Theorem C07_run_filter_uses_the_detector_count : forall c raw p padn amp b mask t bk tk out,
  run_features (c, raw, (p, padn, amp), b, MAmp mask t bk tk) = Ok out ->
  labels_amp t (detector_min_n bk tk) (map bf_of_row out) = Ok (map r_is_burst out).
Proof. exact run_features_amp_labels. Qed.
Print Assumptions C07_run_filter_uses_the_detector_count.

Theorem C07_pipeline_label_iff_run_with_the_detector_count : forall c raw p padn amp b mask t bk tk out i,
  run_features (c, raw, (p, padn, amp), b, MAmp mask t bk tk) = Ok out ->
  (r_is_burst (nth i out frow0) = true <->
   exists a e, a <= i < e /\ e <= length out /\ Z.to_nat (detector_min_n bk tk) <= e - a /\
     forall j, a <= j < e -> (t <=? b_bf (r_burst (nth j out frow0)))%float = true).
Proof. exact run_features_amp_label_iff. Qed.
Print Assumptions C07_pipeline_label_iff_run_with_the_detector_count.

(* ... while its burst_fraction column is the fraction of the detector mask handed in, whatever bk, tk *)
Theorem C07_pipeline_burst_fraction_is_the_mask_fraction : forall c raw p padn amp b mask t bk tk out,
  run_features (c, raw, (p, padn, amp), b, MAmp mask t bk tk) = Ok out ->
  map bf_of_row out = map (burst_fraction_row (barr_bits mask)) (map r_s out).
Proof. exact run_features_amp_fraction. Qed.
Print Assumptions C07_pipeline_burst_fraction_is_the_mask_fraction.

(* the order of precedence matters (non-vacuity): same table, both rows reach the threshold;
   (bk, tk) = (1, 3) labels both rows, (3, 1) none; the thresholds' 2 is used when the burst options
   give none; neither gives 3 *)
Theorem C07_routing_precedence_example :
  let run bk tk := rmap (map r_is_burst)
    (compute_features Peak ByC.Proofs.Cycles.ex_raw ByC.Proofs.Cycles.ex_k 0
       (Amp ByC.Proofs.Cycles.ex_pos 0.25%float (filter_min_n bk tk))) in
  run (Some 1%Z) (Some 3%Z) = Ok [true; true] /\ run (Some 3%Z) (Some 1%Z) = Ok [false; false] /\
  run None (Some 2%Z) = Ok [true; true] /\ run None None = Ok [false; false] /\ run (Some 2%Z) None = Ok [true; true].
Proof. exact routing_example. Qed.
Print Assumptions C07_routing_precedence_example.

(* detect_bursts_amp called twice on a fixed table (the second call on the RETURNED table, which already carries an
   is_burst column): with burst_fraction_threshold raised and the same count, the second label column is contained
   in the first - for arbitrary fraction values incl. NaN (the entry point evaluated against the implementation) *)
Theorem C07_second_call_with_raised_threshold_only_removes_labels : forall t n t' rows lab lab',
  finite t = true -> finite t' = true -> PrimFloat.leb t t' = true ->
  run_labels_amp2 (t, n, (t', n), rows) = (Ok lab, Some (Ok lab')) ->
  forall i, nth i lab' false = true -> nth i lab false = true.
Proof. exact two_calls_amp_mono. Qed.
Print Assumptions C07_second_call_with_raised_threshold_only_removes_labels.
