(* C15 — analysis functions are pure: no input mutation, no call-history dependence.
   Model: Model/Objects.v, Section Purity: every listed public call is a function
   call : Env -> Arg -> Res of the VALUES of its argument objects and returns the environment
   unchanged.  The theorem lifts this per-call frame condition to all call sequences sharing
   argument objects; the per-call frame condition of the real code is what the correspondence
   check tests (partial, see DESIGN.md).  No axioms. *)
From Coq Require Import List Bool Arith.
Import ListNotations.
From ByC Require Import Base.Result Model.Objects Proofs.Objects.

Theorem C15_environment_unchanged_by_any_call_sequence : forall (Env Arg Res : Type) (call : Env -> Arg -> Res) e l,
  run_calls call e l = (e, map (call e) l).
Proof. exact @run_calls_pure. Qed.
Print Assumptions C15_environment_unchanged_by_any_call_sequence.

Theorem C15_repeated_calls_return_identical_results : forall (Env Arg Res : Type) (call : Env -> Arg -> Res) e l i j a,
  nth_error l i = Some a -> nth_error l j = Some a ->
  nth_error (snd (run_calls call e l)) i = nth_error (snd (run_calls call e l)) j.
Proof. exact @repeated_calls_agree. Qed.
Print Assumptions C15_repeated_calls_return_identical_results.

(* Legacy: compute_features writing into its arguments is NOT of this form — see
   Props/C14.v, C14_legacy_stale_state_refuted *)
