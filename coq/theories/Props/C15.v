(* C15 — analysis functions are pure: no input mutation, no call-history dependence.
   Model: Model/Objects.v, Section Purity: every listed public call is a function
   call : Env -> Arg -> Res of the VALUES of its argument objects and returns the environment
   unchanged.  The theorem lifts this per-call frame condition to all call sequences sharing
   argument objects; the per-call frame condition of the real code is what the correspondence
   check tests (partial, see DESIGN.md).  No axioms.
   Clean-room design (Model/Purity.v, Section CleanRoom): the library is a state machine
   lib : St -> Env -> Arg -> St * Env * Res with a HIDDEN state (module globals, caches); the user
   may edit the environment between calls (HMut); the reference of a call is the same call on the
   current environment from the pristine hidden state s0 (a freshly forked process).  The check
   compares every call of every generated history with that reference. *)
From Coq Require Import List Bool Arith ZArith.
Import ListNotations.
From ByC Require Import Base.Result Harness.Compare Model.Objects Proofs.Objects Model.Purity Proofs.Purity.

Theorem C15_environment_unchanged_by_any_call_sequence : forall (Env Arg Res : Type) (call : Env -> Arg -> Res) e l,
  run_calls call e l = (e, map (call e) l).
Proof. exact @run_calls_pure. Qed.
Print Assumptions C15_environment_unchanged_by_any_call_sequence.

Theorem C15_repeated_calls_return_identical_results : forall (Env Arg Res : Type) (call : Env -> Arg -> Res) e l i j a,
  nth_error l i = Some a -> nth_error l j = Some a ->
  nth_error (snd (run_calls call e l)) i = nth_error (snd (run_calls call e l)) j.
Proof. exact @repeated_calls_agree. Qed.
Print Assumptions C15_repeated_calls_return_identical_results.

(* A library whose every call is a function of the argument values: after ANY history (calls interleaved with
   arbitrary user edits of the argument objects), started in ANY hidden state, every call was made on exactly the
   environment the user built, returned the clean-room result for it, and the final environment is the user's. *)
Theorem C15_any_history_equals_cleanroom_on_current_values :
  forall (St Env Arg Res Mut : Type) (lib : St -> Env -> Arg -> St * Env * Res) (s0 : St) (user : Mut -> Env -> Env),
  value_function lib s0 ->
  forall (l : list (@hstep Arg Mut)) (s : St) (e : Env),
    hist_trace lib user s e l
      = map (fun ea => (fst ea, snd ea, cleanroom lib s0 (fst ea) (snd ea))) (user_calls user e l)
    /\ hist_env lib user s e l = user_env user e l.
Proof. exact @value_function_history_clean. Qed.
Print Assumptions C15_any_history_equals_cleanroom_on_current_values.

Theorem C15_every_call_of_a_history_equals_its_cleanroom_reference :
  forall (St Env Arg Res Mut : Type) (lib : St -> Env -> Arg -> St * Env * Res) (s0 : St) (user : Mut -> Env -> Env),
  value_function lib s0 ->
  forall (s : St) (e : Env) (l : list (@hstep Arg Mut)) i ei ai ri,
    nth_error (hist_trace lib user s e l) i = Some (ei, ai, ri) ->
    ri = cleanroom lib s0 ei ai /\ nth_error (user_calls user e l) i = Some (ei, ai).
Proof. exact @value_function_every_call. Qed.
Print Assumptions C15_every_call_of_a_history_equals_its_cleanroom_reference.

Theorem C15_equal_calls_on_equal_values_agree_after_user_edits :
  forall (St Env Arg Res Mut : Type) (lib : St -> Env -> Arg -> St * Env * Res) (s0 : St) (user : Mut -> Env -> Env),
  value_function lib s0 ->
  forall (s : St) (e : Env) (l : list (@hstep Arg Mut)) i j ea r1 r2,
    nth_error (hist_trace lib user s e l) i = Some (ea, r1) ->
    nth_error (hist_trace lib user s e l) j = Some (ea, r2) -> r1 = r2.
Proof. exact @value_function_equal_calls_agree. Qed.
Print Assumptions C15_equal_calls_on_equal_values_agree_after_user_edits.

(* Completeness of the comparison: a library that equals the clean-room reference on every history started in a
   fresh process is a value function on every hidden state any history can reach. *)
Theorem C15_cleanroom_comparison_is_complete :
  forall (St Env Arg Res Mut : Type) (lib : St -> Env -> Arg -> St * Env * Res) (s0 : St) (user : Mut -> Env -> Env),
  (forall e e' : Env, exists m, user m e = e') ->
  (forall (e : Env) (l : list (@hstep Arg Mut)), history_clean lib s0 user s0 e l) ->
  forall s, reachable lib s0 user s ->
  forall e a, lib_res lib s e a = cleanroom lib s0 e a /\ lib_env lib s e a = e.
Proof. exact @clean_histories_give_value_function. Qed.
Print Assumptions C15_cleanroom_comparison_is_complete.

(* Refuted by 3-step histories (vm_compute witnesses): a cache keyed by object identity
   [analyse; scale the array in place; analyse], a cache keyed by the contents but not the setting
   [n_cycles 3; 7; 3], and a module-level flag set by a helper [helper; analyse; analyse] — in the last one
   the two analyses agree with each other, only the clean-room reference differs. *)
Theorem C15_identity_keyed_cache_refuted :
  length idc_history = 3 /\
  trace_results (hist_trace idc_lib idc_user [] (7, 5%Z) idc_history) = [8%Z; 8%Z] /\
  map (fun ea => cleanroom idc_lib [] (fst ea) (snd ea)) (user_calls idc_user (7, 5%Z) idc_history) = [8%Z; 13%Z] /\
  ~ history_clean idc_lib [] idc_user [] (7, 5%Z) idc_history /\
  ~ value_function idc_lib [].
Proof. exact identity_cache_refuted. Qed.
Print Assumptions C15_identity_keyed_cache_refuted.

Theorem C15_partial_key_cache_refuted :
  length pkc_history = 3 /\
  trace_results (hist_trace pkc_lib idc_user [] (7, 5%Z) pkc_history) = [8%Z; 8%Z; 8%Z] /\
  map (fun ea => cleanroom pkc_lib [] (fst ea) (snd ea)) (user_calls idc_user (7, 5%Z) pkc_history) = [8%Z; 12%Z; 8%Z] /\
  ~ history_clean pkc_lib [] idc_user [] (7, 5%Z) pkc_history /\
  ~ value_function pkc_lib [].
Proof. exact partial_key_cache_refuted. Qed.
Print Assumptions C15_partial_key_cache_refuted.

Theorem C15_module_flag_invisible_within_a_history_refuted_by_cleanroom :
  length flag_history = 3 /\
  trace_results (hist_trace flag_lib idc_user false (7, 5%Z) flag_history) = [0%Z; 9%Z; 9%Z] /\
  nth_error (trace_results (hist_trace flag_lib idc_user false (7, 5%Z) flag_history)) 1 =
  nth_error (trace_results (hist_trace flag_lib idc_user false (7, 5%Z) flag_history)) 2 /\
  hist_env flag_lib idc_user false (7, 5%Z) flag_history = (7, 5%Z) /\
  map (fun ea => cleanroom flag_lib false (fst ea) (snd ea)) (user_calls idc_user (7, 5%Z) flag_history) = [0%Z; 8%Z; 8%Z] /\
  ~ history_clean flag_lib false idc_user false (7, 5%Z) flag_history /\
  ~ value_function flag_lib false.
Proof. exact module_flag_refuted_only_by_cleanroom. Qed.
Print Assumptions C15_module_flag_invisible_within_a_history_refuted_by_cleanroom.

(* The instance evaluated by the correspondence check (bad_cleanroom) is a value function and predicts "equal to the
   clean-room result" and "argument objects unchanged" for every call; its final environment is the user's. *)
Theorem C15_correspondence_model_predicts_clean :
  forall x : list Z * list (@hstep nat (list Z)),
  Forall (fun r : nat * bool * bool => snd (fst r) = true /\ snd r = true) (snd (run_cleanroom x)).
Proof. exact run_cleanroom_all_flags_true. Qed.
Print Assumptions C15_correspondence_model_predicts_clean.

Theorem C15_correspondence_model_final_environment :
  forall (e0 : list Z) (steps : list (@hstep nat (list Z))),
  fst (run_cleanroom (e0, steps)) = user_env ci_user e0 steps.
Proof. exact run_cleanroom_final_env. Qed.
Print Assumptions C15_correspondence_model_final_environment.

(* Legacy: compute_features writing into its arguments is NOT of this form — see
   Props/C14.v, C14_legacy_stale_state_refuted *)
