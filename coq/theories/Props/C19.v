(* C19 — invalid settings are rejected, never silently analysed; valid ones are accepted.
   Model: Model/Validate.v. *)
From Coq Require Import List Bool Arith ZArith String Floats.PrimFloat.
Import ListNotations.
From ByC Require Import Base.Result Base.FloatFacts Model.Validate Proofs.Validate.

(* for every array extent, option-list shape and axis: accepted <-> documented-valid *)
Theorem C19_group_entry_points_accept_exactly_documented : forall s k a,
  group_accepts s k a = true <-> documented_valid s k a.
Proof. exact group_accepts_iff. Qed.
Print Assumptions C19_group_entry_points_accept_exactly_documented.

Theorem C19_shape_check_alone : forall s k a, axis_ok s a = true ->
  (check_kwargs_shape s k a = true <-> documented_valid s k a).
Proof. exact check_shape_sound. Qed.
Print Assumptions C19_shape_check_alone.

Theorem C19_unknown_axis_rejected : forall s k a, axis_ok s a = false -> group_accepts s k a = false.
Proof. exact invalid_axis_rejected. Qed.
Print Assumptions C19_unknown_axis_rejected.

(* the decision table as it was before the repair is refuted by a concrete witness *)
Theorem C19_legacy_table_refuted : exists s k a,
  check_kwargs_shape_legacy s k a && axis_ok s a = true /\ ~ documented_valid s k a.
Proof. exact legacy_table_refuted. Qed.
Print Assumptions C19_legacy_table_refuted.

(* range checks accept exactly lo <= x <= hi (binary64, finite operands) *)
Theorem C19_range_check_exact : forall x lo hi, finite x = true -> finite lo = true -> finite hi = true ->
  (in_range x lo hi = true <-> (lo <=? x)%float = true /\ (x <=? hi)%float = true).
Proof. exact in_range_iff. Qed.
Print Assumptions C19_range_check_exact.

(* infinite values are outside every finite range (thresholds +/-inf are rejected) *)
Theorem C19_range_check_rejects_infinities : forall lo hi, finite lo = true -> finite hi = true ->
  in_range infinity lo hi = false /\ in_range neg_infinity lo hi = false.
Proof. exact in_range_infinite. Qed.
Print Assumptions C19_range_check_rejects_infinities.

(* a non-positive sampling rate is rejected: every finite fs <= 0, both zeros, -inf and NaN *)
Theorem C19_nonpositive_sampling_rate_rejected :
  (forall fs, finite fs = true -> (fs <=? 0)%float = true -> fs_ok fs = false) /\
  (fs_ok 0 = false /\ fs_ok (-0) = false /\ fs_ok nan = false /\ fs_ok neg_infinity = false).
Proof. exact (conj fs_ok_nonpositive fs_ok_rejects). Qed.
Print Assumptions C19_nonpositive_sampling_rate_rejected.

Theorem C19_min_n_cycles_nonnegative : forall n, min_n_ok n = true <-> (0 <= n)%Z.
Proof. exact min_n_ok_iff. Qed.
Print Assumptions C19_min_n_cycles_nonnegative.

Theorem C19_enumerated_options : forall nv o, option_ok nv o = true <-> exists i, o = OptValid i /\ (i < nv)%nat.
Proof. exact option_ok_iff. Qed.
Print Assumptions C19_enumerated_options.

(* the documented value tables (Model/Validate.v: documented_options), compared with the implementation on every run:
   a value is accepted iff it is listed for that option *)
Theorem C19_documented_option_tables : forall o v, option_accepts o v = true <-> In v (documented_options o).
Proof. exact option_accepts_iff. Qed.
Print Assumptions C19_documented_option_tables.

Theorem C19_documented_option_values :
  (forall v, option_accepts OCenter v = true <-> v = Some "peak"%string \/ v = Some "trough"%string) /\
  (forall v, option_accepts OBurstMethod v = true <-> v = Some "cycles"%string \/ v = Some "amp"%string) /\
  (forall v, option_accepts OFirstExtrema v = true <-> v = Some "peak"%string \/ v = Some "trough"%string \/ v = None) /\
  (forall v, option_accepts ODirection v = true <-> v = Some "both"%string \/ v = Some "next"%string \/ v = Some "last"%string) /\
  (forall v, option_accepts OProgress v = true <-> v = None \/ v = Some "tqdm"%string \/ v = Some "tqdm.notebook"%string).
Proof. exact option_tables. Qed.
Print Assumptions C19_documented_option_values.

Theorem C19_dimensionality_guards :
  (forall d, bycycle_fit_dim_ok d = true <-> d = 1%nat) /\
  (forall d, group_fit_dim_ok d = true <-> d = 2%nat \/ d = 3%nat).
Proof. exact dims_guards. Qed.
Print Assumptions C19_dimensionality_guards.

(* values of any Python type (Model/Validate.v: pyval): an enumerated option accepts a value iff it is None or a
   string and is listed for that option ... *)
Theorem C19_option_values_of_any_type : forall o v,
  option_accepts_val o v = true <-> exists x, pyval_as_option v = Some x /\ In x (documented_options o).
Proof. exact option_accepts_val_iff. Qed.
Print Assumptions C19_option_values_of_any_type.

(* ... so a falsy value is accepted only when it is None itself: '', False, 0, 0.0, b'', (), [] are unknown values of
   every option, never a spelling of None *)
Theorem C19_falsy_values_are_not_None : forall o v, falsy v = true -> option_accepts_val o v = true -> v = PNone.
Proof. exact falsy_accepted_is_None. Qed.
Print Assumptions C19_falsy_values_are_not_None.

Theorem C19_falsy_unknown_values_rejected : forall o,
  option_accepts_val o (PStr "") = false /\ option_accepts_val o (PBool false) = false /\
  option_accepts_val o (PInt 0) = false /\ option_accepts_val o (PFloat 0) = false /\
  option_accepts_val o (PBytes "") = false /\ option_accepts_val o (PTuple []) = false /\
  option_accepts_val o (PList []) = false.
Proof. exact falsy_unknowns_rejected. Qed.
Print Assumptions C19_falsy_unknown_values_rejected.

(* option strings are compared exactly: another case or surrounding white space is an unknown value *)
Theorem C19_option_spelling_is_exact :
  option_accepts_val OCenter (PStr "Peak") = false /\ option_accepts_val OCenter (PStr " peak") = false /\
  option_accepts_val OCenter (PStr "peak ") = false /\ option_accepts_val OBurstMethod (PStr "Cycles") = false /\
  option_accepts_val OFirstExtrema (PStr "None") = false /\ option_accepts_val ODirection (PStr "BOTH") = false /\
  option_accepts_val OProgress (PStr "Tqdm") = false /\ option_accepts_val OProgress (PStr "tqdm ") = false.
Proof. exact option_spelling_exact. Qed.
Print Assumptions C19_option_spelling_is_exact.

(* the minimum cycle count of the amplitude method can be given in two dictionaries (burst_kwargs: detector, thresholds:
   run filter); accepted <-> no count that is given is negative ... *)
Theorem C19_min_n_cycles_in_either_dictionary : forall b t,
  min_n_pair_ok b t = true <-> (forall n, b = Some n -> (0 <= n)%Z) /\ (forall n, t = Some n -> (0 <= n)%Z).
Proof. exact min_n_pair_ok_iff. Qed.
Print Assumptions C19_min_n_cycles_in_either_dictionary.

(* ... so a negative count is rejected wherever it is given, whatever the other dictionary says *)
Theorem C19_negative_min_n_cycles_rejected_in_either_dictionary : forall b t n,
  b = Some n \/ t = Some n -> (n < 0)%Z -> min_n_pair_ok b t = false.
Proof. exact min_n_pair_negative_rejected. Qed.
Print Assumptions C19_negative_min_n_cycles_rejected_in_either_dictionary.

(* validating only the count the pipeline ends up using (burst_kwargs', else the thresholds', else 3: the behaviour before
   the repair 5602cfc) differs from the rule on exactly one class: valid count in burst_kwargs, negative count in the thresholds *)
Theorem C19_validating_only_the_effective_count_differs_exactly_on : forall b t,
  min_n_pair_ok_legacy b t <> min_n_pair_ok b t <->
  exists nb nt, b = Some nb /\ t = Some nt /\ (0 <= nb)%Z /\ (nt < 0)%Z.
Proof. exact min_n_pair_legacy_differs_iff. Qed.
Print Assumptions C19_validating_only_the_effective_count_differs_exactly_on.

Theorem C19_overwritten_negative_count_refuted :
  exists b t n, t = Some n /\ (n < 0)%Z /\ min_n_pair_ok_legacy b t = true /\ min_n_pair_ok b t = false.
Proof. exact min_n_pair_legacy_refuted. Qed.
Print Assumptions C19_overwritten_negative_count_refuted.
