(* C03 — flank midpoints sit where the flank crosses its half-height. (theorems added as proved) *)
From Coq Require Import List Arith Bool ZArith Floats.PrimFloat.
Import ListNotations.
From ByC Require Import Base.Result Model.Zerox.

Theorem C03_placeholder_empty_extrema_rejected : forall sig t, find_zerox sig [] t = Err EIndex.
Proof. reflexivity. Qed.
Print Assumptions C03_placeholder_empty_extrema_rejected.
