(* C03 — flank midpoints sit where the flank crosses its half-height.
   Model: Model/Zerox.v.  All statements are structural: the float comparisons are opaque
   booleans, so they hold for every binary64 input (Print Assumptions lists only the
   primitive float type and operations the model mentions). *)
From Coq Require Import List Arith Bool ZArith Sorted Floats.PrimFloat.
Import ListNotations.
From ByC Require Import Base.Result Base.ListAux Base.FloatFacts Model.Zerox Proofs.Zerox Proofs.ZeroxFloat.
Close Scope float_scope. Close Scope R_scope.

(* one midpoint per flank, in temporal order: for p0 < t0 < p1 < t1 < ... decay k belongs to
   the flank peak k -> trough k and rise k to the flank trough k -> peak k+1 *)
Theorem C03_one_midpoint_per_flank_peak_first : forall sig peaks troughs,
  interleaved peaks troughs -> peaks <> [] ->
  Forall (fun z => (0 <= z < Z.of_nat (length sig))%Z) peaks ->
  Forall (fun z => (0 <= z < Z.of_nat (length sig))%Z) troughs ->
  exists rises decays, find_zerox sig peaks troughs = Ok (rises, decays) /\
    length decays = length peaks /\ length rises = length peaks - 1 /\
    (forall k, k < length peaks -> exists m, nth_error decays k = Some m /\
        flank_mid false sig (nth k peaks 0%Z) (nth k troughs 0%Z) = Ok m) /\
    (forall k, S k < length peaks -> exists m, nth_error rises k = Some m /\
        flank_mid true sig (nth k troughs 0%Z) (nth (S k) peaks 0%Z) = Ok m).
Proof. exact find_zerox_peak_first. Qed.
Print Assumptions C03_one_midpoint_per_flank_peak_first.

Theorem C03_one_midpoint_per_flank_trough_first : forall sig peaks troughs,
  interleaved troughs peaks -> troughs <> [] ->
  Forall (fun z => (0 <= z < Z.of_nat (length sig))%Z) peaks ->
  Forall (fun z => (0 <= z < Z.of_nat (length sig))%Z) troughs ->
  exists rises decays, find_zerox sig peaks troughs = Ok (rises, decays) /\
    length rises = length troughs /\ length decays = length troughs - 1 /\
    (forall k, k < length troughs -> exists m, nth_error rises k = Some m /\
        flank_mid true sig (nth k troughs 0%Z) (nth k peaks 0%Z) = Ok m) /\
    (forall k, S k < length troughs -> exists m, nth_error decays k = Some m /\
        flank_mid false sig (nth k peaks 0%Z) (nth (S k) troughs 0%Z) = Ok m).
Proof. exact find_zerox_trough_first. Qed.
Print Assumptions C03_one_midpoint_per_flank_trough_first.

(* the midpoint lies (inclusively) between the two extrema of its flank *)
Theorem C03_midpoint_between_extrema : forall rise sig s e m,
  flank_mid rise sig s e = Ok m -> (0 <= s <= e)%Z -> (e < Z.of_nat (length sig))%Z -> (s <= m <= e)%Z.
Proof. exact flank_mid_between. Qed.
Print Assumptions C03_midpoint_between_extrema.

(* the definition: segment centre when the segment is identically zero or the flank is
   inverted; otherwise the floor of the temporal median of ALL half-height crossings;
   the centre again only if no sample pair straddles the level *)
Theorem C03_midpoint_definition : forall rise sig s e m,
  flank_mid rise sig s e = Ok m -> (0 <= s <= e)%Z -> (e < Z.of_nat (length sig))%Z ->
  let seg := zslice sig s (e + 1) in
  let x0 := nth 0 seg 0%float in let xl := last seg 0%float in
  let c := (s + Z.of_nat (length seg / 2))%Z in
  let mid := ((x0 + xl) / 2)%float in
  let inverted := if rise then (xl <? x0)%float else (x0 <? xl)%float in
  length seg = Z.to_nat (e - s + 1) /\
  (all_zero seg = true -> m = c) /\
  (all_zero seg = false -> inverted = true -> m = c) /\
  (all_zero seg = false -> inverted = false -> level_crossings rise mid 0 seg = [] -> m = c) /\
  (all_zero seg = false -> inverted = false -> level_crossings rise mid 0 seg <> [] ->
     m = (s + Z.of_nat (median_floor (level_crossings rise mid 0 seg)))%Z).
Proof. exact flank_mid_cases. Qed.
Print Assumptions C03_midpoint_definition.

(* the listed crossings are exactly the sample pairs straddling the level, in temporal order *)
Theorem C03_crossings_are_exactly_the_level_crossings : forall rise mid k0 seg k,
  In k (level_crossings rise mid k0 seg) <->
  k0 <= k /\ S (k - k0) < length seg /\
  on_start rise (nth (k - k0) seg 0%float) mid = true /\
  on_start rise (nth (S (k - k0)) seg 0%float) mid = false.
Proof. exact level_crossings_spec. Qed.
Print Assumptions C03_crossings_are_exactly_the_level_crossings.

Theorem C03_crossings_in_temporal_order : forall rise mid k0 seg,
  StronglySorted lt (level_crossings rise mid k0 seg).
Proof. exact level_crossings_sorted. Qed.
Print Assumptions C03_crossings_in_temporal_order.

Theorem C03_median_rounded_down_within_crossings : forall xs, StronglySorted lt xs ->
  nth 0 xs 0 <= median_floor xs <= last xs 0.
Proof. exact median_floor_sorted_lt_bounds. Qed.
Print Assumptions C03_median_rounded_down_within_crossings.

(* discrete intermediate value: a segment that starts on the near side of the level and ends
   on the far side has a crossing *)
Theorem C03_crossing_exists : forall rise mid seg, seg <> [] ->
  on_start rise (hd 0%float seg) mid = true -> on_start rise (last seg 0%float) mid = false ->
  level_crossings rise mid 0 seg <> [].
Proof. exact level_crossings_exists. Qed.
Print Assumptions C03_crossing_exists.

(* midpoints in the pipeline's (peak-first) layout lie between the extrema they separate *)
Theorem C03_ordering_peak_first : forall sig peaks troughs rises decays,
  interleaved peaks troughs -> peaks <> [] ->
  Forall (fun z => (0 <= z < Z.of_nat (length sig))%Z) peaks ->
  Forall (fun z => (0 <= z < Z.of_nat (length sig))%Z) troughs ->
  find_zerox sig peaks troughs = Ok (rises, decays) ->
  length decays = length peaks /\ length rises = length peaks - 1 /\
  (forall k, k < length peaks -> (nth k peaks 0 <= nth k decays 0 <= nth k troughs 0)%Z) /\
  (forall k, S k < length peaks -> (nth k troughs 0 <= nth k rises 0 <= nth (S k) peaks 0)%Z).
Proof. exact find_zerox_ordering. Qed.
Print Assumptions C03_ordering_peak_first.

(* binary64: on a genuine flank (finite, strictly ordered extrema, half-height strictly before the
   far extremum) the midpoint IS the rounded-down median of the half-height crossings — the
   segment-centre fallback is never taken.  (The two strictness hypotheses cannot be dropped:
   ZeroxFloat.fallback_equal_extrema, fallback_adjacent_floats_rise.) *)
Theorem C03_genuine_flank_uses_the_median_crossing : forall (rise : bool) sig s e m,
  (0 <= s <= e)%Z -> (e < Z.of_nat (length sig))%Z ->
  let seg := zslice sig s (e + 1) in
  let x0 := hd 0%float seg in
  let xl := last seg 0%float in
  let mid := ((x0 + xl) / 2)%float in
  finite x0 = true -> finite xl = true -> finite (x0 + xl)%float = true ->
  (if rise then x0 <? xl else xl <? x0)%float = true ->
  (if rise then mid <? xl else mid <? x0)%float = true ->
  flank_mid rise sig s e = Ok m ->
  m = (s + Z.of_nat (median_floor (level_crossings rise mid 0 seg)))%Z /\
  level_crossings rise mid 0 seg <> [].
Proof. exact flank_mid_genuine. Qed.
Print Assumptions C03_genuine_flank_uses_the_median_crossing.

(* alternating sequences that start AND end with the same kind (find_extrema with
   first_extrema = None returns these): p0 < t0 < p1 < ... < t(n-1) < pn has n decays (peak k ->
   trough k) and n rises (trough k -> peak k+1); t0 < p0 < ... < p(n-1) < tn symmetrically.
   Each midpoint is again flank_mid of its own flank, so C03_midpoint_between_extrema,
   C03_midpoint_definition and C03_genuine_flank_uses_the_median_crossing apply to it. *)
Theorem C03_one_midpoint_per_flank_peak_both_ends : forall sig peaks troughs,
  length peaks = S (length troughs) -> troughs <> [] ->
  (forall k, k < length troughs -> (nth k peaks 0 < nth k troughs 0 < nth (S k) peaks 0)%Z) ->
  Forall (fun z => (0 <= z < Z.of_nat (length sig))%Z) peaks ->
  Forall (fun z => (0 <= z < Z.of_nat (length sig))%Z) troughs ->
  exists rises decays, find_zerox sig peaks troughs = Ok (rises, decays) /\
    length decays = length troughs /\ length rises = length troughs /\
    (forall k, k < length troughs -> exists m, nth_error decays k = Some m /\
        flank_mid false sig (nth k peaks 0%Z) (nth k troughs 0%Z) = Ok m) /\
    (forall k, k < length troughs -> exists m, nth_error rises k = Some m /\
        flank_mid true sig (nth k troughs 0%Z) (nth (S k) peaks 0%Z) = Ok m).
Proof. exact find_zerox_peak_both_ends. Qed.
Print Assumptions C03_one_midpoint_per_flank_peak_both_ends.

Theorem C03_one_midpoint_per_flank_trough_both_ends : forall sig peaks troughs,
  length troughs = S (length peaks) -> peaks <> [] ->
  (forall k, k < length peaks -> (nth k troughs 0 < nth k peaks 0 < nth (S k) troughs 0)%Z) ->
  Forall (fun z => (0 <= z < Z.of_nat (length sig))%Z) peaks ->
  Forall (fun z => (0 <= z < Z.of_nat (length sig))%Z) troughs ->
  exists rises decays, find_zerox sig peaks troughs = Ok (rises, decays) /\
    length rises = length peaks /\ length decays = length peaks /\
    (forall k, k < length peaks -> exists m, nth_error rises k = Some m /\
        flank_mid true sig (nth k troughs 0%Z) (nth k peaks 0%Z) = Ok m) /\
    (forall k, k < length peaks -> exists m, nth_error decays k = Some m /\
        flank_mid false sig (nth k peaks 0%Z) (nth (S k) troughs 0%Z) = Ok m).
Proof. exact find_zerox_trough_both_ends. Qed.
Print Assumptions C03_one_midpoint_per_flank_trough_both_ends.

(* the trough-first counterpart of C03_ordering_peak_first *)
Theorem C03_ordering_trough_first : forall sig peaks troughs rises decays,
  interleaved troughs peaks -> troughs <> [] ->
  Forall (fun z => (0 <= z < Z.of_nat (length sig))%Z) peaks ->
  Forall (fun z => (0 <= z < Z.of_nat (length sig))%Z) troughs ->
  find_zerox sig peaks troughs = Ok (rises, decays) ->
  length rises = length troughs /\ length decays = length troughs - 1 /\
  (forall k, k < length troughs -> (nth k troughs 0 <= nth k rises 0 <= nth k peaks 0)%Z) /\
  (forall k, S k < length troughs -> (nth k peaks 0 <= nth k decays 0 <= nth (S k) troughs 0)%Z).
Proof. exact find_zerox_ordering_trough_first. Qed.
Print Assumptions C03_ordering_trough_first.
