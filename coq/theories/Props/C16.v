(* C16 — edge recomputation touches only burst edges and only grows bursts.
   Model: Model/Edges.v.  is_edge lab i: cycle i is the non-burst cycle immediately before or
   after a burst (located from the transitions of the label column).  The growth theorem uses the
   binary64 threshold order (Flocq); the frame / value / labelling theorems are structural.
   "Returns a new table / the input table is untouched" is a statement about Python object identity and
   mutation: the model is functional, so that clause is checked by the statement oracle only. *)
From Coq Require Import List Arith Bool ZArith Floats.PrimFloat.
Import ListNotations.
From ByC Require Import Base.Result Base.FloatBase Model.Runs Model.Labels Model.BurstFeat Model.Edges
  Proofs.Labels Proofs.LabelsOrder Proofs.Edges.

(* edges are non-burst cycles adjacent to a burst *)
Theorem C16_edges_are_nonburst_cycles : forall lab i,
  nth 0 lab false = false -> is_edge lab i -> nth i lab false = false.
Proof. exact is_edge_not_burst. Qed.
Print Assumptions C16_edges_are_nonburst_cycles.

Theorem C16_edges_are_adjacent_to_a_burst : forall lab i,
  nth 0 lab false = false -> is_edge lab i ->
  nth (S i) lab false = true \/ (1 <= i /\ nth (i - 1) lab false = true).
Proof. exact is_edge_adjacent. Qed.
Print Assumptions C16_edges_are_adjacent_to_a_burst.

(* completeness: in a table whose first and last cycle are not bursting (every table produced by
   consistency burst detection), EVERY non-burst cycle immediately before or after a burst is an edge *)
Theorem C16_every_nonburst_cycle_next_to_a_burst_is_an_edge : forall lab i,
  nth 0 lab false = false -> nth (length lab - 1) lab false = false ->
  nth i lab false = false ->
  (nth (S i) lab false = true \/ (1 <= i /\ nth (i - 1) lab false = true)) ->
  is_edge lab i.
Proof. exact is_edge_complete. Qed.
Print Assumptions C16_every_nonburst_cycle_next_to_a_burst_is_an_edge.

(* so the edges are exactly "the cycles immediately outside each detected burst" *)
Theorem C16_edges_are_exactly_the_cycles_immediately_outside_bursts : forall lab i,
  nth 0 lab false = false -> nth (length lab - 1) lab false = false ->
  (is_edge lab i <->
   nth i lab false = false /\ (nth (S i) lab false = true \/ (1 <= i /\ nth (i - 1) lab false = true))).
Proof. exact is_edge_iff. Qed.
Print Assumptions C16_edges_are_exactly_the_cycles_immediately_outside_bursts.

(* frame: a cell differs from the input only if its column is amp/period consistency and its row
   is a burst edge; everything else (and the row count) is unchanged *)
Theorem C16_frame : forall (X : Type) peak (rows out : list (@edrow X)),
  recompute_all peak rows = Ok out ->
  length out = length rows /\
  forall j r, nth_error rows j = Some r ->
    exists r', nth_error out j = Some r' /\
      e_rise r' = e_rise r /\ e_decay r' = e_decay r /\ e_period r' = e_period r /\
      e_lab r' = e_lab r /\ e_x r' = e_x r /\
      f_af (e_feat r') = f_af (e_feat r) /\ f_mo (e_feat r') = f_mo (e_feat r) /\
      (~ is_edge (map e_lab rows) j -> r' = r).
Proof. exact @recompute_all_frame. Qed.
Print Assumptions C16_frame.

(* the new value at an edge is the ONE-SIDED consistency (next or last) computed on the original
   table, or NaN at either end of the table *)
Theorem C16_edge_values_are_one_sided : forall (X : Type) peak (rows out : list (@edrow X)) j,
  recompute_all peak rows = Ok out -> is_edge (map e_lab rows) j ->
  exists r', nth_error out j = Some r' /\
    ((1 <= j /\ j + 1 < length rows /\
      exists d, (d = Next \/ d = Last) /\
        f_ac (e_feat r') = clamp0 (amp_cons_at peak d (map e_rise rows) (map e_decay rows) j) /\
        f_pc (e_feat r') = period_cons_at d (map e_period rows) j) \/
     ((j = 0 \/ j + 1 = length rows) /\
      isnan (f_ac (e_feat r')) = true /\ isnan (f_pc (e_feat r')) = true)).
Proof. exact @recompute_all_edge_value. Qed.
Print Assumptions C16_edge_values_are_one_sided.

(* ... and the direction is the one LOOKING INTO THE BURST: Next exactly when the burst follows the edge
   cycle (edge_dir lab j = if lab[j+1] then Next else Last) *)
Theorem C16_edge_value_looks_into_the_burst : forall (X : Type) peak (rows out : list (@edrow X)) j,
  nth 0 (map e_lab rows) false = false -> nth (length rows - 1) (map e_lab rows) false = false ->
  recompute_all peak rows = Ok out -> is_edge (map e_lab rows) j ->
  exists r', nth_error out j = Some r' /\
    ((1 <= j /\ j + 1 < length rows /\
      f_ac (e_feat r') = clamp0 (amp_cons_at peak (edge_dir (map e_lab rows) j) (map e_rise rows) (map e_decay rows) j) /\
      f_pc (e_feat r') = period_cons_at (edge_dir (map e_lab rows) j) (map e_period rows) j) \/
     ((j = 0 \/ j + 1 = length rows) /\
      isnan (f_ac (e_feat r')) = true /\ isnan (f_pc (e_feat r')) = true)).
Proof. exact @recompute_all_edge_value_dir. Qed.
Print Assumptions C16_edge_value_looks_into_the_burst.

(* a single non-burst cycle between two bursts is the end of the first and the start of the second:
   it ends with the value looking into the FOLLOWING burst (the later write wins) *)
Theorem C16_single_gap_between_two_bursts_looks_next : forall (X : Type) peak (rows out : list (@edrow X)) j,
  nth 0 (map e_lab rows) false = false -> nth (length rows - 1) (map e_lab rows) false = false ->
  recompute_all peak rows = Ok out -> 1 <= j ->
  nth (j - 1) (map e_lab rows) false = true -> nth j (map e_lab rows) false = false ->
  nth (S j) (map e_lab rows) false = true ->
  exists r', nth_error out j = Some r' /\
    f_ac (e_feat r') = clamp0 (amp_cons_at peak Next (map e_rise rows) (map e_decay rows) j) /\
    f_pc (e_feat r') = period_cons_at Next (map e_period rows) j.
Proof. exact @recompute_all_gap_between_two_bursts_looks_next. Qed.
Print Assumptions C16_single_gap_between_two_bursts_looks_next.

(* the new labels are the threshold-and-run rule applied to the edited table; nothing else changes *)
Theorem C16_relabelled_by_the_rule : forall (X : Type) peak t n (rows out : list (@edrow X)) d,
  recompute_edges peak t n rows = Ok out ->
  exists ed lab, recompute_all peak rows = Ok ed /\ labels_cycles t n (map e_feat ed) = Ok lab /\
    length out = length rows /\
    forall j, j < length rows ->
      e_lab (nth j out d) = nth j lab false /\
      e_feat (nth j out d) = e_feat (nth j ed d) /\
      e_rise (nth j out d) = e_rise (nth j rows d) /\
      e_decay (nth j out d) = e_decay (nth j rows d) /\
      e_period (nth j out d) = e_period (nth j rows d) /\
      e_x (nth j out d) = e_x (nth j rows d).
Proof. exact @recompute_edges_spec. Qed.
Print Assumptions C16_relabelled_by_the_rule.

(* growth: with unchanged or lowered thresholds every previously bursting cycle stays bursting *)
Theorem C16_bursts_only_grow : forall (X : Type) peak t0 n0 t n (rows out : list (@edrow X)),
  labels_cycles t0 n0 (map e_feat rows) = Ok (map e_lab rows) ->
  thr_finite t -> thr_finite t0 -> thr_le t t0 -> (n <= n0)%Z ->
  recompute_edges peak t n rows = Ok out ->
  forall j, nth j (map e_lab rows) false = true -> nth j (map e_lab out) false = true.
Proof. exact @recompute_edges_grows. Qed.
Print Assumptions C16_bursts_only_grow.

(* non-vacuity: a table meeting the hypotheses on which the burst strictly grows *)
Theorem C16_growth_nonvacuous :
  labels_cycles ex_t 2 (map e_feat ex_rows) = Ok (map e_lab ex_rows) /\
  thr_finite ex_t /\ thr_le ex_t ex_t /\
  map e_lab ex_rows = [false; true; true; false; false] /\
  rmap (map (@e_lab nat)) (recompute_edges true ex_t 2 ex_rows) = Ok [false; true; true; true; false].
Proof. exact recompute_edges_grows_nonvacuous. Qed.
Print Assumptions C16_growth_nonvacuous.

(* Legacy: the pre-repair behaviour (lost chained write: only re-thresholding) differs *)
Theorem C16_legacy_refuted : recompute_edges_legacy true ex_t 2 ex_rows <> recompute_edges true ex_t 2 ex_rows.
Proof. exact recompute_edges_legacy_refuted. Qed.
Print Assumptions C16_legacy_refuted.
