(* C16 — theorems are added below as the proofs are completed; see DESIGN.md *)
From Coq Require Import List Arith Bool ZArith Floats.PrimFloat.
Import ListNotations.
From ByC Require Import Base.Result Model.Edges.

Theorem C16_placeholder_edges_come_in_pairs : forall s e t, edge_pairs (s :: e :: t) = (s, S e) :: edge_pairs t.
Proof. reflexivity. Qed.
Print Assumptions C16_placeholder_edges_come_in_pairs.
