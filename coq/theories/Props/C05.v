(* C05 — burst features equal their documented definitions.
   Model: Model/BurstFeat.v over binary64.  `flankseq` is the temporal flank sequence
   (rise, decay, rise, ... for a peak-centred table; decay, rise, decay, ... for a trough-centred
   one); `amp_cons_generic` is the centring-free definition: the smallest min/max ratio among the
   three adjacent flank pairs that include one of the cycle's flanks. *)
From Coq Require Import List Arith Bool ZArith Floats.PrimFloat.
Import ListNotations.
From ByC Require Import Base.Result Base.ListAux Base.FloatBase Base.FloatFacts
  Model.Cycles Model.BurstFeat Proofs.BurstFeat.

(* amp_fraction = (#smaller + (#equal + 1)/2) / n : the average rank (ties share it) over n *)
Theorem C05_amp_fraction_is_average_rank_over_n : forall va i, i < length va -> isnan (fnth va i) = false ->
  fnth (amp_fraction va) i =
  ((FloatBase.Z2F (2 * n_less va (fnth va i) + n_eq va (fnth va i) + 1) / 2)
     / FloatBase.Z2F (Z.of_nat (length va)))%float.
Proof. exact amp_fraction_spec. Qed.
Print Assumptions C05_amp_fraction_is_average_rank_over_n.

Theorem C05_amp_fraction_range : forall va i, i < length va -> isnan (fnth va i) = false ->
  (Z.of_nat (length va) < 2 ^ 52)%Z ->
  (0 <? fnth (amp_fraction va) i)%float = true /\ (fnth (amp_fraction va) i <=? 1)%float = true.
Proof. exact amp_fraction_range. Qed.
Print Assumptions C05_amp_fraction_range.

(* both centring-dependent branches of the code compute the same centring-free definition *)
Theorem C05_amp_consistency_centring_free : forall peak d rises decays c, 1 <= c ->
  amp_cons_at peak d rises decays c = amp_cons_generic d (flankseq peak rises decays) c.
Proof. exact amp_cons_at_generic. Qed.
Print Assumptions C05_amp_consistency_centring_free.

(* table level: first and last cycle NaN, interior = clamped three-pair minimum *)
Theorem C05_amp_consistency_table : forall peak d rises decays l,
  amp_consistency peak d rises decays = Ok l ->
  length l = length rises /\
  (forall c, c < length rises ->
     nth c l 0%float = if Nat.eqb c 0 || Nat.eqb c (length rises - 1) then fnan
                       else clamp0 (amp_cons_at peak d rises decays c)).
Proof. exact amp_consistency_spec. Qed.
Print Assumptions C05_amp_consistency_table.

Theorem C05_amp_consistency_ends_undefined : forall peak d rises decays l,
  amp_consistency peak d rises decays = Ok l ->
  isnan (nth 0 l 0%float) = true /\ isnan (nth (length rises - 1) l 0%float) = true.
Proof. exact amp_consistency_ends_nan. Qed.
Print Assumptions C05_amp_consistency_ends_undefined.

Theorem C05_period_consistency_ends_undefined : forall d periods l,
  period_consistency d periods = Ok l ->
  isnan (nth 0 l 0%float) = true /\ isnan (nth (length periods - 1) l 0%float) = true.
Proof. exact period_consistency_ends_nan. Qed.
Print Assumptions C05_period_consistency_ends_undefined.

(* monotone-step fractions use STRICT comparisons of consecutive samples *)
Theorem C05_monotone_steps_are_strict : forall up l k, S k < length l ->
  nth k (steps up l) false =
  if up then (nth k l 0 <? nth (S k) l 0)%float else (nth (S k) l 0 <? nth k l 0)%float.
Proof. exact steps_spec. Qed.
Print Assumptions C05_monotone_steps_are_strict.

(* ranges (binary64): all in [0,1] when the flank voltages involved are positive and finite *)
Theorem C05_amp_consistency_range : forall peak d rises decays l c,
  amp_consistency peak d rises decays = Ok l -> 1 <= c -> c + 1 < length rises ->
  (forall i, 2 * c - 1 <= i <= 2 * c + 2 -> posfin (flankseq peak rises decays i)) ->
  nth c l 0%float = amp_cons_at peak d rises decays c /\
  isnan (nth c l 0%float) = false /\
  (0 <=? nth c l 0%float)%float = true /\ (nth c l 0%float <=? 1)%float = true.
Proof. exact amp_consistency_range. Qed.
Print Assumptions C05_amp_consistency_range.

Theorem C05_period_consistency_range : forall d periods c,
  (forall i, c - 1 <= i <= c + 1 -> (0 < nth i periods 0%Z < 2 ^ 53)%Z) ->
  let r := period_cons_at d periods c in
  isnan r = false /\ (0 <? r)%float = true /\ (r <=? 1)%float = true.
Proof. exact period_cons_at_range. Qed.
Print Assumptions C05_period_consistency_range.

Theorem C05_monotonicity_range : forall peak sig r,
  (0 <= s_last r)%Z -> (s_last r < s_center r)%Z -> (s_center r < s_next r)%Z ->
  (s_next r < Z.of_nat (length sig))%Z -> (Z.of_nat (length sig) < 2 ^ 52)%Z ->
  (0 <=? monotonicity_row peak sig r)%float = true /\
  (monotonicity_row peak sig r <=? 1)%float = true.
Proof. exact monotonicity_row_range. Qed.
Print Assumptions C05_monotonicity_range.

(* the min/max ratio does not depend on the order of its arguments — for EVERY pair of doubles *)
Theorem C05_ratio_symmetric : forall a b : PrimFloat.float, ratio_minmax a b = ratio_minmax b a.
Proof. exact ratio_minmax_sym. Qed.
Print Assumptions C05_ratio_symmetric.

(* amp_fraction of a cycle whose volt_amp is NaN stays NaN (pandas rank keeps NaN) *)
Theorem C05_amp_fraction_nan_keeps_nan : forall va i, i < length va -> isnan (fnth va i) = true ->
  fnth (amp_fraction va) i = fnan.
Proof. exact amp_fraction_nan. Qed.
Print Assumptions C05_amp_fraction_nan_keeps_nan.

(* period consistency, table level: one value per cycle, first and last NaN, interior =
   period_cons_at *)
Theorem C05_period_consistency_table : forall d periods l,
  period_consistency d periods = Ok l ->
  length l = length periods /\
  (forall c, c < length periods ->
     nth c l 0%float = if Nat.eqb c 0 || Nat.eqb c (length periods - 1) then fnan
                       else period_cons_at d periods c).
Proof. exact period_consistency_spec. Qed.
Print Assumptions C05_period_consistency_table.

Theorem C05_period_consistency_interior : forall d periods l c,
  period_consistency d periods = Ok l -> 1 <= c -> c + 1 < length periods ->
  nth c l 0%float = period_cons_at d periods c.
Proof. exact period_consistency_interior. Qed.
Print Assumptions C05_period_consistency_interior.

(* the ratio of two periods is min/max, and does not depend on the order of the two periods *)
Theorem C05_period_ratio_is_min_over_max : forall a b,
  zratio a b = (FloatBase.Z2F (Z.min a b) / FloatBase.Z2F (Z.max a b))%float.
Proof. exact zratio_def. Qed.
Print Assumptions C05_period_ratio_is_min_over_max.

Theorem C05_period_ratio_symmetric : forall a b, zratio a b = zratio b a.
Proof. exact zratio_sym. Qed.
Print Assumptions C05_period_ratio_symmetric.

(* interior cycle c: the ratio of its period with the next period (direction next), with the
   previous period (last), or the smaller of the two (both) *)
Theorem C05_period_consistency_is_the_smaller_of_two_ratios : forall d periods c,
  period_cons_at d periods c =
  match d with
  | Both => fmin2 (zratio (nth c periods 0%Z) (nth (c + 1) periods 0%Z))
                  (zratio (nth c periods 0%Z) (nth (c - 1) periods 0%Z))
  | Next => zratio (nth c periods 0%Z) (nth (c + 1) periods 0%Z)
  | Last => zratio (nth c periods 0%Z) (nth (c - 1) periods 0%Z)
  end.
Proof. exact period_cons_at_def. Qed.
Print Assumptions C05_period_consistency_is_the_smaller_of_two_ratios.

(* fmin2 really is the smaller one, for all non-NaN doubles (infinities and signed zeros included) *)
Theorem C05_smaller_of_two : forall a b, isnan a = false -> isnan b = false ->
  (fmin2 a b = a \/ fmin2 a b = b) /\
  (fmin2 a b <=? a)%float = true /\ (fmin2 a b <=? b)%float = true.
Proof. exact fmin2_smaller. Qed.
Print Assumptions C05_smaller_of_two.

(* monotonicity, centring-free: mean of (fraction of strict steps in the direction of the flank
   before the centre extremum) and (the same for the flank after it, opposite direction); the
   flank before the centre rises for a peak-centred row and decays for a trough-centred one *)
Theorem C05_monotonicity_is_mean_of_flank_fractions : forall peak sig r,
  monotonicity_row peak sig r =
  ((frac_true (steps peak (zslice sig (s_last r) (s_center r + 1))) +
    frac_true (steps (negb peak) (zslice sig (s_center r) (s_next r + 1)))) / 2)%float.
Proof. exact monotonicity_row_flanks. Qed.
Print Assumptions C05_monotonicity_is_mean_of_flank_fractions.

Theorem C05_fraction_is_count_over_length : forall l,
  frac_true l = (FloatBase.Z2F (Z.of_nat (count_true l)) / FloatBase.Z2F (Z.of_nat (length l)))%float.
Proof. exact frac_true_def. Qed.
Print Assumptions C05_fraction_is_count_over_length.

(* the flank slices are INCLUSIVE: a flank from extremum a to extremum b has b - a steps, step k
   compares samples a+k and a+k+1 of the signal *)
Theorem C05_flank_slices_are_inclusive : forall up (sig : list PrimFloat.float) (a b : Z),
  (0 <= a)%Z -> (a <= b)%Z -> (b < Z.of_nat (length sig))%Z ->
  length (steps up (zslice sig a (b + 1))) = Z.to_nat (b - a) /\
  forall k, k < Z.to_nat (b - a) ->
    nth k (steps up (zslice sig a (b + 1))) false =
    if up then (nth (Z.to_nat a + k) sig 0 <? nth (Z.to_nat a + S k) sig 0)%float
    else (nth (Z.to_nat a + S k) sig 0 <? nth (Z.to_nat a + k) sig 0)%float.
Proof. exact flank_steps. Qed.
Print Assumptions C05_flank_slices_are_inclusive.
