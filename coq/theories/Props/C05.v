(* C05 — theorems are added below as the proofs are completed; see DESIGN.md *)
From Coq Require Import List Arith Bool ZArith Floats.PrimFloat.
Import ListNotations.
From ByC Require Import Base.Result Model.Cycles Model.BurstFeat.

Theorem C05_placeholder_empty_table_rejected : forall f, ends_nan 0 f = Err EIndex.
Proof. reflexivity. Qed.
Print Assumptions C05_placeholder_empty_table_rejected.
