(* C13 — epoched (axis=None) analysis partitions the flattened analysis.
   Model: Model/Epoch.v.  Rows carry six sample indices, labelling features, a label and an opaque
   payload (all other feature columns).  Structural; no logical axioms. *)
From Coq Require Import List Arith Bool ZArith Sorted Permutation Floats.PrimFloat.
Import ListNotations.
From ByC Require Import Base.Result Model.Labels Model.Cycles Model.Epoch Proofs.Epoch.

(* one table per epoch: ceil(sig_len / L) of them *)
Theorem C13_epoch_count : forall (X : Type) (rows : list (@prow X)) sig_len L,
  length (epoch_df rows sig_len L) = n_epochs sig_len L.
Proof. exact @epoch_df_length. Qed.
Print Assumptions C13_epoch_count.

Theorem C13_epoch_count_is_ceiling : forall sig_len L, (0 < L)%Z -> (0 < sig_len)%Z ->
  ((Z.of_nat (n_epochs sig_len L) - 1) * L < sig_len <= Z.of_nat (n_epochs sig_len L) * L)%Z.
Proof. exact n_epochs_spec. Qed.
Print Assumptions C13_epoch_count_is_ceiling.

(* a cycle belongs to the epoch containing its closing side extremum c: epoch ceil(c/L) - 1
   (so c exactly on a boundary belongs to the EARLIER epoch), and to no other *)
Theorem C13_epoch_of_a_cycle : forall (X : Type) L k (r : @prow X), (0 < L)%Z -> (0 < s_next (p_s r))%Z ->
  (in_epoch L k r = true <-> Z.of_nat k = ((s_next (p_s r) + L - 1) / L - 1)%Z).
Proof. exact @in_epoch_index. Qed.
Print Assumptions C13_epoch_of_a_cycle.

Theorem C13_exactly_one_epoch : forall (X : Type) L k k' (r : @prow X), (0 < L)%Z ->
  in_epoch L k r = true -> in_epoch L k' r = true -> k = k'.
Proof. exact @in_epoch_unique. Qed.
Print Assumptions C13_exactly_one_epoch.

(* epoch k = the rows assigned to it, in the original order, shifted by the epoch start *)
Theorem C13_epoch_contents : forall (X : Type) (rows : list (@prow X)) sig_len L k, k < n_epochs sig_len L ->
  nth k (epoch_df rows sig_len L) [] = map (shift_row (Z.of_nat k * L)) (filter (in_epoch L k) rows).
Proof. exact @epoch_df_nth. Qed.
Print Assumptions C13_epoch_contents.

(* shifting leaves every feature, the label and the payload unchanged, and moves all six sample
   indices by the same amount *)
Theorem C13_shift_keeps_features : forall (X : Type) d (r : @prow X),
  p_feat (shift_row d r) = p_feat r /\ p_bf (shift_row d r) = p_bf r /\
  p_lab (shift_row d r) = p_lab r /\ p_x (shift_row d r) = p_x r.
Proof. exact @shift_row_feats. Qed.
Print Assumptions C13_shift_keeps_features.

(* "sample indices shifted to be relative to the epoch start": the sample part of a shifted row is
   the shifted sample part, and shifting moves ALL SIX sample indices by the same amount d
   (d = k * L for epoch k, by C13_epoch_contents) *)
Theorem C13_shifted_row_indices : forall (X : Type) d (r : @prow X),
  p_s (shift_row d r) = shift_srow d (p_s r).
Proof. exact @shift_row_s. Qed.
Print Assumptions C13_shifted_row_indices.

Theorem C13_shift_moves_all_six_indices : forall d (s : srow),
  s_center (shift_srow d s) = (s_center s - d)%Z /\ s_last (shift_srow d s) = (s_last s - d)%Z /\
  s_next (shift_srow d s) = (s_next s - d)%Z /\ s_zx_rise (shift_srow d s) = (s_zx_rise s - d)%Z /\
  s_zx_decay (shift_srow d s) = (s_zx_decay s - d)%Z /\ s_last_zx (shift_srow d s) = (s_last_zx s - d)%Z.
Proof. exact shift_srow_fields. Qed.
Print Assumptions C13_shift_moves_all_six_indices.

(* hence every difference of sample indices (period, rise and decay times, ...) is unchanged *)
Theorem C13_shift_keeps_index_differences : forall d (s : srow),
  (s_next (shift_srow d s) - s_last (shift_srow d s) = s_next s - s_last s)%Z /\
  (s_next (shift_srow d s) - s_center (shift_srow d s) = s_next s - s_center s)%Z /\
  (s_center (shift_srow d s) - s_last (shift_srow d s) = s_center s - s_last s)%Z /\
  (s_zx_decay (shift_srow d s) - s_zx_rise (shift_srow d s) = s_zx_decay s - s_zx_rise s)%Z /\
  (s_zx_rise (shift_srow d s) - s_last_zx (shift_srow d s) = s_zx_rise s - s_last_zx s)%Z.
Proof. exact shift_srow_diffs. Qed.
Print Assumptions C13_shift_keeps_index_differences.

(* relative to the epoch start the closing index of every row of an epoch lies in (0, L] *)
Theorem C13_closing_index_relative_to_epoch_start : forall (X : Type) (rows : list (@prow X)) sig_len L k r',
  k < n_epochs sig_len L -> In r' (nth k (epoch_df rows sig_len L) []) -> (0 < s_next (p_s r') <= L)%Z.
Proof. exact @epoch_df_local_range. Qed.
Print Assumptions C13_closing_index_relative_to_epoch_start.

(* no loss, no duplication, order preserved: un-shifting and concatenating the epochs gives back
   the flattened table (closing indices increasing, as C01 establishes) *)
Theorem C13_partition : forall (X : Type) (rows : list (@prow X)) sig_len L, (0 < L)%Z ->
  StronglySorted (fun a b => (s_next (p_s a) < s_next (p_s b))%Z) rows ->
  (forall r, In r rows -> (0 < s_next (p_s r) <= Z.of_nat (n_epochs sig_len L) * L)%Z) ->
  unshift_all L (epoch_df rows sig_len L) = rows.
Proof. exact @epoch_df_partition. Qed.
Print Assumptions C13_partition.

(* single option set: the epochs are exactly the epoched flattened table — labels untouched *)
Theorem C13_single_option_set_keeps_flattened_labels : forall (X : Type) (flat : list (@prow X)) n_rows row_len,
  group2d_axis_none flat n_rows row_len None = Ok (epoch_df flat (Z.of_nat n_rows * row_len) row_len).
Proof. exact @axis_none_single. Qed.
Print Assumptions C13_single_option_set_keeps_flattened_labels.

(* per-epoch list: epoch k is re-labelled with its own option set, independently of the others *)
Theorem C13_per_epoch_options : forall (X : Type) (flat : list (@prow X)) n_rows row_len opts out,
  group2d_axis_none flat n_rows row_len (Some opts) = Ok out ->
  length opts = n_epochs (Z.of_nat n_rows * row_len) row_len ->
  length out = length opts /\
  forall k, k < length out ->
    relabel (nth k opts dflt_opt) (nth k (epoch_df flat (Z.of_nat n_rows * row_len) row_len) []) = Ok (nth k out []).
Proof. exact @axis_none_list. Qed.
Print Assumptions C13_per_epoch_options.

(* what "re-labelled with its own thresholds" means: the epoch's rows keep indices, features and
   payload; the new label column is the consistency rule (C06: labels_cycles) resp. the amplitude
   rule (C07: labels_amp) applied to the rows OF THAT EPOCH ALONE with the epoch's thresholds *)
Theorem C13_relabel_cycles_meaning : forall (X : Type) t n (rows out : list (@prow X)) d,
  relabel (RCycles t n) rows = Ok out ->
  exists lab, labels_cycles t n (map p_feat rows) = Ok lab /\ length out = length rows /\
  forall i, i < length rows ->
    p_s (nth i out d) = p_s (nth i rows d) /\ p_feat (nth i out d) = p_feat (nth i rows d) /\
    p_bf (nth i out d) = p_bf (nth i rows d) /\ p_x (nth i out d) = p_x (nth i rows d) /\
    p_lab (nth i out d) = nth i lab false.
Proof. exact @relabel_spec_cycles. Qed.
Print Assumptions C13_relabel_cycles_meaning.

Theorem C13_relabel_amp_meaning : forall (X : Type) t n (rows out : list (@prow X)) d,
  relabel (RAmp t n) rows = Ok out ->
  exists lab, labels_amp t n (map p_bf rows) = Ok lab /\ length out = length rows /\
  forall i, i < length rows ->
    p_s (nth i out d) = p_s (nth i rows d) /\ p_feat (nth i out d) = p_feat (nth i rows d) /\
    p_bf (nth i out d) = p_bf (nth i rows d) /\ p_x (nth i out d) = p_x (nth i rows d) /\
    p_lab (nth i out d) = nth i lab false.
Proof. exact @relabel_spec_amp. Qed.
Print Assumptions C13_relabel_amp_meaning.

(* consequence of the consistency rule: the first and the last cycle of every re-labelled epoch
   are never part of a burst (this is how per-epoch labels differ from the flattened ones) *)
Theorem C13_relabel_cycles_clears_epoch_ends : forall (X : Type) t n (rows out : list (@prow X)) d,
  relabel (RCycles t n) rows = Ok out -> rows <> [] ->
  p_lab (nth 0 out d) = false /\ p_lab (nth (length rows - 1) out d) = false.
Proof. exact @relabel_cycles_ends. Qed.
Print Assumptions C13_relabel_cycles_clears_epoch_ends.

(* per-epoch list: every epoch keeps its rows (indices, features, payload); only labels change *)
Theorem C13_per_epoch_options_keep_rows : forall (X : Type) (flat : list (@prow X)) n_rows row_len opts out k d,
  group2d_axis_none flat n_rows row_len (Some opts) = Ok out ->
  length opts = n_epochs (Z.of_nat n_rows * row_len) row_len -> k < length out ->
  let ep := nth k (epoch_df flat (Z.of_nat n_rows * row_len) row_len) [] in
  length (nth k out []) = length ep /\
  forall i, i < length ep ->
    p_s (nth i (nth k out []) d) = p_s (nth i ep d) /\
    p_feat (nth i (nth k out []) d) = p_feat (nth i ep d) /\
    p_bf (nth i (nth k out []) d) = p_bf (nth i ep d) /\
    p_x (nth i (nth k out []) d) = p_x (nth i ep d).
Proof. exact @axis_none_list_rows. Qed.
Print Assumptions C13_per_epoch_options_keep_rows.

(* Legacy: re-labelling epoch 0 on its own with a single option set (pre-repair) changes labels *)
Theorem C13_legacy_relabel_refuted :
  group2d_axis_none_legacy legacy_flat 2 10 legacy_opt <> group2d_axis_none legacy_flat 2 10 None.
Proof. exact axis_none_legacy_refuted. Qed.
Print Assumptions C13_legacy_relabel_refuted.
