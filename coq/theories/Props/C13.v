(* C13 — theorems are added below as the proofs are completed; see DESIGN.md *)
From Coq Require Import List Arith Bool ZArith.
Import ListNotations.
From ByC Require Import Base.Result Model.Epoch.

Theorem C13_placeholder_epoch_count : forall (X : Type) (rows : list (@prow X)) sig_len L,
  length (epoch_df rows sig_len L) = n_epochs sig_len L.
Proof. intros. unfold epoch_df. now rewrite map_length, seq_length. Qed.
Print Assumptions C13_placeholder_epoch_count.
