(* C09 — peak- and trough-centred analyses are mirror images.
   Model: Model/Features.v.  Both analyses run on the same negated sample list with the same
   kernel outputs k (the harness computes them on the negated signal in both cases; for the
   amplitude method the detector mask is the same because the envelope of -x is that of x —
   evaluated by the harness on every generated signal with the reference kernels and counted in the
   evidence as mirror_premise_checked / mirror_premise_failed; a premise-failed case is kept out of
   the model comparison).  The equality below is exact: indices, every shape column
   (after the documented swap / negation / 1 - x), all burst features, all labels, and errors. *)
From Coq Require Import List Arith Bool ZArith Floats.PrimFloat.
Import ListNotations.
From ByC Require Import Base.Result Model.Cycles Model.Features Proofs.FeaturesSpec Proofs.Mirror.

Theorem C09_trough_analysis_is_mirrored_peak_analysis_of_negated_signal : forall raw k b m,
  compute_features Trough raw k b m =
  rmap (map mirror_frow) (compute_features Peak (map PrimFloat.opp raw) k b m).
Proof. exact compute_features_mirror. Qed.
Print Assumptions C09_trough_analysis_is_mirrored_peak_analysis_of_negated_signal.

(* the mirror of a row: names swapped, extremum voltages negated, symmetry fractions 1 - x,
   burst features and label untouched *)
Theorem C09_mirror_row_definition : forall r,
  mirror_frow r = {| r_s := rename_srow (r_s r); r_shape := rename_shape (r_shape r);
                     r_burst := r_burst r; r_is_burst := r_is_burst r |}.
Proof. reflexivity. Qed.
Print Assumptions C09_mirror_row_definition.

Theorem C09_same_number_of_cycles : forall raw k b m outT outP,
  compute_features Trough raw k b m = Ok outT ->
  compute_features Peak (map PrimFloat.opp raw) k b m = Ok outP -> length outT = length outP.
Proof. exact mirror_counts. Qed.
Print Assumptions C09_same_number_of_cycles.

Theorem C09_same_sample_indices : forall raw k b m outT outP,
  compute_features Trough raw k b m = Ok outT ->
  compute_features Peak (map PrimFloat.opp raw) k b m = Ok outP ->
  forall i, i < length outP ->
    let st := r_s (nth i outT frow0) in
    let sp := r_s (nth i outP frow0) in
    s_center st = s_center sp /\ s_last st = s_last sp /\ s_next st = s_next sp /\
    s_zx_rise st = s_zx_decay sp /\ s_zx_decay st = s_zx_rise sp /\ s_last_zx st = s_last_zx sp.
Proof. exact mirror_samples. Qed.
Print Assumptions C09_same_sample_indices.

Theorem C09_shape_columns_mirrored : forall raw k b m outT outP,
  compute_features Trough raw k b m = Ok outT ->
  compute_features Peak (map PrimFloat.opp raw) k b m = Ok outP ->
  forall i, i < length outP ->
    let ft := r_shape (nth i outT frow0) in
    let fp := r_shape (nth i outP frow0) in
    period ft = period fp /\
    time_peak ft = time_trough fp /\ time_trough ft = time_peak fp /\
    time_decay ft = time_rise fp /\ time_rise ft = time_decay fp /\
    volt_peak ft = (- volt_trough fp)%float /\ volt_trough ft = (- volt_peak fp)%float /\
    volt_decay ft = volt_rise fp /\ volt_rise ft = volt_decay fp /\
    volt_amp ft = volt_amp fp /\
    time_rdsym ft = (1 - time_rdsym fp)%float /\ time_ptsym ft = (1 - time_ptsym fp)%float /\
    band_amp ft = band_amp fp.
Proof. exact mirror_shape. Qed.
Print Assumptions C09_shape_columns_mirrored.

Theorem C09_identical_burst_features : forall raw k b m outT outP,
  compute_features Trough raw k b m = Ok outT ->
  compute_features Peak (map PrimFloat.opp raw) k b m = Ok outP ->
  map r_burst outT = map r_burst outP.
Proof. exact mirror_burst_cols. Qed.
Print Assumptions C09_identical_burst_features.

Theorem C09_identical_labels : forall raw k b m outT outP,
  compute_features Trough raw k b m = Ok outT ->
  compute_features Peak (map PrimFloat.opp raw) k b m = Ok outP ->
  map r_is_burst outT = map r_is_burst outP.
Proof. exact mirror_labels_col. Qed.
Print Assumptions C09_identical_labels.

(* one side fails iff the other does, with the same error *)
Theorem C09_errors_mirrored : forall raw k b m e,
  compute_features Trough raw k b m = Err e <-> compute_features Peak (map PrimFloat.opp raw) k b m = Err e.
Proof. exact mirror_err. Qed.
Print Assumptions C09_errors_mirrored.
