(* C04 — shape features equal their documented definitions.
   Model: Model/Cycles.v (shape_of in the peak frame; rename_shape for trough centring, which the
   code obtains by analysing the NEGATED signal).  row_ordered is what C01 establishes for every
   row; row_small bounds the sample indices by 2^52 so that int64 -> float64 conversion is exact.
   Structural statements have no axioms; the range statements are about binary64 and go
   through Flocq (stdlib float axioms + the classical-reals axioms, see Print Assumptions). *)
From Coq Require Import List Arith Bool ZArith Floats.PrimFloat.
Import ListNotations.
From ByC Require Import Base.Result Base.ListAux Base.FloatBase Base.FloatFacts Model.Cycles Proofs.Shape.

(* period = next side - last side = time_rise + time_decay, in both centrings *)
Theorem C04_period : forall sigc amp r,
  period (shape_of sigc amp r) = (s_next r - s_last r)%Z /\
  period (shape_of sigc amp r) = (time_rise (shape_of sigc amp r) + time_decay (shape_of sigc amp r))%Z.
Proof. exact shape_period. Qed.
Print Assumptions C04_period.

Theorem C04_period_trough_centred : forall sigc amp r,
  period (rename_shape (shape_of sigc amp r)) = (s_next r - s_last r)%Z /\
  period (rename_shape (shape_of sigc amp r)) =
    (time_rise (rename_shape (shape_of sigc amp r)) + time_decay (rename_shape (shape_of sigc amp r)))%Z.
Proof. exact shape_period_renamed. Qed.
Print Assumptions C04_period_trough_centred.

(* every peak-frame column is its documented formula *)
Theorem C04_formulas : forall sigc amp r, let f := shape_of sigc amp r in
  period f = (s_next r - s_last r)%Z /\
  time_peak f = (s_zx_decay r - s_zx_rise r)%Z /\
  time_trough f = (s_zx_rise r - s_last_zx r)%Z /\
  time_decay f = (s_next r - s_center r)%Z /\
  time_rise f = (s_center r - s_last r)%Z /\
  volt_peak f = at_ sigc (s_center r) /\
  volt_trough f = at_ sigc (s_last r) /\
  volt_decay f = (at_ sigc (s_center r) - at_ sigc (s_next r))%float /\
  volt_rise f = (at_ sigc (s_center r) - at_ sigc (s_last r))%float /\
  volt_amp f = ((volt_decay f + volt_rise f) / 2)%float /\
  time_rdsym f = (FloatBase.Z2F (time_rise f) / FloatBase.Z2F (period f))%float /\
  time_ptsym f = (FloatBase.Z2F (time_peak f) / FloatBase.Z2F (time_peak f + time_trough f))%float /\
  band_amp f = fmean (zslice amp (s_last r) (s_next r)).
Proof. exact shape_formulas. Qed.
Print Assumptions C04_formulas.

(* spans between midpoints are non-negative and rise/decay strictly inside the period *)
Theorem C04_durations : forall sigc amp r, row_ordered r -> let f := shape_of sigc amp r in
  (0 <= time_peak f)%Z /\ (0 <= time_trough f)%Z /\
  (time_peak f + time_trough f = s_zx_decay r - s_last_zx r)%Z /\
  (0 < time_peak f + time_trough f)%Z /\
  (0 < time_rise f < period f)%Z /\ (0 < time_decay f < period f)%Z.
Proof. exact shape_times_nonneg. Qed.
Print Assumptions C04_durations.

(* binary64: time_rdsym strictly in (0,1), time_ptsym in [0,1] — peak-centred *)
Theorem C04_symmetry_ranges_peak : forall sigc amp r, row_ordered r -> row_small r ->
  let f := shape_of sigc amp r in
  (0 <? time_rdsym f)%float = true /\ (time_rdsym f <? 1)%float = true /\
  (0 <=? time_ptsym f)%float = true /\ (time_ptsym f <=? 1)%float = true.
Proof. exact shape_sym_range. Qed.
Print Assumptions C04_symmetry_ranges_peak.

(* ... and trough-centred, where the code computes 1 - x *)
Theorem C04_symmetry_ranges_trough : forall sigc amp r, row_ordered r -> row_small r ->
  let f := rename_shape (shape_of sigc amp r) in
  (0 <? time_rdsym f)%float = true /\ (time_rdsym f <? 1)%float = true /\
  (0 <=? time_ptsym f)%float = true /\ (time_ptsym f <=? 1)%float = true.
Proof. exact shape_sym_range_renamed. Qed.
Print Assumptions C04_symmetry_ranges_trough.

(* the trough-centred table, read against the ORIGINAL (un-negated) signal *)
Theorem C04_trough_table_against_original_signal : forall raw amp r,
  (0 <= s_last r < Z.of_nat (length raw))%Z ->
  (0 <= s_center r < Z.of_nat (length raw))%Z ->
  (0 <= s_next r < Z.of_nat (length raw))%Z ->
  let f := rename_shape (shape_of (map PrimFloat.opp raw) amp r) in
  let vl := at_ raw (s_last r) in
  let vc := at_ raw (s_center r) in
  let vn := at_ raw (s_next r) in
  volt_trough f = vc /\ volt_peak f = vl /\
  time_rise f = (s_next r - s_center r)%Z /\ time_decay f = (s_center r - s_last r)%Z /\
  time_trough f = (s_zx_decay r - s_zx_rise r)%Z /\
  time_peak f = (s_zx_rise r - s_last_zx r)%Z /\
  period f = (s_next r - s_last r)%Z /\
  volt_decay f = (PrimFloat.opp vc - PrimFloat.opp vl)%float /\
  volt_rise f = (PrimFloat.opp vc - PrimFloat.opp vn)%float /\
  (finite vc = true -> finite vl = true -> finite (vl - vc)%float = true ->
   FR (volt_decay f) = FR (vl - vc)%float /\ finite (volt_decay f) = true) /\
  (finite vc = true -> finite vn = true -> finite (vn - vc)%float = true ->
   FR (volt_rise f) = FR (vn - vc)%float /\ finite (volt_rise f) = true).
Proof. exact trough_shape_against_original. Qed.
Print Assumptions C04_trough_table_against_original_signal.

(* non-vacuity: a concrete row meets the hypotheses *)
Theorem C04_hypotheses_satisfiable : row_ordered ex_row /\ row_small ex_row.
Proof. exact ex_row_ok. Qed.
Print Assumptions C04_hypotheses_satisfiable.
