(* C04 — theorems are added below as the proofs are completed; see DESIGN.md *)
From Coq Require Import List Arith Bool ZArith Floats.PrimFloat.
Import ListNotations.
From ByC Require Import Base.Result Model.Cycles Model.Labels.

Theorem C04_placeholder_period_is_next_minus_last : forall sigc amp r,
  period (shape_of sigc amp r) = (s_next r - s_last r)%Z.
Proof. reflexivity. Qed.
Print Assumptions C04_placeholder_period_is_next_minus_last.
