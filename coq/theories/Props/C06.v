(* C06 — consistency burst labels follow the threshold-and-run rule.
   Model: Model/Labels.v (labels_cycles) over binary64 features and thresholds. *)
From Coq Require Import List Arith Bool ZArith Floats.PrimFloat.
Import ListNotations.
From ByC Require Import Base.Result Base.FloatFacts Model.Runs Model.Labels Model.Cycles Model.Features Proofs.Labels Proofs.LabelsOrder Proofs.FeaturesSpec
  Model.TableRuns Proofs.TableRuns.

(* a cycle is labelled exactly when it lies in a stretch of >= n consecutive qualifying
   cycles that avoids the first and the last cycle of the table *)
Theorem C06_label_iff_interior_window : forall t n rows lab i, labels_cycles t n rows = Ok lab ->
  (nth i lab false = true <-> interior_window (map (qualifies t) rows) (Z.to_nat n) i).
Proof. exact labels_cycles_spec. Qed.
Print Assumptions C06_label_iff_interior_window.

Theorem C06_one_label_per_cycle : forall t n rows lab,
  labels_cycles t n rows = Ok lab -> length lab = length rows.
Proof. exact labels_cycles_length. Qed.
Print Assumptions C06_one_label_per_cycle.

Theorem C06_first_and_last_never_burst : forall t n rows lab, labels_cycles t n rows = Ok lab ->
  nth 0 lab false = false /\ nth (length rows - 1) lab false = false.
Proof. exact labels_cycles_ends. Qed.
Print Assumptions C06_first_and_last_never_burst.

Theorem C06_only_qualifying_cycles : forall t n rows lab i, labels_cycles t n rows = Ok lab ->
  nth i lab false = true -> nth i (map (qualifies t) rows) false = true.
Proof. exact labels_cycles_only_qualifying. Qed.
Print Assumptions C06_only_qualifying_cycles.

(* rejected exactly when a threshold is outside [0,1], or the table is non-empty and n < 0;
   an empty table gets an empty label column *)
Theorem C06_rejections : forall t n rows,
  (exists e, labels_cycles t n rows = Err e) <-> (thr_valid t = false \/ (rows <> [] /\ (n < 0)%Z)).
Proof. exact labels_cycles_err. Qed.
Print Assumptions C06_rejections.

Theorem C06_empty_table : forall t n, thr_valid t = true -> labels_cycles t n [] = Ok [].
Proof. exact labels_cycles_empty. Qed.
Print Assumptions C06_empty_table.

(* raising thresholds (in any way that only removes qualifying cycles) or n never adds a label *)
Theorem C06_monotone_given_order : forall t t' n n' rows lab lab',
  (forall r, qualifies t' r = true -> qualifies t r = true) -> (n <= n')%Z ->
  labels_cycles t n rows = Ok lab -> labels_cycles t' n' rows = Ok lab' ->
  forall i, nth i lab' false = true -> nth i lab false = true.
Proof. exact labels_cycles_mono_gen. Qed.
Print Assumptions C06_monotone_given_order.

(* binary64 instance: thresholds finite (they are validated to lie in [0,1]); feature values are
   arbitrary doubles, NaN and infinities included.  Depends on the stdlib float axioms and, through
   Flocq's use of Reals, on the classical-reals axioms (see Print Assumptions). *)
Theorem C06_raising_thresholds_or_n_only_removes_labels : forall t t' n n' rows lab lab',
  thr_finite t -> thr_finite t' -> thr_le t t' -> (n <= n')%Z ->
  labels_cycles t n rows = Ok lab -> labels_cycles t' n' rows = Ok lab' ->
  forall i, nth i lab' false = true -> nth i lab false = true.
Proof. exact labels_cycles_mono. Qed.
Print Assumptions C06_raising_thresholds_or_n_only_removes_labels.

(* in the table returned by compute_features(burst_method='cycles') the is_burst column is the rule
   applied to the table's OWN four feature columns with the thresholds the caller passed *)
Theorem C06_pipeline_labels_are_the_rule_on_the_table_columns : forall c raw k b t n out,
  compute_features c raw k b (Cycles t n) = Ok out ->
  labels_cycles t n (map feat_of_row out) = Ok (map r_is_burst out).
Proof. exact compute_features_cycles_self. Qed.
Print Assumptions C06_pipeline_labels_are_the_rule_on_the_table_columns.

Theorem C06_pipeline_label_iff_on_columns : forall c raw k b t n out i,
  compute_features c raw k b (Cycles t n) = Ok out ->
  (r_is_burst (nth i out frow0) = true <->
   interior_window (map (row_qualifies t) out) (Z.to_nat n) i).
Proof. exact compute_features_cycles_label_iff. Qed.
Print Assumptions C06_pipeline_label_iff_on_columns.

(* "on a fixed table": calling the detector again on the table RETURNED by compute_features (it
   carries an is_burst column by then) with thresholds and min_n_cycles not lower than before only
   removes labels of that table *)
Theorem C06_rethresholding_the_returned_table_only_removes_labels : forall c raw k b t n t' n' out lab',
  thr_finite t -> thr_finite t' -> thr_le t t' -> (n <= n')%Z ->
  compute_features c raw k b (Cycles t n) = Ok out ->
  labels_cycles t' n' (map feat_of_row out) = Ok lab' ->
  length lab' = length out /\
  forall i, nth i lab' false = true -> r_is_burst (nth i out frow0) = true.
Proof. exact relabel_returned_table. Qed.
Print Assumptions C06_rethresholding_the_returned_table_only_removes_labels.

(* the two-call correspondence entry point (Model/TableRuns.v) inherits the monotonicity *)
Theorem C06_second_call_with_raised_settings_only_removes_labels : forall t n t' n' rows lab lab',
  thr_finite (mk_thr t) -> thr_finite (mk_thr t') -> thr_le (mk_thr t) (mk_thr t') -> (n <= n')%Z ->
  run_labels_cycles2 (t, n, (t', n'), rows) = (Ok lab, Some (Ok lab')) ->
  forall i, nth i lab' false = true -> nth i lab false = true.
Proof. exact two_calls_cycles_mono. Qed.
Print Assumptions C06_second_call_with_raised_settings_only_removes_labels.
