(* C08 — minimum-run filter removes exactly the short bursts.
   Statements only; every proof is `exact <lemma>`.  All structural, no axioms. *)
From Coq Require Import List Arith Bool ZArith.
Import ListNotations.
From ByC Require Import Base.Result Model.Runs Proofs.Runs Proofs.RunsCode Model.TableRuns Proofs.TableRuns.

Theorem C08_same_length : forall n l, length (minrun n l) = length l.
Proof. exact minrun_length. Qed.
Print Assumptions C08_same_length.

(* a cycle stays True exactly when it lies in an all-True window of >= n cycles *)
Theorem C08_window : forall n l i, nth i (minrun n l) false = true <-> window l n i.
Proof. exact minrun_spec. Qed.
Print Assumptions C08_window.

(* maximal runs are kept entirely or cleared entirely; the rest is unaffected *)
Theorem C08_maximal_run : forall n pre k post, ends_clean pre -> starts_clean post ->
  minrun n (pre ++ repeat true k ++ post) = minrun n pre ++ repeat (n <=? k) k ++ minrun n post.
Proof. exact minrun_maximal_run. Qed.
Print Assumptions C08_maximal_run.

Theorem C08_no_false_becomes_true : forall n l i,
  nth i (minrun n l) false = true -> nth i l false = true.
Proof. exact minrun_le. Qed.
Print Assumptions C08_no_false_becomes_true.

Theorem C08_idempotent : forall n l, minrun n (minrun n l) = minrun n l.
Proof. exact minrun_idem. Qed.
Print Assumptions C08_idempotent.

Theorem C08_edges_like_interior : forall n l,
  minrun n (false :: l ++ [false]) = false :: minrun n l ++ [false].
Proof. exact minrun_edge_neutral. Qed.
Print Assumptions C08_edges_like_interior.

Theorem C08_mirror : forall n l, minrun n (rev l) = rev (minrun n l).
Proof. exact minrun_rev. Qed.
Print Assumptions C08_mirror.

Theorem C08_min_0_or_1_is_identity : forall n l, n <= 1 -> minrun n l = l.
Proof. exact minrun_small. Qed.
Print Assumptions C08_min_0_or_1_is_identity.

Theorem C08_longer_than_array_clears_all : forall n l i,
  length l < n -> nth i (minrun n l) false = false.
Proof. exact minrun_large. Qed.
Print Assumptions C08_longer_than_array_clears_all.

(* raising n or clearing inputs only removes labels (used by C06, C07, C16) *)
Theorem C08_monotone : forall n n' l l', n <= n' ->
  (forall i, nth i l false = true -> nth i l' false = true) -> length l <= length l' ->
  forall i, nth i (minrun n' l) false = true -> nth i (minrun n l') false = true.
Proof. exact minrun_mono. Qed.
Print Assumptions C08_monotone.

(* the code-shaped model (padded difference -> transition indices -> (on, off) pairs by parity ->
   clearing of the short slices, burst/utils.py:44-57) IS the one-pass filter, for every input *)
Theorem C08_code_shaped_model_equals_one_pass_filter : forall n l, minrun_code n l = minrun n l.
Proof. exact minrun_code_eq. Qed.
Print Assumptions C08_code_shaped_model_equals_one_pass_filter.

(* the (on, off) pairs are exactly the maximal runs of True *)
Theorem C08_pairs_are_the_maximal_runs : forall l a b,
  In (a, b) (pairs (flatnonzero 0 (diff_pad false l))) <-> maximal_run l a b.
Proof. exact pairs_maximal_runs. Qed.
Print Assumptions C08_pairs_are_the_maximal_runs.

(* the correspondence entry point (Model/TableRuns.v: numpy-array check, early return on an empty
   array, range check of min_n_cycles) is the run filter on the property's domain *)
Theorem C08_entry_point_is_the_filter : forall l n, (0 <= n)%Z ->
  check_min_burst_cycles NdArray l n = Ok (minrun (Z.to_nat n) l).
Proof. exact check_min_valid. Qed.
Print Assumptions C08_entry_point_is_the_filter.

(* outside the domain (pinned by the model only): rejected exactly when the argument is not an
   array, or the array is non-empty and min_n_cycles is negative *)
Theorem C08_entry_point_rejections : forall k l n,
  (exists e, check_min_burst_cycles k l n = Err e) <-> (k = PyList \/ (l <> [] /\ (n < 0)%Z)).
Proof. exact check_min_err. Qed.
Print Assumptions C08_entry_point_rejections.

Theorem C08_entry_point_code_shaped_equal : forall k l n,
  check_min_burst_cycles_code k l n = check_min_burst_cycles k l n.
Proof. exact check_min_code_eq. Qed.
Print Assumptions C08_entry_point_code_shaped_equal.
