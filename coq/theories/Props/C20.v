(* C20 — plots draw the analysis they are given.
   Model: Model/Plots.v.  A view is (s0, n): first sample shown, number of samples shown.  The
   statements below take the offset the code subtracts to be s0; that the repaired offset
   (nearest sample index to t0*fs) IS s0 for on-grid x-limits is shown on a finite grid of sampling
   rates by a vm_compute sweep (stated bound: fs in the list, k < 2000) and checked against the
   real plots on every run; the truncating offset used before the repair is refuted.
   Which cycles are in the window-limited table is Model/Window.v keep_row (C18, as repaired: time stamps sample / fs
   against the limits); for x-limits that are time stamps of the plotted time axis the highlight / panel statements are
   given against the WHOLE table (`..._on_grid`), and the pre-repair selection is refuted on the window [7, 18) at fs = 100.
   Threshold lines: looked up by parameter name, independent of the order of the dictionary.
   Rendering itself (matplotlib) is trusted.  Structural theorems have no axioms. *)
From Coq Require Import List Arith Bool ZArith Sorted Reals Permutation Floats.PrimFloat.
From Coq Require Strings.String.
Import Strings.String.StringSyntax.
Import ListNotations.
From ByC Require Import Base.Result Base.FloatBase Base.FloatFacts Model.Cycles Model.Window Model.Plots Proofs.Plots.

(* every drawn marker sits, in the view, at the sample of a genuine cyclepoint of its series *)
Theorem C20_markers_are_genuine_cyclepoints : forall s0 n pts q,
  In q (markers s0 n s0 pts) -> (0 <= q < Z.of_nat n - 1)%Z /\ In (s0 + q)%Z pts.
Proof. exact markers_sound. Qed.
Print Assumptions C20_markers_are_genuine_cyclepoints.

(* every cyclepoint strictly inside the view is drawn *)
Theorem C20_every_cyclepoint_in_view_is_drawn : forall s0 n pts p,
  In p pts -> (s0 < p < s0 + Z.of_nat n - 1)%Z -> In (p - s0)%Z (markers s0 n s0 pts).
Proof. exact markers_complete. Qed.
Print Assumptions C20_every_cyclepoint_in_view_is_drawn.

Theorem C20_markers_exact : forall s0 n off pts q, In q (markers s0 n off pts) <->
  exists p, In p pts /\ (s0 <= p < s0 + Z.of_nat n - 1)%Z /\ q = (p - off)%Z.
Proof. exact markers_In. Qed.
Print Assumptions C20_markers_exact.

(* burst summary: highlighted samples belong to cycles labelled is_burst ... *)
Theorem C20_highlight_only_burst_cycles : forall s0 n rows i,
  nth i (burst_mask n s0 rows) false = true ->
  exists r, In (r, true) rows /\ (s_last r <= s0 + Z.of_nat i <= s_next r)%Z.
Proof. exact burst_mask_sound. Qed.
Print Assumptions C20_highlight_only_burst_cycles.

(* ... and all samples of every labelled cycle lying entirely inside the view are highlighted *)
Theorem C20_highlight_every_burst_cycle_in_view : forall s0 n rows r j,
  In (r, true) rows -> (s0 <= s_last r)%Z -> (s_next r <= s0 + Z.of_nat n - 1)%Z ->
  (s_last r <= j <= s_next r)%Z -> nth (Z.to_nat (j - s0)) (burst_mask n s0 rows) false = true.
Proof. exact burst_mask_complete. Qed.
Print Assumptions C20_highlight_every_burst_cycle_in_view.

Theorem C20_mask_has_one_entry_per_sample : forall n off rows, length (burst_mask n off rows) = n.
Proof. exact burst_mask_length. Qed.
Print Assumptions C20_mask_has_one_entry_per_sample.

(* parameter panels: one point per cycle, at its centre, carrying the table value unchanged *)
Theorem C20_panel_points : forall (V : Type) off (rows : list (srow * V)) k d d', k < length rows ->
  nth k (panel_points off rows) d' = ((s_center (fst (nth k rows d)) - off)%Z, snd (nth k rows d)).
Proof. exact @panel_points_spec. Qed.
Print Assumptions C20_panel_points.

(* the panel as drawn under x-limits keeps the cycles whose side extrema lie in the view (s0 = first sample,
   n samples).  interp=True: a point for every cycle lying entirely inside the view, at its centre, with its
   value — and nothing else *)
Theorem C20_panel_shows_every_cycle_in_view : forall (V : Type) s0 n (rows : list (srow * V)) r v,
  In (r, v) rows -> (s0 <= s_last r)%Z -> (s_next r <= s0 + Z.of_nat n - 1)%Z ->
  In ((s_center r - s0)%Z, v) (panel_interp n s0 rows).
Proof. exact @panel_interp_complete. Qed.
Print Assumptions C20_panel_shows_every_cycle_in_view.

Theorem C20_panel_points_are_cycle_centres : forall (V : Type) s0 n (rows : list (srow * V)) q v,
  In (q, v) (panel_interp n s0 rows) ->
  exists r, In (r, v) rows /\ q = (s_center r - s0)%Z /\ (s0 <= s_last r)%Z /\ (s_next r <= s0 + Z.of_nat n - 1)%Z.
Proof. exact @panel_interp_sound. Qed.
Print Assumptions C20_panel_points_are_cycle_centres.

(* interp=False (steps): the value of every cycle lying entirely inside the view is drawn from its last to its
   next side extremum — and nothing else *)
Theorem C20_panel_steps_span_every_cycle_in_view : forall (V : Type) s0 n (rows : list (srow * V)) r v,
  In (r, v) rows -> (s0 <= s_last r)%Z -> (s_next r <= s0 + Z.of_nat n - 1)%Z ->
  In ((s_last r - s0)%Z, v) (panel_steps n s0 rows) /\ In ((s_next r - s0)%Z, v) (panel_steps n s0 rows).
Proof. exact @panel_steps_complete. Qed.
Print Assumptions C20_panel_steps_span_every_cycle_in_view.

Theorem C20_panel_steps_are_cycle_sides : forall (V : Type) s0 n (rows : list (srow * V)) q v,
  In (q, v) (panel_steps n s0 rows) ->
  exists r, In (r, v) rows /\ (q = (s_last r - s0)%Z \/ q = (s_next r - s0)%Z) /\
            (s0 <= s_last r)%Z /\ (s_next r <= s0 + Z.of_nat n - 1)%Z.
Proof. exact @panel_steps_sound. Qed.
Print Assumptions C20_panel_steps_are_cycle_sides.

(* with no x-limits (every cycle inside the recording) no cycle is left out of a panel *)
Theorem C20_panel_without_limits_is_the_whole_table : forall (V : Type) n off (rows : list (srow * V)),
  (forall rv, In rv rows -> (off <= s_last (fst rv))%Z /\ (s_next (fst rv) <= off + Z.of_nat n - 1)%Z) ->
  panel_rows n off rows = rows.
Proof. exact @panel_rows_all. Qed.
Print Assumptions C20_panel_without_limits_is_the_whole_table.

(* the repaired window offset equals the sample index: finite sweep, bound stated *)
Theorem C20_offset_is_the_sample_index_on_grid : forall fs k,
  In fs [50; 64; 100; 128; 200; 250; 500; 1000]%float -> k < 2000 ->
  offset_repaired fs (Z2F (Z.of_nat k) * (1 / fs))%float = Z.of_nat k.
Proof. exact offset_repaired_grid. Qed.
Print Assumptions C20_offset_is_the_sample_index_on_grid.

(* the same for the time axis as repaired (stamp of sample k = k / fs) *)
Theorem C20_offset_is_the_sample_index_on_grid_div : forall fs k,
  In fs [50; 64; 100; 128; 200; 250; 500; 1000; 30]%float -> k < 2000 ->
  offset_repaired fs (Z2F (Z.of_nat k) / fs)%float = Z.of_nat k.
Proof. exact offset_repaired_grid_div. Qed.
Print Assumptions C20_offset_is_the_sample_index_on_grid_div.

(* the plots and limit_df(reset_indices) use one and the same offset *)
Theorem C20_plot_offset_is_limit_df_offset : forall fs t0, offset_repaired fs t0 = F2Z_round (fs * t0)%float.
Proof. exact offset_repaired_limit_df. Qed.
Print Assumptions C20_plot_offset_is_limit_df_offset.

(* Legacy: the truncating offset is one sample early for the window starting at sample 29, fs = 100 *)
Theorem C20_legacy_offset_refuted :
  offset_legacy 100 (29 * 0x1.47ae147ae147bp-7)%float = 28%Z /\ offset_repaired 100 (29 * 0x1.47ae147ae147bp-7)%float = 29%Z.
Proof. exact offset_legacy_refuted. Qed.
Print Assumptions C20_legacy_offset_refuted.

(* ---- the window-limited table is part of the model (limit_df as repaired): for x-limits that are the time stamps of
   samples k0 and k0 + n of the plotted time axis, every labelled cycle of the table lying entirely inside the view
   [k0, k0 + n - 1] — also one starting exactly on the first sample of the view — is highlighted completely *)
Theorem C20_highlight_every_burst_cycle_in_view_on_grid : forall fs (k0 : Z) n (rows : list (srow * bool)) r j,
  finite fs = true -> (0 < FR fs)%R -> (Z.abs k0 < 2 ^ 53)%Z -> (Z.abs (k0 + Z.of_nat n) < 2 ^ 53)%Z ->
  finite (Z2F k0 / fs)%float = true -> finite (Z2F (k0 + Z.of_nat n) / fs)%float = true ->
  In (r, true) rows -> (k0 <= s_last r)%Z -> (s_last r <= s_next r)%Z -> (s_next r <= k0 + Z.of_nat n - 1)%Z ->
  (s_last r <= j <= s_next r)%Z ->
  nth (Z.to_nat (j - k0))
      (burst_mask n k0 (view_rows (Some (fs, (Z2F k0 / fs)%float, (Z2F (k0 + Z.of_nat n) / fs)%float)) rows))
      false = true.
Proof. exact summary_highlight_complete_on_grid. Qed.
Print Assumptions C20_highlight_every_burst_cycle_in_view_on_grid.

Theorem C20_highlight_only_burst_cycles_of_the_table : forall lim s0 n (rows : list (srow * bool)) i,
  nth i (burst_mask n s0 (view_rows lim rows)) false = true ->
  exists r, In (r, true) rows /\ (s_last r <= s0 + Z.of_nat i <= s_next r)%Z.
Proof. exact summary_highlight_sound. Qed.
Print Assumptions C20_highlight_only_burst_cycles_of_the_table.

Theorem C20_panel_shows_every_cycle_in_view_on_grid : forall (V : Type) fs (k0 : Z) n (rows : list (srow * V)) r v,
  finite fs = true -> (0 < FR fs)%R -> (Z.abs k0 < 2 ^ 53)%Z -> (Z.abs (k0 + Z.of_nat n) < 2 ^ 53)%Z ->
  finite (Z2F k0 / fs)%float = true -> finite (Z2F (k0 + Z.of_nat n) / fs)%float = true ->
  In (r, v) rows -> (k0 <= s_last r)%Z -> (s_last r <= s_next r)%Z -> (s_next r <= k0 + Z.of_nat n - 1)%Z ->
  In ((s_center r - k0)%Z, v)
     (panel_interp n k0 (view_rows (Some (fs, (Z2F k0 / fs)%float, (Z2F (k0 + Z.of_nat n) / fs)%float)) rows)).
Proof. exact @summary_panel_complete_on_grid. Qed.
Print Assumptions C20_panel_shows_every_cycle_in_view_on_grid.

Theorem C20_panel_points_are_cycle_centres_of_the_table : forall (V : Type) lim s0 n (rows : list (srow * V)) q v,
  In (q, v) (panel_interp n s0 (view_rows lim rows)) ->
  exists r, In (r, v) rows /\ q = (s_center r - s0)%Z /\ (s0 <= s_last r)%Z /\ (s_next r <= s0 + Z.of_nat n - 1)%Z.
Proof. exact @summary_panel_sound. Qed.
Print Assumptions C20_panel_points_are_cycle_centres_of_the_table.

(* Legacy (F16): the pre-repair selection (sample indices against start * fs) lost the labelled cycle [7, 10] of the view
   [7, 18) at fs = 100 — samples 7 .. 9 not highlighted, no panel point at its centre; the repaired one keeps it *)
Theorem C20_legacy_view_selection_refuted :
  burst_mask 11 7 (view_rows_legacy f16_lim f16_rows)
    = [false; false; false; true; true; true; true; false; false; false; false] /\
  burst_mask 11 7 (view_rows f16_lim f16_rows)
    = [true; true; true; true; true; true; true; false; false; false; false] /\
  map fst (panel_interp 11 7 (view_rows_legacy f16_lim f16_rows)) = [5; 8]%Z /\
  map fst (panel_interp 11 7 (view_rows f16_lim f16_rows)) = [1; 5; 8]%Z.
Proof. exact view_rows_legacy_refuted. Qed.
Print Assumptions C20_legacy_view_selection_refuted.

Local Open Scope string_scope.
(* ---- threshold lines: one panel per given parameter other than min_n_cycles, its line at the value given for THAT
   parameter by name ... *)
Theorem C20_every_given_parameter_has_its_panel : forall (given : list (String.string * float)) k v,
  NoDup (map fst given) -> In (k, v) given -> k <> "min_n_cycles" -> In (k, Some v) (summary_panels given).
Proof. exact summary_panels_complete. Qed.
Print Assumptions C20_every_given_parameter_has_its_panel.

Theorem C20_threshold_line_is_the_value_given_by_name : forall (given : list (String.string * float)) k t,
  In (k, t) (summary_panels given) -> k <> "min_n_cycles" /\ exists v, t = Some v /\ In (k, v) given.
Proof. exact summary_panels_sound. Qed.
Print Assumptions C20_threshold_line_is_the_value_given_by_name.

(* ... whatever the insertion order of the dictionary (min_n_cycles first, in the middle, last, absent) ... *)
Theorem C20_threshold_lines_do_not_depend_on_key_order : forall (given given' : list (String.string * float)) k t,
  NoDup (map fst given) -> Permutation given given' ->
  (In (k, t) (summary_panels given) <-> In (k, t) (summary_panels given')).
Proof. exact summary_panels_order_free. Qed.
Print Assumptions C20_threshold_lines_do_not_depend_on_key_order.

(* ... and through Bycycle(thresholds = ...), which moves keys written in shorthand behind the others *)
Theorem C20_object_shorthand_keeps_threshold_lines : forall (user : list (String.string * bool * float)) k t,
  NoDup (map fst (function_thresholds user)) ->
  (In (k, t) (summary_panels (object_thresholds user)) <-> In (k, t) (summary_panels (function_thresholds user))).
Proof. exact object_panels_by_name. Qed.
Print Assumptions C20_object_shorthand_keeps_threshold_lines.
