(* C12 — theorems are added below as the proofs are completed; see DESIGN.md *)
From Coq Require Import List Arith Bool.
Import ListNotations.
From ByC Require Import Base.Result Model.Group.

Theorem C12_placeholder_unordered_is_identity_schedule_only : forall (A R : Type) (f : A -> R) xs d,
  pool_imap_unordered (seq 0 (length xs)) f xs d = map (fun i => f (nth i xs d)) (seq 0 (length xs)).
Proof. reflexivity. Qed.
Print Assumptions C12_placeholder_unordered_is_identity_schedule_only.
