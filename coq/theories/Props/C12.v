(* C12 — 3-D group results sit at the position of their signal.
   Model: Model/Group.v; sigs is n0 rows of n1 signals (all shapes, including n0 <> n1 and
   size-1 dimensions); epochs : K -> list Sg -> list T is the flattened-epoch analysis of one
   2-D slice (abstract, one result per row of the slice).  No axioms. *)
From Coq Require Import List Arith Bool Permutation.
Import ListNotations.
From ByC Require Import Base.Result Model.Group Proofs.Group.

(* axis = (0,1): entry [i][j] is the analysis of signal [i,j] with the option set at [i][j] (row-major) *)
Theorem C12_axis01_entry_ij_is_signal_ij : forall (K Sg T : Type) (cf : K -> Sg -> T) (dK : K) (dS : Sg) (dT : T)
  (sigma : list nat) (spec : kwspec) (sigs : list (list Sg)) (n1 i j : nat),
  Permutation sigma (seq 0 (length (concat sigs))) ->
  (forall row, In row sigs -> length row = n1) ->
  i < length sigs -> j < n1 ->
  nth j (nth i (group3d_axis01 cf dK dS dT sigma spec sigs n1) []) dT =
  cf (kw_for dK spec (i * n1 + j)) (nth j (nth i sigs []) dS).
Proof. exact @group3d_axis01_spec. Qed.
Print Assumptions C12_axis01_entry_ij_is_signal_ij.

(* axis = 0: row i is the flattened-epoch analysis of sigs[i] with the i-th option set *)
Theorem C12_axis0_row_i_is_slice_i : forall (K Sg T : Type) (epochs : K -> list Sg -> list T) (dK : K)
  (sigma : list nat) (spec : kwspec) (sigs : list (list Sg)) (i : nat),
  Permutation sigma (seq 0 (length sigs)) -> i < length sigs ->
  nth i (group3d_axis0 epochs dK sigma spec sigs) [] = epochs (kw_for dK spec i) (nth i sigs []).
Proof. exact @group3d_axis0_nth. Qed.
Print Assumptions C12_axis0_row_i_is_slice_i.

(* axis = 1: column j is the flattened-epoch analysis of sigs[:, j] with the j-th option set *)
Theorem C12_axis1_column_j_is_slice_j : forall (K Sg T : Type) (epochs : K -> list Sg -> list T) (dK : K) (dS : Sg) (dT : T)
  (sigma : list nat) (spec : kwspec) (sigs : list (list Sg)) (n1 i j : nat),
  Permutation sigma (seq 0 n1) ->
  (forall row, In row sigs -> length row = n1) ->
  (forall k sl, length (epochs k sl) = length sl) ->
  i < length sigs -> j < n1 ->
  nth j (nth i (group3d_axis1 epochs dK dS dT sigma spec sigs n1) []) dT =
  nth i (epochs (kw_for dK spec j) (map (fun row => nth j row dS) sigs)) dT.
Proof. exact @group3d_axis1_spec. Qed.
Print Assumptions C12_axis1_column_j_is_slice_j.

(* the nested list has the array's first two dimensions: n0 rows of n1 entries, in all three axis
   modes.  [epochs] returns one table per row of the slice it is given (C13_epoch_count); this is
   what makes an axis=0 row n1 long.  For axis=1 the zip-transposition is modelled by [transpose],
   which reads n0 entries from each of the n1 per-column results. *)
Theorem C12_axis01_shape : forall (K Sg T : Type) (cf : K -> Sg -> T) (dK : K) (dS : Sg) (dT : T)
  (sigma : list nat) (spec : kwspec) (sigs : list (list Sg)) (n1 : nat),
  length (group3d_axis01 cf dK dS dT sigma spec sigs n1) = length sigs /\
  forall i, i < length sigs -> length (nth i (group3d_axis01 cf dK dS dT sigma spec sigs n1) []) = n1.
Proof. exact @group3d_axis01_shape. Qed.
Print Assumptions C12_axis01_shape.

Theorem C12_axis0_shape : forall (K Sg T : Type) (epochs : K -> list Sg -> list T) (dK : K)
  (sigma : list nat) (spec : kwspec) (sigs : list (list Sg)) (n1 : nat),
  Permutation sigma (seq 0 (length sigs)) ->
  (forall row, In row sigs -> length row = n1) ->
  (forall k sl, length (epochs k sl) = length sl) ->
  length (group3d_axis0 epochs dK sigma spec sigs) = length sigs /\
  forall i, i < length sigs -> length (nth i (group3d_axis0 epochs dK sigma spec sigs) []) = n1.
Proof. exact @group3d_axis0_shape. Qed.
Print Assumptions C12_axis0_shape.

Theorem C12_axis1_shape : forall (K Sg T : Type) (epochs : K -> list Sg -> list T) (dK : K) (dS : Sg) (dT : T)
  (sigma : list nat) (spec : kwspec) (sigs : list (list Sg)) (n1 : nat),
  Permutation sigma (seq 0 n1) ->
  length (group3d_axis1 epochs dK dS dT sigma spec sigs n1) = length sigs /\
  forall i, i < length sigs -> length (nth i (group3d_axis1 epochs dK dS dT sigma spec sigs n1) []) = n1.
Proof. exact @group3d_axis1_shape. Qed.
Print Assumptions C12_axis1_shape.

(* what [kw_for dK spec p] means in the theorems above: option argument not given -> the empty
   option set for every slice; a dict or a one-element list -> shared by all slices; a list of
   two or more -> the entry at the slice's position (row-major position i*n1+j for a 2-D list) *)
Theorem C12_option_argument_forms : forall (K : Type) (dK : K) (spec : kwspec) (p : nat),
  match spec with
  | KwNone => kw_for dK spec p = dK
  | KwOne k => kw_for dK spec p = k
  | KwList [k] => kw_for dK spec p = k
  | KwList l => kw_for dK spec p = nth p l dK
  end.
Proof. exact @kw_for_cases. Qed.
Print Assumptions C12_option_argument_forms.

Theorem C12_models_mirror : forall (Sg T : Type) (dS : Sg) (dT : T) (dfs : list (list T)) (sigs : list (list Sg)) (i j : nat),
  i < length sigs -> j < length (nth i sigs []) ->
  nth j (nth i (models3d dS dT dfs sigs) []) (dT, dS) = (nth j (nth i dfs []) dT, nth j (nth i sigs []) dS).
Proof. exact @models3d_spec. Qed.
Print Assumptions C12_models_mirror.

(* BycycleGroup.fit on an object that was fitted before (any number of times, 2-D or 3-D arrays of any
   other shape, any axis): the fit REPLACES df_features and models *)
Theorem C12_refit_replaces_tables_and_models : forall (K Sg T : Type) (cf : K -> Sg -> T)
  (epochs : K -> list Sg -> list T) (dK : K) (dS : Sg) (dT : T)
  (o : gobj) (fits : list gfit) (f : gfit),
  gobj_run cf epochs dK dS dT o (fits ++ [f]) = gobj_fit cf epochs dK dS dT Unfitted f.
Proof. exact @gobj_refit_replaces. Qed.
Print Assumptions C12_refit_replaces_tables_and_models.

(* ... so that after ANY sequence of fits df_features and models have the LAST array's first two
   dimensions and its contents: n0 rows of n1 tables / models, model [i][j] = (table [i][j], signal [i,j]) *)
Theorem C12_object_after_any_fits_axis01 : forall (K Sg T : Type) (cf : K -> Sg -> T)
  (epochs : K -> list Sg -> list T) (dK : K) (dS : Sg) (dT : T)
  (o : gobj) (fits : list gfit) (sigma : list nat) (spec : kwspec) (sigs : list (list Sg)) (n1 : nat),
  Permutation sigma (seq 0 (length (concat sigs))) ->
  (forall row, In row sigs -> length row = n1) ->
  exists dfs models,
    gobj_run cf epochs dK dS dT o (fits ++ [Fit3 2 sigma spec sigs n1]) = Fitted3 dfs models /\
    length dfs = length sigs /\ length models = length sigs /\
    forall i, i < length sigs ->
      length (nth i dfs []) = n1 /\ length (nth i models []) = n1 /\
      forall j, j < n1 ->
        nth j (nth i dfs []) dT = cf (kw_for dK spec (i * n1 + j)) (nth j (nth i sigs []) dS) /\
        nth j (nth i models []) (dT, dS) =
        (cf (kw_for dK spec (i * n1 + j)) (nth j (nth i sigs []) dS), nth j (nth i sigs []) dS).
Proof. exact @gobj_last_fit_3d_axis01. Qed.
Print Assumptions C12_object_after_any_fits_axis01.

Theorem C12_object_after_any_fits_axis0 : forall (K Sg T : Type) (cf : K -> Sg -> T)
  (epochs : K -> list Sg -> list T) (dK : K) (dS : Sg) (dT : T)
  (o : gobj) (fits : list gfit) (sigma : list nat) (spec : kwspec) (sigs : list (list Sg)) (n1 : nat),
  Permutation sigma (seq 0 (length sigs)) ->
  (forall row, In row sigs -> length row = n1) ->
  (forall k sl, length (epochs k sl) = length sl) ->
  exists dfs models,
    gobj_run cf epochs dK dS dT o (fits ++ [Fit3 0 sigma spec sigs n1]) = Fitted3 dfs models /\
    length dfs = length sigs /\ length models = length sigs /\
    forall i, i < length sigs ->
      length (nth i dfs []) = n1 /\ length (nth i models []) = n1 /\
      nth i dfs [] = epochs (kw_for dK spec i) (nth i sigs []) /\
      forall j, j < n1 ->
        nth j (nth i models []) (dT, dS) =
        (nth j (epochs (kw_for dK spec i) (nth i sigs [])) dT, nth j (nth i sigs []) dS).
Proof. exact @gobj_last_fit_3d_axis0. Qed.
Print Assumptions C12_object_after_any_fits_axis0.

Theorem C12_object_after_any_fits_axis1 : forall (K Sg T : Type) (cf : K -> Sg -> T)
  (epochs : K -> list Sg -> list T) (dK : K) (dS : Sg) (dT : T)
  (o : gobj) (fits : list gfit) (sigma : list nat) (spec : kwspec) (sigs : list (list Sg)) (n1 : nat),
  Permutation sigma (seq 0 n1) ->
  (forall row, In row sigs -> length row = n1) ->
  (forall k sl, length (epochs k sl) = length sl) ->
  exists dfs models,
    gobj_run cf epochs dK dS dT o (fits ++ [Fit3 1 sigma spec sigs n1]) = Fitted3 dfs models /\
    length dfs = length sigs /\ length models = length sigs /\
    forall i, i < length sigs ->
      length (nth i dfs []) = n1 /\ length (nth i models []) = n1 /\
      forall j, j < n1 ->
        nth j (nth i dfs []) dT =
        nth i (epochs (kw_for dK spec j) (map (fun row => nth j row dS) sigs)) dT /\
        nth j (nth i models []) (dT, dS) =
        (nth i (epochs (kw_for dK spec j) (map (fun row => nth j row dS) sigs)) dT,
         nth j (nth i sigs []) dS).
Proof. exact @gobj_last_fit_3d_axis1. Qed.
Print Assumptions C12_object_after_any_fits_axis1.

(* ---------------------------------------------------------------------------------------------------- *)
(* Settings attributes re-assigned between fits (bg.center_extrema = ..., bg.thresholds = {...}, ...): a
   history is a list of assignments (ASet k) and fits from the constructor's option set k0;
   current_kw k0 acts = the last assignment, else k0.  A fit uses the option set in force when it is called. *)
Theorem C12_fit_uses_the_settings_in_force : forall (K Sg T : Type) (cf : K -> Sg -> T)
  (epochs : K -> list Sg -> list T) (dK : K) (dS : Sg) (dT : T)
  (k0 : K) (o : gobj) (acts : list gaction) (f : gfit),
  gact_run cf epochs dK dS dT (k0, o) (acts ++ [AFit f]) =
  (current_kw k0 acts, gobj_fit cf epochs dK dS dT Unfitted (with_spec (current_kw k0 acts) f)).
Proof. exact @gact_fit_uses_current. Qed.
Print Assumptions C12_fit_uses_the_settings_in_force.

(* entry by entry for the three axis modes: the analysis of the signal / slice at that position with the
   CURRENT option set *)
Theorem C12_object_after_reassignments_axis01 : forall (K Sg T : Type) (cf : K -> Sg -> T)
  (epochs : K -> list Sg -> list T) (dK : K) (dS : Sg) (dT : T)
  (k0 : K) (o : gobj) (acts : list gaction)
  (sigma : list nat) (spec : kwspec) (sigs : list (list Sg)) (n1 : nat),
  Permutation sigma (seq 0 (length (concat sigs))) ->
  (forall row, In row sigs -> length row = n1) ->
  let k := current_kw k0 acts in
  exists dfs models,
    gact_run cf epochs dK dS dT (k0, o) (acts ++ [AFit (Fit3 2 sigma spec sigs n1)]) = (k, Fitted3 dfs models) /\
    length dfs = length sigs /\ length models = length sigs /\
    forall i, i < length sigs ->
      length (nth i dfs []) = n1 /\ length (nth i models []) = n1 /\
      forall j, j < n1 ->
        nth j (nth i dfs []) dT = cf k (nth j (nth i sigs []) dS) /\
        nth j (nth i models []) (dT, dS) = (cf k (nth j (nth i sigs []) dS), nth j (nth i sigs []) dS).
Proof. exact @gact_last_fit_3d_axis01. Qed.
Print Assumptions C12_object_after_reassignments_axis01.

Theorem C12_object_after_reassignments_axis0 : forall (K Sg T : Type) (cf : K -> Sg -> T)
  (epochs : K -> list Sg -> list T) (dK : K) (dS : Sg) (dT : T)
  (k0 : K) (o : gobj) (acts : list gaction)
  (sigma : list nat) (spec : kwspec) (sigs : list (list Sg)) (n1 : nat),
  Permutation sigma (seq 0 (length sigs)) ->
  (forall row, In row sigs -> length row = n1) ->
  (forall k sl, length (epochs k sl) = length sl) ->
  let k := current_kw k0 acts in
  exists dfs models,
    gact_run cf epochs dK dS dT (k0, o) (acts ++ [AFit (Fit3 0 sigma spec sigs n1)]) = (k, Fitted3 dfs models) /\
    length dfs = length sigs /\ length models = length sigs /\
    forall i, i < length sigs ->
      length (nth i dfs []) = n1 /\ length (nth i models []) = n1 /\
      nth i dfs [] = epochs k (nth i sigs []) /\
      forall j, j < n1 ->
        nth j (nth i models []) (dT, dS) = (nth j (epochs k (nth i sigs [])) dT, nth j (nth i sigs []) dS).
Proof. exact @gact_last_fit_3d_axis0. Qed.
Print Assumptions C12_object_after_reassignments_axis0.

Theorem C12_object_after_reassignments_axis1 : forall (K Sg T : Type) (cf : K -> Sg -> T)
  (epochs : K -> list Sg -> list T) (dK : K) (dS : Sg) (dT : T)
  (k0 : K) (o : gobj) (acts : list gaction)
  (sigma : list nat) (spec : kwspec) (sigs : list (list Sg)) (n1 : nat),
  Permutation sigma (seq 0 n1) ->
  (forall row, In row sigs -> length row = n1) ->
  (forall k sl, length (epochs k sl) = length sl) ->
  let k := current_kw k0 acts in
  exists dfs models,
    gact_run cf epochs dK dS dT (k0, o) (acts ++ [AFit (Fit3 1 sigma spec sigs n1)]) = (k, Fitted3 dfs models) /\
    length dfs = length sigs /\ length models = length sigs /\
    forall i, i < length sigs ->
      length (nth i dfs []) = n1 /\ length (nth i models []) = n1 /\
      forall j, j < n1 ->
        nth j (nth i dfs []) dT = nth i (epochs k (map (fun row => nth j row dS) sigs)) dT /\
        nth j (nth i models []) (dT, dS) =
        (nth i (epochs k (map (fun row => nth j row dS) sigs)) dT, nth j (nth i sigs []) dS).
Proof. exact @gact_last_fit_3d_axis1. Qed.
Print Assumptions C12_object_after_reassignments_axis1.

(* Legacy: the back-indexing used before the repair (df_2d[i + j]) is refuted on a 2 x 2 array *)
Theorem C12_legacy_index_refuted :
  nth 0 (nth 1 (group3d_axis01_legacy id_cf 0 0 (0, 0, 0) [0; 1; 2; 3] (KwOne 7) (sig_ids 2 2) 2) []) (0, 0, 0)
  <> id_cf 7 (nth 0 (nth 1 (sig_ids 2 2) []) 0).
Proof. exact group3d_axis01_legacy_refuted. Qed.
Print Assumptions C12_legacy_index_refuted.
