(* Small list utilities shared by the models. *)
From Coq Require Import List Bool Arith ZArith.
Import ListNotations.
From ByC Require Import Base.Result.

Definition slice {A} (l : list A) (a b : nat) : list A := firstn (b - a) (skipn a l).

(* Python slice l[a:b] with non-negative integer bounds *)
Definition zslice {A} (l : list A) (a b : Z) : list A := slice l (Z.to_nat a) (Z.to_nat b).

Fixpoint mapM {A B} (f : A -> result B) (l : list A) : result (list B) :=
  match l with
  | [] => Ok []
  | x :: t => match f x with
              | Err e => Err e
              | Ok y => match mapM f t with Err e => Err e | Ok ys => Ok (y :: ys) end
              end
  end.

Definition nth_res {A} (l : list A) (i : nat) : result A :=
  match nth_error l i with Some x => Ok x | None => Err EIndex end.

Definition lastZ (l : list Z) : Z := last l 0%Z.
Definition headZ (l : list Z) : Z := hd 0%Z l.

Fixpoint count_true (l : list bool) : nat :=
  match l with [] => 0 | true :: t => S (count_true t) | false :: t => count_true t end.

Fixpoint zip {A B} (l1 : list A) (l2 : list B) : list (A * B) :=
  match l1, l2 with x :: t, y :: u => (x, y) :: zip t u | _, _ => [] end.

Fixpoint zseq (start : Z) (len : nat) : list Z :=
  match len with O => [] | S k => start :: zseq (start + 1) k end.
