(* Error-carrying results: the code raises, Gallina cannot. *)
From Coq Require Import List Bool.
Import ListNotations.

Inductive err := EValue | EIndex | ELen | EKey | EType | EDegenerate | EOther.
Inductive result (A : Type) := Ok (a : A) | Err (e : err).
Arguments Ok {A} a.
Arguments Err {A} e.

Definition err_eqb (a b : err) : bool :=
  match a, b with
  | EValue, EValue | EIndex, EIndex | ELen, ELen | EKey, EKey
  | EType, EType | EDegenerate, EDegenerate | EOther, EOther => true
  | _, _ => false
  end.

Definition bind {A B} (r : result A) (f : A -> result B) : result B :=
  match r with Ok a => f a | Err e => Err e end.
Definition rmap {A B} (f : A -> B) (r : result A) : result B :=
  match r with Ok a => Ok (f a) | Err e => Err e end.

Definition result_eqb {A} (eq : A -> A -> bool) (x y : result A) : bool :=
  match x, y with
  | Ok a, Ok b => eq a b
  | Err e, Err f => err_eqb e f
  | _, _ => false
  end.

Notation "'do' x <- r ; k" := (bind r (fun x => k)) (at level 200, x pattern, r at level 100, k at level 200).
