(** FloatFacts2: further machine-checked binary64 facts (Flocq 4.1 bridge), used by Proofs/Shape.v.
    (1) sharp bounds for integer ratios, (2) subtraction/addition with a bounded exact result,
    (3) 1 - x ranges, (4) opp is an involution on every float (NaN included),
    (5) (-a) - (-b) has the real value of b - a, commutativity of +, (6) mean of two fractions. *)
From Coq Require Import ZArith Reals Lra Lia.
From Coq Require Import Floats.SpecFloat Floats.PrimFloat Floats.FloatAxioms Floats.FloatOps.
From Flocq Require Import Core.Core IEEE754.BinarySingleNaN IEEE754.PrimFloat.
From ByC Require Import Base.FloatFacts.
Open Scope float_scope.
#[local] Instance Hprec53 : FLX.Prec_gt_0 53 := eq_refl _.
#[local] Instance Hmax1024 : Prec_lt_emax 53 1024 := eq_refl _.
#[local] Instance Vexp : Generic_fmt.Valid_exp (SpecFloat.fexp 53 1024) := fexp_correct 53 1024 Hprec53.

Notation format64 := (Generic_fmt.generic_format radix2 (SpecFloat.fexp 53 1024)).

(** * Constants *)
Lemma bpow_m53 : bpow radix2 (-53) = (/ IZR (2 ^ 53))%R.
Proof. reflexivity. Qed.

Lemma eps_pos : (0 < bpow radix2 (-53))%R.
Proof. apply bpow_gt_0. Qed.

Lemma eps_lt_half : (bpow radix2 (-53) < / 2)%R.
Proof. change (/ 2)%R with (bpow radix2 (-1)). apply bpow_lt. lia. Qed.

Lemma format64_eps : format64 (bpow radix2 (-53)).
Proof.
 replace (bpow radix2 (-53)) with (F2R (Float radix2 1 (-53))).
 - apply format64_FLT; [reflexivity|lia].
 - unfold F2R. cbn [Fnum Fexp]. lra.
Qed.

Lemma format64_one_minus_eps : format64 (1 - bpow radix2 (-53)).
Proof.
 replace (1 - bpow radix2 (-53))%R with (F2R (Float radix2 (2 ^ 53 - 1) (-53))).
 - apply format64_FLT; [reflexivity|lia].
 - assert (P53 : (0 < IZR (2 ^ 53))%R) by (apply IZR_lt; reflexivity).
   rewrite bpow_m53. unfold F2R. cbn [Fnum Fexp]. rewrite bpow_m53, minus_IZR. field. lra.
Qed.

Lemma format64_0 : format64 0.
Proof. apply Generic_fmt.generic_format_0. Qed.
Lemma format64_1 : format64 1.
Proof. now apply format64_IZR. Qed.
Lemma format64_2 : format64 2.
Proof. now apply format64_IZR. Qed.

Lemma small_lt_emax r : (Rabs r <= 2)%R -> (Rabs r < bpow radix2 1024)%R.
Proof.
 intros H. apply Rle_lt_trans with 2%R; [exact H|].
 change 2%R with (bpow radix2 1). apply bpow_lt. lia.
Qed.

(** rounding keeps a value between two representable bounds *)
Lemma rnd64_between lo hi r : format64 lo -> format64 hi ->
  (lo <= r <= hi)%R -> (lo <= rnd64 r <= hi)%R.
Proof.
 intros Flo Fhi Hr. split.
 - rewrite <- (rnd64_id lo Flo). apply rnd64_le, Hr.
 - rewrite <- (rnd64_id hi Fhi). apply rnd64_le, Hr.
Qed.

(** * F1: sharp bounds for the ratio of two integers 0 < a < b < 2^53 *)
Lemma ratio_bounds_strict a b : (0 < a < b)%Z -> (b < 2 ^ 53)%Z ->
  finite (Z2F a / Z2F b) = true /\
  (bpow radix2 (-53) <= FR (Z2F a / Z2F b) <= 1 - bpow radix2 (-53))%R.
Proof.
 intros Ha Hb.
 assert (Aa : (Z.abs a < 2 ^ 53)%Z) by (rewrite Z.abs_eq; lia).
 assert (Ab : (Z.abs b < 2 ^ 53)%Z) by (rewrite Z.abs_eq; lia).
 destruct (Z2F_exact a Aa) as (Fa & Va). destruct (Z2F_exact b Ab) as (Fb & Vb).
 assert (Ra : (1 <= IZR a)%R) by (apply IZR_le; lia).
 assert (Rab : (IZR a + 1 <= IZR b)%R) by (rewrite <- plus_IZR; apply IZR_le; lia).
 assert (Rb : (IZR b <= IZR (2 ^ 53))%R) by (apply IZR_le; lia).
 assert (Rbpos : (0 < IZR b)%R) by lra.
 rewrite bpow_m53.
 set (eps := (/ IZR (2 ^ 53))%R).
 assert (P53 : (0 < IZR (2 ^ 53))%R) by (apply IZR_lt; reflexivity).
 assert (Heps : (0 < eps)%R) by (apply Rinv_0_lt_compat, P53).
 assert (Hib : (eps <= / IZR b)%R) by (apply Rinv_le_contravar; assumption).
 assert (Hq : (eps <= IZR a / IZR b <= 1 - eps)%R).
 { split.
   - unfold Rdiv. apply Rle_trans with (1 * / IZR b)%R; [lra|].
     apply Rmult_le_compat_r; [|exact Ra]. apply Rlt_le, Rinv_0_lt_compat, Rbpos.
   - apply Rle_trans with ((IZR b - 1) / IZR b)%R.
     + unfold Rdiv. apply Rmult_le_compat_r; [|lra]. apply Rlt_le, Rinv_0_lt_compat, Rbpos.
     + unfold Rdiv. rewrite Rmult_minus_distr_r, Rinv_r by lra. lra. }
 destruct (div_FR (Z2F a) (Z2F b) Fa Fb) as (Fq & Vq).
 { rewrite Vb. lra. }
 { rewrite Va, Vb. rewrite Rabs_pos_eq; lra. }
 rewrite Va, Vb in Vq.
 split; [exact Fq|]. rewrite Vq.
 apply rnd64_between; [apply format64_eps|apply format64_one_minus_eps|exact Hq].
Qed.

(** * Subtraction and addition whose exact result lies between representable bounds *)
Lemma sub_FR_between (lo hi : R) x y :
  format64 lo -> format64 hi -> (-2 <= lo)%R -> (hi <= 2)%R ->
  finite x = true -> finite y = true -> (lo <= FR x - FR y <= hi)%R ->
  finite (x - y) = true /\ FR (x - y) = rnd64 (FR x - FR y) /\ (lo <= FR (x - y) <= hi)%R.
Proof.
 intros Flo Fhi Hlo Hhi Fx Fy Hd.
 assert (Hr := rnd64_between lo hi _ Flo Fhi Hd).
 generalize (Bminus_correct _ _ Hprec Hmax mode_NE (Prim2B x) (Prim2B y) Fx Fy).
 rewrite Rlt_bool_true.
 2:{ apply (small_lt_emax (rnd64 (FR x - FR y))). apply Rabs_le. lra. }
 intros (Hv & Hfin & _).
 assert (Vd : FR (x - y) = rnd64 (FR x - FR y)) by (unfold FR; rewrite sub_equiv; exact Hv).
 split; [|split].
 - unfold finite. rewrite sub_equiv. exact Hfin.
 - exact Vd.
 - rewrite Vd. exact Hr.
Qed.

Lemma add_FR_between (lo hi : R) x y :
  format64 lo -> format64 hi -> (-2 <= lo)%R -> (hi <= 2)%R ->
  finite x = true -> finite y = true -> (lo <= FR x + FR y <= hi)%R ->
  finite (x + y) = true /\ FR (x + y) = rnd64 (FR x + FR y) /\ (lo <= FR (x + y) <= hi)%R.
Proof.
 intros Flo Fhi Hlo Hhi Fx Fy Hd.
 assert (Hr := rnd64_between lo hi _ Flo Fhi Hd).
 generalize (Bplus_correct _ _ Hprec Hmax mode_NE (Prim2B x) (Prim2B y) Fx Fy).
 rewrite Rlt_bool_true.
 2:{ apply (small_lt_emax (rnd64 (FR x + FR y))). apply Rabs_le. lra. }
 intros (Hv & Hfin & _).
 assert (Vd : FR (x + y) = rnd64 (FR x + FR y)) by (unfold FR; rewrite add_equiv; exact Hv).
 split; [|split].
 - unfold finite. rewrite add_equiv. exact Hfin.
 - exact Vd.
 - rewrite Vd. exact Hr.
Qed.

(** boolean <-> real order against the literals 0 and 1 *)
Lemma leb0_R x : finite x = true -> (0 <=? x) = true -> (0 <= FR x)%R.
Proof.
 intros Fx. rewrite leb_R, FR_zero by (assumption || reflexivity).
 case Rle_bool_spec; easy.
Qed.
Lemma leb1_R x : finite x = true -> (x <=? 1) = true -> (FR x <= 1)%R.
Proof.
 intros Fx. rewrite leb_R, FR_one by (assumption || reflexivity).
 case Rle_bool_spec; easy.
Qed.
Lemma R_leb0 x : finite x = true -> (0 <= FR x)%R -> (0 <=? x) = true.
Proof.
 intros Fx H. rewrite leb_R, FR_zero by (assumption || reflexivity). now apply Rle_bool_true.
Qed.
Lemma R_leb1 x : finite x = true -> (FR x <= 1)%R -> (x <=? 1) = true.
Proof.
 intros Fx H. rewrite leb_R, FR_one by (assumption || reflexivity). now apply Rle_bool_true.
Qed.
Lemma R_ltb0 x : finite x = true -> (0 < FR x)%R -> (0 <? x) = true.
Proof.
 intros Fx H. rewrite ltb_R, FR_zero by (assumption || reflexivity). now apply Rlt_bool_true.
Qed.
Lemma R_ltb1 x : finite x = true -> (FR x < 1)%R -> (x <? 1) = true.
Proof.
 intros Fx H. rewrite ltb_R, FR_one by (assumption || reflexivity). now apply Rlt_bool_true.
Qed.

(** * F2: x in [0,1]  ->  1 - x in [0,1] *)
Lemma one_minus_range x : finite x = true -> (0 <=? x) = true -> (x <=? 1) = true ->
  finite (1 - x) = true /\ (0 <=? 1 - x) = true /\ (1 - x <=? 1) = true.
Proof.
 intros Fx H0 H1.
 assert (R0 := leb0_R x Fx H0). assert (R1 := leb1_R x Fx H1).
 destruct (sub_FR_between 0 1 1 x format64_0 format64_1) as (Fd & _ & Hd);
   try assumption; try reflexivity; try lra.
 { rewrite FR_one. lra. }
 split; [exact Fd|]. split; [apply R_leb0|apply R_leb1]; (assumption || lra).
Qed.

(** * F3: 1 - a/b is strictly inside (0,1) for integers 0 < a < b < 2^53 *)
Lemma one_minus_ratio_bounds a b : (0 < a < b)%Z -> (b < 2 ^ 53)%Z ->
  finite (1 - Z2F a / Z2F b) = true /\
  (bpow radix2 (-53) <= FR (1 - Z2F a / Z2F b) <= 1 - bpow radix2 (-53))%R.
Proof.
 intros Ha Hb.
 destruct (ratio_bounds_strict a b Ha Hb) as (Fq & Hq).
 assert (E := eps_pos). assert (E2 := eps_lt_half).
 destruct (sub_FR_between (bpow radix2 (-53)) (1 - bpow radix2 (-53)) 1 (Z2F a / Z2F b)
             format64_eps format64_one_minus_eps) as (Fd & _ & Hd);
   try assumption; try reflexivity; try lra.
 { rewrite FR_one. lra. }
 split; assumption.
Qed.

Lemma one_minus_ratio_strict a b : (0 < a < b)%Z -> (b < 2 ^ 53)%Z ->
  (0 <? 1 - Z2F a / Z2F b) = true /\ (1 - Z2F a / Z2F b <? 1) = true.
Proof.
 intros Ha Hb.
 destruct (one_minus_ratio_bounds a b Ha Hb) as (Fd & Hd).
 assert (E := eps_pos).
 split; [apply R_ltb0|apply R_ltb1]; (assumption || lra).
Qed.

(** * F4: opp is an involution on every float, NaN included *)
Lemma opp_involutive (x : PrimFloat.float) : PrimFloat.opp (PrimFloat.opp x) = x.
Proof.
 apply Prim2SF_inj. rewrite !opp_spec.
 destruct (Prim2SF x) as [s|s| |s m e]; cbn [SFopp]; try rewrite Bool.negb_involutive; reflexivity.
Qed.

Lemma opp_nan : PrimFloat.is_nan (PrimFloat.opp nan) = true.
Proof. reflexivity. Qed.

Lemma finite_opp x : finite (- x) = finite x.
Proof. unfold finite. rewrite opp_equiv. apply is_finite_Bopp. Qed.
Lemma FR_opp x : FR (- x) = (- FR x)%R.
Proof. unfold FR. rewrite opp_equiv. apply B2R_Bopp. Qed.

(** * F5: subtraction, when it does not overflow, is the rounded exact difference;
      (-a) - (-b) has the same real value as b - a; + is commutative on real values *)
Lemma sub_FR_fin x y : finite x = true -> finite y = true -> finite (x - y) = true ->
  FR (x - y) = rnd64 (FR x - FR y) /\ (Rabs (rnd64 (FR x - FR y)) < bpow radix2 1024)%R.
Proof.
 intros Fx Fy Fs. unfold finite, FR in *. rewrite sub_equiv in *.
 generalize (Bminus_correct _ _ Hprec Hmax mode_NE (Prim2B x) (Prim2B y) Fx Fy).
 case Rlt_bool_spec; intros Hlt.
 - intros (Hv & _). split; [exact Hv|exact Hlt].
 - intros (Hov & _). exfalso. revert Hov Fs.
   unfold binary_overflow. cbn [overflow_to_inf].
   destruct (Bminus mode_NE (Prim2B x) (Prim2B y)); simpl; intros Hov Fs; discriminate.
Qed.

Lemma sub_opp_opp a b : finite a = true -> finite b = true -> finite (b - a) = true ->
  FR ((- a) - (- b)) = FR (b - a) /\ finite ((- a) - (- b)) = true.
Proof.
 intros Fa Fb Fd.
 destruct (sub_FR_fin b a Fb Fa Fd) as (Vd & Hlt).
 assert (Fa' : finite (- a) = true) by (rewrite finite_opp; exact Fa).
 assert (Fb' : finite (- b) = true) by (rewrite finite_opp; exact Fb).
 assert (E : (FR (- a) - FR (- b) = FR b - FR a)%R) by (rewrite !FR_opp; ring).
 generalize (Bminus_correct _ _ Hprec Hmax mode_NE (Prim2B (- a)) (Prim2B (- b)) Fa' Fb').
 change (B2R (Prim2B (- a))) with (FR (- a)). change (B2R (Prim2B (- b))) with (FR (- b)).
 rewrite E. rewrite Rlt_bool_true by exact Hlt.
 intros (Hv & Hfin & _). split.
 - rewrite Vd. unfold FR at 1. rewrite sub_equiv. exact Hv.
 - unfold finite. rewrite sub_equiv. exact Hfin.
Qed.

Lemma add_comm_FR a b : finite a = true -> finite b = true -> finite (a + b) = true ->
  FR (a + b) = FR (b + a) /\ finite (b + a) = true.
Proof.
 intros Fa Fb Fs.
 assert (Va := add_FR_fin a b Fa Fb Fs).
 generalize (Bplus_correct _ _ Hprec Hmax mode_NE (Prim2B a) (Prim2B b) Fa Fb).
 generalize (Bplus_correct _ _ Hprec Hmax mode_NE (Prim2B b) (Prim2B a) Fb Fa).
 rewrite (Rplus_comm (B2R (Prim2B b))).
 case Rlt_bool_spec; intros Hlt.
 - intros (Hv & Hfin & _) _. split.
   + rewrite Va. unfold FR at 3. rewrite add_equiv. symmetry. exact Hv.
   + unfold finite. rewrite add_equiv. exact Hfin.
 - intros _ (Hov & _). exfalso. unfold finite in Fs. rewrite add_equiv in Fs. revert Hov Fs.
   unfold binary_overflow. cbn [overflow_to_inf].
   destruct (Bplus mode_NE (Prim2B a) (Prim2B b)); simpl; intros Hov Fs; discriminate.
Qed.

(** * F6: the mean of two fractions is a fraction *)
Lemma half_mean_range_fin x y : finite x = true -> finite y = true ->
  (0 <=? x) = true -> (x <=? 1) = true -> (0 <=? y) = true -> (y <=? 1) = true ->
  finite ((x + y) / 2) = true /\ (0 <=? (x + y) / 2) = true /\ ((x + y) / 2 <=? 1) = true.
Proof.
 intros Fx Fy X0 X1 Y0 Y1.
 assert (RX0 := leb0_R x Fx X0). assert (RX1 := leb1_R x Fx X1).
 assert (RY0 := leb0_R y Fy Y0). assert (RY1 := leb1_R y Fy Y1).
 destruct (add_FR_between 0 2 x y format64_0 format64_2) as (Fs & _ & Hs);
   try assumption; try lra.
 destruct (div_FR_between 0 1 (x + y) 2 finite_zero finite_one Fs finite_two) as (Fq & _ & Hq).
 { rewrite FR_two. lra. }
 { rewrite FR_two, FR_zero, FR_one. lra. }
 rewrite FR_zero, FR_one in Hq.
 split; [exact Fq|]. split; [apply R_leb0|apply R_leb1]; (assumption || lra).
Qed.

Lemma half_mean_range x y : finite x = true -> finite y = true ->
  (0 <=? x) = true -> (x <=? 1) = true -> (0 <=? y) = true -> (y <=? 1) = true ->
  (0 <=? (x + y) / 2) = true /\ ((x + y) / 2 <=? 1) = true.
Proof.
 intros Fx Fy X0 X1 Y0 Y1. apply (half_mean_range_fin x y Fx Fy X0 X1 Y0 Y1).
Qed.

(** a float between 0 and 1 (boolean comparisons) is finite *)
Lemma range01_finite x : (0 <=? x) = true -> (x <=? 1) = true -> finite x = true.
Proof.
 unfold finite. rewrite !leb_equiv.
 change 0 with zero. change 1 with one. rewrite zero_equiv, one_equiv, !Prim2B_B2Prim.
 destruct (Prim2B x) as [s|s| |s m e He]; try reflexivity.
 - destruct s; [intros H _|intros _ H]; discriminate H.
 - intros H _; discriminate H.
Qed.

(** F2 without the finiteness hypothesis *)
Lemma one_minus_range' x : (0 <=? x) = true -> (x <=? 1) = true ->
  (0 <=? 1 - x) = true /\ (1 - x <=? 1) = true.
Proof.
 intros H0 H1. apply (one_minus_range x (range01_finite x H0 H1) H0 H1).
Qed.
