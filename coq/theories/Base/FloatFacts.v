(** FloatFacts: machine-checked facts about Coq primitive binary64 floats
    (PrimFloat.float), obtained through Flocq 4.1's Prim2B bridge.

    After the imports below, bare [float] is Flocq's; always write [PrimFloat.float].
    Groups: (1) order laws on finite floats, (2) NaN comparisons, (3) threshold
    monotonicity with an arbitrary compared value, (4) quotient ranges,
    (5) exactness of integers below 2^53, (6) integer ratio ranges,
    (7) float midpoint. *)
From Coq Require Import ZArith Reals Lra Lia.
From Coq Require Import Floats.SpecFloat Floats.PrimFloat Floats.FloatAxioms Floats.FloatOps.
From Flocq Require Import Core.Core IEEE754.BinarySingleNaN IEEE754.PrimFloat.
Open Scope float_scope.
#[local] Instance Hprec53 : FLX.Prec_gt_0 53 := eq_refl _.
#[local] Instance Hmax1024 : Prec_lt_emax 53 1024 := eq_refl _.
#[local] Instance Vexp : Generic_fmt.Valid_exp (SpecFloat.fexp 53 1024) := fexp_correct 53 1024 Hprec53.

Definition finite (x : PrimFloat.float) : bool := is_finite (Prim2B x).
Definition FR (x : PrimFloat.float) : R := B2R (Prim2B x).
Definition Z2F (z : Z) : PrimFloat.float :=
  if (z <? 0)%Z then PrimFloat.opp (PrimFloat.of_uint63 (Uint63.of_Z (- z))) else PrimFloat.of_uint63 (Uint63.of_Z z).

Lemma ltb_R x y : finite x = true -> finite y = true -> (x <? y) = Rlt_bool (FR x) (FR y).
Proof. intros; rewrite ltb_equiv; now apply Bltb_correct. Qed.
Lemma leb_R x y : finite x = true -> finite y = true -> (x <=? y) = Rle_bool (FR x) (FR y).
Proof. intros; rewrite leb_equiv; now apply Bleb_correct. Qed.

Lemma ltb_trans x y z : finite x = true -> finite y = true -> finite z = true ->
  (x <? y) = true -> (y <? z) = true -> (x <? z) = true.
Proof.
 intros Fx Fy Fz. rewrite !ltb_R by assumption.
 do 3 case Rlt_bool_spec; intros; try easy; lra.
Qed.
Lemma ltb_total x y : finite x = true -> finite y = true -> (x <? y) = negb (y <=? x).
Proof.
 intros Fx Fy. rewrite ltb_R, leb_R by assumption.
 case Rlt_bool_spec; case Rle_bool_spec; intros; try easy; lra.
Qed.
Lemma leb_trans x y z : finite x = true -> finite y = true -> finite z = true ->
  (x <=? y) = true -> (y <=? z) = true -> (x <=? z) = true.
Proof.
 intros Fx Fy Fz. rewrite !leb_R by assumption.
 do 3 case Rle_bool_spec; intros; try easy; lra.
Qed.
Lemma leb_refl x : finite x = true -> (x <=? x) = true.
Proof.
 intros Fx. rewrite leb_R by assumption. apply Rle_bool_true. lra.
Qed.
Lemma ltb_irrefl (x : PrimFloat.float) : (x <? x) = false.
Proof.
 rewrite ltb_equiv. unfold Bltb, SFltb.
 destruct (Prim2B x) as [s|s| |s m e He]; simpl; try reflexivity.
 - now destruct s.
 - rewrite Z.compare_refl, Pos.compare_refl. now destruct s.
Qed.
Lemma ltb_leb_incompat x y : finite x = true -> finite y = true ->
  (x <? y) = true -> (y <=? x) = false.
Proof.
 intros Fx Fy. rewrite ltb_total by assumption.
 now destruct (y <=? x).
Qed.

(** NaN: every comparison involving a NaN is false *)
Lemma Prim2B_nan : Prim2B nan = B754_nan.
Proof. rewrite nan_equiv. apply Prim2B_B2Prim. Qed.

Lemma is_nan_Prim2B x : PrimFloat.is_nan x = true -> Prim2B x = B754_nan.
Proof.
 rewrite is_nan_equiv. destruct (Prim2B x); simpl; congruence.
Qed.

Lemma ltb_isnan_l x t : PrimFloat.is_nan x = true -> (x <? t) = false.
Proof. intros H. rewrite ltb_equiv, (is_nan_Prim2B x H). reflexivity. Qed.
Lemma ltb_isnan_r x t : PrimFloat.is_nan x = true -> (t <? x) = false.
Proof.
 intros H. rewrite ltb_equiv, (is_nan_Prim2B x H). unfold Bltb, SFltb.
 now destruct (Prim2B t).
Qed.
Lemma leb_isnan_l x t : PrimFloat.is_nan x = true -> (x <=? t) = false.
Proof. intros H. rewrite leb_equiv, (is_nan_Prim2B x H). reflexivity. Qed.
Lemma leb_isnan_r x t : PrimFloat.is_nan x = true -> (t <=? x) = false.
Proof.
 intros H. rewrite leb_equiv, (is_nan_Prim2B x H). unfold Bleb, SFleb.
 now destruct (Prim2B t).
Qed.
Lemma eqb_isnan_l x t : PrimFloat.is_nan x = true -> (x =? t) = false.
Proof. intros H. rewrite eqb_equiv, (is_nan_Prim2B x H). reflexivity. Qed.
Lemma eqb_isnan_r x t : PrimFloat.is_nan x = true -> (t =? x) = false.
Proof.
 intros H. rewrite eqb_equiv, (is_nan_Prim2B x H). unfold Beqb, SFeqb.
 now destruct (Prim2B t).
Qed.

Lemma is_nan_nan : PrimFloat.is_nan nan = true.
Proof. reflexivity. Qed.

Lemma ltb_nan_l x : (nan <? x) = false.
Proof. apply ltb_isnan_l, is_nan_nan. Qed.
Lemma ltb_nan_r x : (x <? nan) = false.
Proof. apply ltb_isnan_r, is_nan_nan. Qed.
Lemma leb_nan_l x : (nan <=? x) = false.
Proof. apply leb_isnan_l, is_nan_nan. Qed.
Lemma leb_nan_r x : (x <=? nan) = false.
Proof. apply leb_isnan_r, is_nan_nan. Qed.

Lemma finite_not_nan x : finite x = true -> PrimFloat.is_nan x = false.
Proof. unfold finite. rewrite is_nan_equiv. now destruct (Prim2B x). Qed.

(** Threshold monotonicity, x arbitrary *)
Lemma ltb_mono_thr t t' x : finite t = true -> finite t' = true ->
  (t <=? t') = true -> (t' <? x) = true -> (t <? x) = true.
Proof.
 intros Ft Ft' Htt'.
 destruct (is_finite (Prim2B x)) eqn:Fx.
 - fold (finite x) in Fx. revert Htt'. rewrite leb_R, !ltb_R by assumption.
   do 2 case Rlt_bool_spec; case Rle_bool_spec; intros; try easy; lra.
 - unfold finite in Ft, Ft'. rewrite !ltb_equiv. unfold Bltb, SFltb.
   destruct (Prim2B x) as [s|s| |s m e He]; try discriminate Fx;
   destruct (Prim2B t) as [st|st| |st mt et Het]; try discriminate Ft;
   destruct (Prim2B t') as [st'|st'| |st' mt' et' Het']; try discriminate Ft';
   simpl; try destruct s; auto.
Qed.
Lemma leb_mono_thr t t' x : finite t = true -> finite t' = true ->
  (t <=? t') = true -> (t' <=? x) = true -> (t <=? x) = true.
Proof.
 intros Ft Ft' Htt'.
 destruct (is_finite (Prim2B x)) eqn:Fx.
 - fold (finite x) in Fx. revert Htt'. rewrite !leb_R by assumption.
   do 3 case Rle_bool_spec; intros; try easy; lra.
 - unfold finite in Ft, Ft'. rewrite !leb_equiv. unfold Bleb, SFleb.
   destruct (Prim2B x) as [s|s| |s m e He]; try discriminate Fx;
   destruct (Prim2B t) as [st|st| |st mt et Het]; try discriminate Ft;
   destruct (Prim2B t') as [st'|st'| |st' mt' et' Het']; try discriminate Ft';
   simpl; try destruct s; auto.
Qed.

(** Rounding to binary64, round-to-nearest-even *)
Definition rnd64 (r : R) : R :=
  Generic_fmt.round radix2 (SpecFloat.fexp 53 1024) (round_mode mode_NE) r.

Lemma rnd64_le a b : (a <= b)%R -> (rnd64 a <= rnd64 b)%R.
Proof. intros H. apply Generic_fmt.round_le; try typeclasses eauto. exact H. Qed.
Lemma rnd64_id r : Generic_fmt.generic_format radix2 (SpecFloat.fexp 53 1024) r -> rnd64 r = r.
Proof. intros H. apply Generic_fmt.round_generic; try typeclasses eauto. exact H. Qed.
Lemma rnd64_FR x : rnd64 (FR x) = FR x.
Proof. apply rnd64_id. apply generic_format_B2R. Qed.
Lemma rnd64_0 : rnd64 0 = 0%R.
Proof. apply Generic_fmt.round_0. typeclasses eauto. Qed.

Lemma format64_FLT (m e : Z) : (Z.abs m < 2 ^ 53)%Z -> (-1074 <= e)%Z ->
  Generic_fmt.generic_format radix2 (SpecFloat.fexp 53 1024) (F2R (Float radix2 m e)).
Proof.
 intros Hm He.
 change (SpecFloat.fexp 53 1024) with (FLT_exp (-1074) 53).
 apply generic_format_FLT. exists (Float radix2 m e); auto.
Qed.

Lemma format64_IZR z : (Z.abs z < 2 ^ 53)%Z ->
  Generic_fmt.generic_format radix2 (SpecFloat.fexp 53 1024) (IZR z).
Proof.
 intros Hz. replace (IZR z) with (F2R (Float radix2 z 0)).
 - apply format64_FLT; [exact Hz | lia].
 - unfold F2R. simpl. ring.
Qed.

Lemma FR_zero : FR 0 = 0%R.
Proof. unfold FR; change 0 with zero; rewrite zero_equiv, Prim2B_B2Prim; reflexivity. Qed.
Lemma FR_one : FR 1 = 1%R.
Proof. unfold FR. change 1 with one. rewrite one_equiv, Prim2B_B2Prim. apply Bone_correct. Qed.
Lemma finite_zero : finite 0 = true.
Proof. reflexivity. Qed.
Lemma finite_one : finite 1 = true.
Proof. reflexivity. Qed.

(** Division whose exact quotient has magnitude at most 1: no overflow. *)
Lemma div_FR x y : finite x = true -> finite y = true -> FR y <> 0%R ->
  (Rabs (FR x / FR y) <= 1)%R ->
  finite (x / y) = true /\ FR (x / y) = rnd64 (FR x / FR y).
Proof.
 intros Fx Fy Hynz Hq.
 generalize (Bdiv_correct 53 1024 eq_refl eq_refl mode_NE (Prim2B x) (Prim2B y) Hynz).
 fold (FR x) (FR y). fold (rnd64 (FR x / FR y)).
 set (q := (FR x / FR y)%R) in *.
 assert (Hr : (Rabs (rnd64 q) <= 1)%R).
 { assert (Em1 : rnd64 (-1) = (-1)%R).
   { apply rnd64_id. change (-1)%R with (IZR (-1)). now apply format64_IZR. }
   assert (E1 : rnd64 1 = 1%R).
   { apply rnd64_id. now apply format64_IZR. }
   apply Rabs_le. apply Rabs_le_inv in Hq. split.
   - apply Rle_trans with (rnd64 (-1)); [rewrite Em1; apply Rle_refl|apply rnd64_le, Hq].
   - apply Rle_trans with (rnd64 1); [apply rnd64_le, Hq|rewrite E1; apply Rle_refl]. }
 rewrite Rlt_bool_true.
 2:{ apply Rle_lt_trans with 1%R. exact Hr. apply (bpow_lt radix2 0 1024). lia. }
 intros (Hv & Hfin & _). split.
 - unfold finite. rewrite div_equiv. etransitivity; [exact Hfin|exact Fx].
 - unfold FR. rewrite div_equiv. exact Hv.
Qed.

Lemma div_range0 x y : finite x = true -> finite y = true ->
  (0 <=? x) = true -> (0 <? y) = true -> (x <=? y) = true ->
  (0 <=? x / y) = true /\ (x / y <=? 1) = true.
Proof.
 intros Fx Fy Hx Hy Hxy.
 rewrite leb_R in Hx by (assumption || reflexivity).
 rewrite ltb_R in Hy by (assumption || reflexivity).
 rewrite leb_R in Hxy by assumption.
 revert Hx Hy Hxy. rewrite FR_zero.
 case Rle_bool_spec; try easy. intros Hx _.
 case Rlt_bool_spec; try easy. intros Hy _.
 case Rle_bool_spec; try easy. intros Hxy _.
 assert (Hq : (0 <= FR x / FR y <= 1)%R).
 { split.
   - apply Rmult_le_pos; [exact Hx|]. apply Rlt_le, Rinv_0_lt_compat, Hy.
   - apply Rmult_le_reg_r with (FR y); [lra|]. unfold Rdiv.
     rewrite Rmult_assoc, Rinv_l by lra. lra. }
 destruct (div_FR x y Fx Fy) as (Fq & Vq).
 { lra. }
 { rewrite Rabs_pos_eq; apply Hq. }
 rewrite !leb_R by (assumption || reflexivity).
 rewrite FR_zero, FR_one, Vq.
 split; apply Rle_bool_true.
 - rewrite <- rnd64_0. apply rnd64_le, Hq.
 - replace 1%R with (rnd64 1) by (apply rnd64_id; now apply format64_IZR).
   apply rnd64_le, Hq.
Qed.

Lemma div_range x y : finite x = true -> finite y = true ->
  (0 <? x) = true -> (x <=? y) = true ->
  (0 <=? x / y) = true /\ (x / y <=? 1) = true.
Proof.
 intros Fx Fy Hx Hxy.
 assert (H0x : (0 <=? x) = true).
 { revert Hx. rewrite ltb_R, leb_R by (assumption || reflexivity).
   case Rlt_bool_spec; try easy. intros H _. apply Rle_bool_true. lra. }
 assert (H0y : (0 <? y) = true).
 { revert Hx Hxy. rewrite !ltb_R, leb_R by (assumption || reflexivity).
   case Rlt_bool_spec; try easy. intros H _.
   case Rle_bool_spec; try easy. intros H' _. apply Rlt_bool_true. lra. }
 now apply div_range0.
Qed.

(** Symmetric corollary: the smaller over the larger of two positive finite floats. *)
Lemma div_range_minmax x y : finite x = true -> finite y = true ->
  (0 <? x) = true -> (0 <? y) = true ->
  let lo := if x <=? y then x else y in
  let hi := if x <=? y then y else x in
  (0 <=? lo / hi) = true /\ (lo / hi <=? 1) = true.
Proof.
 intros Fx Fy Hx Hy. simpl.
 destruct (x <=? y) eqn:Hxy.
 - now apply div_range.
 - apply div_range; try assumption.
   revert Hxy. rewrite !leb_R by assumption.
   do 2 case Rle_bool_spec; intros; try easy; lra.
Qed.

(** Small integers are exact *)
Lemma of_uint63_exact z : (0 <= z < 2 ^ 53)%Z ->
  finite (of_uint63 (Uint63.of_Z z)) = true /\ FR (of_uint63 (Uint63.of_Z z)) = IZR z.
Proof.
 intros Hz. unfold finite, FR. rewrite of_int63_equiv.
 rewrite Uint63.of_Z_spec. rewrite Z.mod_small.
 2:{ split; [lia|]. apply Z.lt_trans with (2 ^ 53)%Z; [lia|reflexivity]. }
 generalize (binary_normalize_correct 53 1024 Hprec Hmax mode_NE z 0 false).
 cbv zeta.
 replace (F2R (Float radix2 z 0)) with (IZR z) by (unfold F2R; simpl; ring).
 fold (rnd64 (IZR z)).
 assert (Hf : (Z.abs z < 2 ^ 53)%Z) by (rewrite Z.abs_eq; lia).
 rewrite (rnd64_id _ (format64_IZR z Hf)).
 rewrite Rlt_bool_true.
 - intros (Hv & Hfin & _). split; assumption.
 - rewrite <- abs_IZR. change (bpow radix2 1024) with (IZR (2 ^ 1024)).
   apply IZR_lt. apply Z.lt_trans with (2 ^ 53)%Z; [exact Hf|reflexivity].
Qed.

Lemma Z2F_exact z : (Z.abs z < 2 ^ 53)%Z ->
  finite (Z2F z) = true /\ FR (Z2F z) = IZR z.
Proof.
 intros Hz. unfold Z2F. destruct (Z.ltb_spec z 0) as [Hneg|Hpos].
 - destruct (of_uint63_exact (- z)) as (Hf & Hv); [lia|].
   unfold finite, FR in *. rewrite opp_equiv, is_finite_Bopp, B2R_Bopp, Hv, opp_IZR.
   split; [exact Hf|]. apply Ropp_involutive.
 - apply of_uint63_exact. lia.
Qed.

Lemma Z2F_ltb a b : (Z.abs a < 2 ^ 53)%Z -> (Z.abs b < 2 ^ 53)%Z ->
  (Z2F a <? Z2F b) = (a <? b)%Z.
Proof.
 intros Ha Hb.
 destruct (Z2F_exact a Ha) as (Fa & Va). destruct (Z2F_exact b Hb) as (Fb & Vb).
 rewrite ltb_R, Va, Vb by assumption.
 case Rlt_bool_spec; case Z.ltb_spec; intros H1 H2; try reflexivity.
 - apply lt_IZR in H2. lia.
 - apply IZR_lt in H1. lra.
Qed.
Lemma Z2F_leb a b : (Z.abs a < 2 ^ 53)%Z -> (Z.abs b < 2 ^ 53)%Z ->
  (Z2F a <=? Z2F b) = (a <=? b)%Z.
Proof.
 intros Ha Hb.
 destruct (Z2F_exact a Ha) as (Fa & Va). destruct (Z2F_exact b Hb) as (Fb & Vb).
 rewrite leb_R, Va, Vb by assumption.
 case Rle_bool_spec; case Z.leb_spec; intros H1 H2; try reflexivity.
 - apply le_IZR in H2. lia.
 - apply IZR_le in H1. lra.
Qed.

Lemma Z2F_0 : Z2F 0 = 0.
Proof. reflexivity. Qed.
Lemma Z2F_1 : Z2F 1 = 1.
Proof. reflexivity. Qed.

(** Integer ratios *)
Lemma ratio_range a b : (0 <= a <= b)%Z -> (0 < b < 2 ^ 53)%Z ->
  (0 <=? Z2F a / Z2F b) = true /\ (Z2F a / Z2F b <=? 1) = true.
Proof.
 intros Ha Hb.
 assert (Aa : (Z.abs a < 2 ^ 53)%Z) by (rewrite Z.abs_eq; lia).
 assert (Ab : (Z.abs b < 2 ^ 53)%Z) by (rewrite Z.abs_eq; lia).
 assert (A0 : (Z.abs 0 < 2 ^ 53)%Z) by reflexivity.
 destruct (Z2F_exact a Aa) as (Fa & _). destruct (Z2F_exact b Ab) as (Fb & _).
 apply div_range0; try assumption.
 - rewrite <- Z2F_0, Z2F_leb by assumption. apply Z.leb_le. lia.
 - rewrite <- Z2F_0, Z2F_ltb by assumption. apply Z.ltb_lt. lia.
 - rewrite Z2F_leb by assumption. apply Z.leb_le. lia.
Qed.

Lemma ratio_range_strict a b : (0 < a < b)%Z -> (b < 2 ^ 53)%Z ->
  (0 <? Z2F a / Z2F b) = true /\ (Z2F a / Z2F b <? 1) = true.
Proof.
 intros Ha Hb.
 assert (Aa : (Z.abs a < 2 ^ 53)%Z) by (rewrite Z.abs_eq; lia).
 assert (Ab : (Z.abs b < 2 ^ 53)%Z) by (rewrite Z.abs_eq; lia).
 destruct (Z2F_exact a Aa) as (Fa & Va). destruct (Z2F_exact b Ab) as (Fb & Vb).
 assert (Ra : (1 <= IZR a)%R) by (apply IZR_le; lia).
 assert (Rab : (IZR a + 1 <= IZR b)%R) by (rewrite <- plus_IZR; apply IZR_le; lia).
 assert (Rb : (IZR b <= IZR (2 ^ 53))%R) by (apply IZR_le; lia).
 assert (Rbpos : (0 < IZR b)%R) by lra.
 set (eps := (/ IZR (2 ^ 53))%R).
 assert (P53 : (0 < IZR (2 ^ 53))%R) by (apply IZR_lt; reflexivity).
 assert (Heps : (0 < eps)%R) by (apply Rinv_0_lt_compat, P53).
 assert (Hib : (eps <= / IZR b)%R) by (apply Rinv_le_contravar; assumption).
 assert (Hq : (eps <= IZR a / IZR b <= 1 - eps)%R).
 { split.
   - unfold Rdiv. apply Rle_trans with (1 * / IZR b)%R; [lra|].
     apply Rmult_le_compat_r; [|exact Ra]. apply Rlt_le, Rinv_0_lt_compat, Rbpos.
   - apply Rle_trans with ((IZR b - 1) / IZR b)%R.
     + unfold Rdiv. apply Rmult_le_compat_r; [|lra]. apply Rlt_le, Rinv_0_lt_compat, Rbpos.
     + unfold Rdiv. rewrite Rmult_minus_distr_r, Rinv_r by lra. lra. }
 assert (Geps : rnd64 eps = eps).
 { apply rnd64_id. replace eps with (F2R (Float radix2 1 (-53))).
   - apply format64_FLT; [reflexivity|lia].
   - unfold F2R, eps. simpl. lra. }
 assert (G1eps : rnd64 (1 - eps) = (1 - eps)%R).
 { apply rnd64_id. replace (1 - eps)%R with (F2R (Float radix2 (2 ^ 53 - 1) (-53))).
   - apply format64_FLT; [reflexivity|lia].
   - unfold F2R, eps. cbn [Fnum Fexp bpow]. rewrite minus_IZR.
     change (IZR (Z.pow_pos radix2 53)) with (IZR (2 ^ 53)). field. lra. }
 destruct (div_FR (Z2F a) (Z2F b) Fa Fb) as (Fq & Vq).
 { rewrite Vb. lra. }
 { rewrite Va, Vb. rewrite Rabs_pos_eq; lra. }
 rewrite Va, Vb in Vq.
 rewrite !ltb_R by (assumption || reflexivity).
 rewrite FR_zero, FR_one, Vq.
 split; apply Rlt_bool_true.
 - apply Rlt_le_trans with eps; [exact Heps|]. rewrite <- Geps. apply rnd64_le, Hq.
 - apply Rle_lt_trans with (1 - eps)%R; [|lra]. rewrite <- G1eps. apply rnd64_le, Hq.
Qed.

(** Addition / midpoint *)
Lemma add_FR_fin x y : finite x = true -> finite y = true -> finite (x + y) = true ->
  FR (x + y) = rnd64 (FR x + FR y).
Proof.
 intros Fx Fy Fs. unfold finite, FR in *. rewrite add_equiv in *.
 generalize (Bplus_correct _ _ Hprec Hmax mode_NE (Prim2B x) (Prim2B y) Fx Fy).
 case Rlt_bool_spec; intros _.
 - intros (Hv & _). exact Hv.
 - intros (Hov & _). exfalso. revert Hov Fs.
   unfold binary_overflow. cbn [overflow_to_inf].
   destruct (Bplus mode_NE (Prim2B x) (Prim2B y)); simpl; intros Hov Fs; discriminate.
Qed.

Lemma format64_double r :
  Generic_fmt.generic_format radix2 (SpecFloat.fexp 53 1024) r ->
  Generic_fmt.generic_format radix2 (SpecFloat.fexp 53 1024) (2 * r).
Proof.
 intros H. change (SpecFloat.fexp 53 1024) with (FLT_exp (-1074) 53) in H.
 apply FLT_format_generic in H; [|exact Hprec53].
 destruct H as [[m e] Hr Hm He]. simpl in Hm, He.
 replace (2 * r)%R with (F2R (Float radix2 m (e + 1))).
 - apply format64_FLT; [exact Hm|lia].
 - rewrite Hr. unfold F2R. cbn [Fnum Fexp]. rewrite bpow_plus.
   change (bpow radix2 1) with 2%R. ring.
Qed.

Lemma FR_two : FR 2 = 2%R.
Proof.
 unfold FR, Prim2B. rewrite B2R_SF2B.
 assert (E : Prim2SF 2 = S754_finite false 4503599627370496 (-51)) by reflexivity.
 rewrite E. unfold SF2R, F2R. simpl. lra.
Qed.
Lemma finite_two : finite 2 = true.
Proof. reflexivity. Qed.

Lemma div_FR_between lo hi x y :
  finite lo = true -> finite hi = true -> finite x = true -> finite y = true ->
  FR y <> 0%R -> (FR lo <= FR x / FR y <= FR hi)%R ->
  finite (x / y) = true /\ FR (x / y) = rnd64 (FR x / FR y) /\
  (FR lo <= FR (x / y) <= FR hi)%R.
Proof.
 intros Flo Fhi Fx Fy Hynz Hq.
 generalize (Bdiv_correct 53 1024 eq_refl eq_refl mode_NE (Prim2B x) (Prim2B y) Hynz).
 fold (FR x) (FR y). fold (rnd64 (FR x / FR y)).
 set (q := (FR x / FR y)%R) in *.
 assert (Hr : (FR lo <= rnd64 q <= FR hi)%R).
 { split.
   - rewrite <- (rnd64_FR lo). apply rnd64_le, Hq.
   - rewrite <- (rnd64_FR hi). apply rnd64_le, Hq. }
 assert (Hb : (Rabs (rnd64 q) < bpow radix2 1024)%R).
 { assert (Blo : (Rabs (FR lo) < bpow radix2 1024)%R) by apply abs_B2R_lt_emax.
   assert (Bhi : (Rabs (FR hi) < bpow radix2 1024)%R) by apply abs_B2R_lt_emax.
   apply Rabs_def2 in Blo. apply Rabs_def2 in Bhi. apply Rabs_def1; lra. }
 rewrite Rlt_bool_true by exact Hb.
 intros (Hv & Hfin & _).
 assert (Vq : FR (x / y) = rnd64 q) by (unfold FR; rewrite div_equiv; exact Hv).
 split; [|split].
 - unfold finite. rewrite div_equiv. etransitivity; [exact Hfin|exact Fx].
 - exact Vq.
 - rewrite Vq. exact Hr.
Qed.

(** The float midpoint lies between its arguments, provided the sum does not overflow. *)
Lemma half_sum_between x y : finite x = true -> finite y = true ->
  finite (x + y) = true -> (x <=? y) = true ->
  finite ((x + y) / 2) = true /\
  (x <=? (x + y) / 2) = true /\ ((x + y) / 2 <=? y) = true.
Proof.
 intros Fx Fy Fs Hxy.
 rewrite leb_R in Hxy by assumption. revert Hxy.
 case Rle_bool_spec; try easy. intros Hxy _.
 assert (Vs := add_FR_fin x y Fx Fy Fs).
 assert (Hs : (2 * FR x <= FR (x + y) <= 2 * FR y)%R).
 { rewrite Vs. split.
   - rewrite <- (rnd64_id (2 * FR x)).
     + apply rnd64_le. lra.
     + apply format64_double, generic_format_B2R.
   - rewrite <- (rnd64_id (2 * FR y)).
     + apply rnd64_le. lra.
     + apply format64_double, generic_format_B2R. }
 destruct (div_FR_between x y (x + y) 2 Fx Fy Fs finite_two) as (Fq & _ & Hq).
 { rewrite FR_two. lra. }
 { rewrite FR_two. lra. }
 split; [exact Fq|].
 rewrite !leb_R by assumption.
 split; apply Rle_bool_true; apply Hq.
Qed.
