(* Light-weight float helpers used by the executable models (no Reals, no Flocq). *)
From Coq Require Import List Bool ZArith Floats.PrimFloat Uint63.
Import ListNotations.

(* int64 -> float64 conversion as numpy does it; exact for |z| < 2^53 (FloatFacts.Z2F_exact;
   FloatFacts.Z2F is the same term) *)
Definition Z2F (z : Z) : float :=
  if (z <? 0)%Z then PrimFloat.opp (PrimFloat.of_uint63 (Uint63.of_Z (- z))) else PrimFloat.of_uint63 (Uint63.of_Z z).

Definition fnan : float := nan.
Definition isnan (x : float) : bool := negb (x =? x)%float.

(* np.min([a, b]) / np.max([a, b]): NaN-propagating *)
Definition fmin2 (a b : float) : float :=
  if isnan a then a else if isnan b then b else if (b <? a)%float then b else a.
Definition fmax2 (a b : float) : float :=
  if isnan a then a else if isnan b then b else if (a <? b)%float then b else a.
(* np.nanmin: ignore NaN; NaN when everything is NaN *)
Fixpoint nanmin (l : list float) : float :=
  match l with
  | [] => fnan
  | x :: t => let r := nanmin t in
              if isnan x then r else if isnan r then x else if (r <? x)%float then r else x
  end.
Definition ratio_minmax (a b : float) : float := (fmin2 a b / fmax2 a b)%float.

Fixpoint fsum (l : list float) : float :=
  match l with [] => 0%float | x :: t => (x + fsum t)%float end.
Definition fsum_left (l : list float) : float := fold_left (fun a x => (a + x)%float) l 0%float.
Definition fmean (l : list float) : float := (fsum_left l / Z2F (Z.of_nat (length l)))%float.

(* comparison used by the correspondence for derived float cells: identical, both NaN,
   or within 1e-9 relative (a semantics-preserving rewrite must not raise an alarm) *)
Definition fexact (a b : float) : bool := (isnan a && isnan b) || (a =? b)%float.
Definition fclose (a b : float) : bool :=
  fexact a b ||
  (let d := abs (a - b) in
   let m := if (abs a <? abs b)%float then abs b else abs a in
   (d <=? 0x1.12e0be826d695p-30 * m)%float).

Fixpoint fcount_exact (l1 l2 : list float) : nat :=
  match l1, l2 with
  | x :: t, y :: u => (if fexact x y then 1 else 0) + fcount_exact t u
  | _, _ => 0
  end.
