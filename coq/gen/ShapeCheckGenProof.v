(* The function text of /repo/bycycle/group/utils.py:check_kwargs_shape, translated to Gallina on this
   run (Gen.ShapeCheckGen, written by harness/translate.py), IS the decision table of Model/Validate.v:
   for every shape of the signals, every form of the option argument that reaches the function and
   every axis value.  Statements and proofs are fixed; only the generated definition changes with the
   source.  Compiled on every run of C19 (not part of the library build, so that a change of that one
   function cannot break the build of the other properties). *)
From Coq Require Import List Bool Arith.
Import ListNotations.
From ByC Require Import Base.Result Model.PyVal Model.Validate Proofs.Validate.
From Gen Require Import ShapeCheckGen.

(* how the arguments of the model are Python values *)
Definition enc_sigs (s : sigdims) (len : nat) : pv :=
  match s with D2 n0 => VArr [n0; len] | D3 n0 n1 => VArr [n0; n1; len] end.
Definition enc_kw (k : kwshape) (e0 e1 e2 : nat) : pv :=
  match k with
  | KNone => VNone | KDict => VDict
  | K1 d0 => VArr [d0] | K2 d0 d1 => VArr [d0; d1] | K3 => VArr [e0; e1; e2]
  | KRagged => VErr EValue          (* np.array(list) fails in the caller; never reaches the function *)
  end.
Definition axis_of (v : pv) : axis :=
  match v with
  | VInt 0 => Ax0 | VInt 1 => Ax1 | VNone => AxNone
  | VTup [VInt 0; VInt 1] => Ax01
  | _ => AxOther
  end.
Definition enc_axis (a : axis) (o : pv) : pv :=
  match a with Ax0 => VInt 0 | Ax1 => VInt 1 | Ax01 => VTup [VInt 0; VInt 1] | AxNone => VNone | AxOther => o end.
Definition outcome (b : bool) : result unit := if b then Ok tt else Err EValue.

Lemma other_axis_facts o : axis_of o = AxOther -> poisoned o = None ->
  t_eq o (VInt 0) = Ok false /\ t_eq o (VInt 1) = Ok false /\ t_eq o VNone = Ok false /\
  t_eq o (VTup [VInt 0; VInt 1]) = Ok false.
Proof.
  intros Ha Hp. destruct o as [|n|l| | |sh|e]; try discriminate Hp; try discriminate Ha; cbn; auto.
  - destruct n as [|[|n]]; try discriminate Ha. cbn. auto.
  - repeat split; try reflexivity. unfold t_eq; cbn [poisoned]. f_equal.
    destruct l as [|x [|y [|z l]]]; cbn; rewrite ?andb_false_r; try reflexivity.
    destruct x as [|[|n]| | | | |]; try reflexivity; destruct y as [|[|[|m]]| | | | |]; try reflexivity;
      discriminate Ha.
Qed.

Lemma t_in_base o : poisoned o = None ->
  match o with VErr e => Err e | _ => @Ok bool false end = Ok false.
Proof. destruct o; try reflexivity; discriminate. Qed.

Lemma other_axis_in o : axis_of o = AxOther -> poisoned o = None ->
  t_in o [VInt 0; VNone] = Ok false /\ t_in o [VInt 0; VInt 1; VTup [VInt 0; VInt 1]] = Ok false.
Proof.
  intros Ha Hp. destruct (other_axis_facts o Ha Hp) as (H0 & H1 & HN & H01).
  split; cbn [t_in]; rewrite ?H0, ?H1, ?HN, ?H01; apply t_in_base; exact Hp.
Qed.

Local Arguments t_eq !a !b /.
Local Arguments t_in !a l /.

Theorem translated_check_kwargs_shape_is_the_decision_table :
  forall s k a o len e0 e1 e2, k <> KRagged -> axis_of o = AxOther -> poisoned o = None ->
  check_kwargs_shape_gen (enc_sigs s len) (enc_kw k e0 e1 e2) (enc_axis a o)
  = outcome (check_kwargs_shape s k a).
Proof.
  intros s k a o len e0 e1 e2 Hk Ha Hp.
  destruct (other_axis_facts o Ha Hp) as (H0 & H1 & HN & H01).
  destruct (other_axis_in o Ha Hp) as (HI1 & HI2).
  unfold check_kwargs_shape_gen, t_not_in, t_ne, t_is_not_none, t_not.
  destruct k as [| |d0|d0 d1| |]; try (exfalso; apply Hk; reflexivity);
    destruct s as [n0|n0 n1]; destruct a; cbn;
    rewrite ?H0, ?H1, ?HN, ?H01, ?HI1, ?HI2; cbn;
    repeat match goal with |- context [Nat.eqb ?x ?y] => destruct (Nat.eqb x y) eqn:?; cbn end;
    rewrite ?H0, ?H1, ?HN, ?H01, ?HI1, ?HI2; cbn; try reflexivity.
Qed.
Print Assumptions translated_check_kwargs_shape_is_the_decision_table.

(* every axis value is one of the five classes of the model *)
Theorem every_axis_value_is_encoded : forall v, poisoned v = None ->
  exists a o, v = enc_axis a o /\ (a = AxOther -> axis_of o = AxOther /\ poisoned o = None).
Proof.
  intros v Hp. exists (axis_of v), v. split.
  - destruct v as [|[|[|n]]|l| | |sh|e]; try reflexivity.
    destruct l as [|x [|y [|z l]]]; try reflexivity;
      destruct x as [|[|n]| | | | |]; try reflexivity; destruct y as [|[|[|m]]| | | | |]; reflexivity.
  - intros H. split; assumption.
Qed.
Print Assumptions every_axis_value_is_encoded.

(* the documented table, read off the translated source: together with the axis test of the entry
   points (axis_ok), the current source accepts exactly the documented combinations *)
Theorem translated_source_accepts_exactly_documented :
  forall s k a o len e0 e1 e2, k <> KRagged -> k <> K3 -> axis_of o = AxOther -> poisoned o = None ->
  (check_kwargs_shape_gen (enc_sigs s len) (enc_kw k e0 e1 e2) (enc_axis a o) = Ok tt /\ axis_ok s a = true)
  <-> documented_valid s k a.
Proof.
  intros s k a o len e0 e1 e2 Hk Hk3 Ha Hp.
  rewrite (translated_check_kwargs_shape_is_the_decision_table s k a o len e0 e1 e2 Hk Ha Hp).
  rewrite <- group_accepts_iff. unfold group_accepts, outcome.
  destruct (check_kwargs_shape s k a); destruct (axis_ok s a); cbn; intuition discriminate.
Qed.
Print Assumptions translated_source_accepts_exactly_documented.
