(* The function text of /repo/bycycle/utils/timeseries.py:limit_signal, translated to Gallina on this run
   (Gen.LimitSignalGen, written by harness/translate.py), IS the model `limit_signal` of Model/Window.v
   on every pair of equally long arrays and every pair of optional limits; the window rule of C18 is
   restated on the translated source.  Statements and proofs are fixed; only the generated definition
   changes with the source. *)
From Coq Require Import List Bool Arith Floats.PrimFloat.
Import ListNotations.
From ByC Require Import Base.Result Model.Window Model.PyFlt Proofs.Window.
From Gen Require Import LimitSignalGen.

Lemma sel_map {A} (f : A -> float) (p : float -> bool) (g : A -> float) (tv : list A) :
  map fst (filter snd (combine (map f tv) (map p (map g tv))))
  = map f (filter (fun x => p (g x)) tv).
Proof.
  induction tv as [|x t IH]; [reflexivity|].
  cbn [map combine filter snd]. destruct (p (g x)); cbn [map fst]; rewrite IH; reflexivity.
Qed.

Lemma mask_pairs {A} (f g : A -> float) (p : float -> bool) (tv : list A) :
  f_mask (map f tv) (map p (map g tv)) = Ok (map f (filter (fun x => p (g x)) tv)).
Proof.
  unfold f_mask. rewrite !map_length, Nat.eqb_refl. f_equal. apply sel_map.
Qed.

Definition as_arrays (l : list (float * float)) : list float * list float := (map snd l, map fst l).

Theorem translated_limit_signal_is_the_model : forall tv start stop,
  limit_signal_gen (map fst tv) (map snd tv) start stop = rmap as_arrays (limit_signal tv start stop).
Proof.
  intros tv start stop. unfold limit_signal_gen, limit_signal, limits_ok, f_in_range, f_ge_scalar, f_lt_scalar.
  destruct start as [a|]; destruct stop as [b|]; cbn [negb andb].
  - destruct (in_range a 0 b); cbn [negb andb]; [|reflexivity].
    destruct (in_range b a infinity); cbn [negb]; [|reflexivity].
    rewrite (mask_pairs snd fst (fun t => (a <=? t)%float) tv). cbn [bind].
    rewrite (mask_pairs fst fst (fun t => (a <=? t)%float) tv). cbn [bind].
    rewrite (mask_pairs snd fst (fun t => (t <? b)%float)). cbn [bind].
    rewrite (mask_pairs fst fst (fun t => (t <? b)%float)). cbn [bind]. reflexivity.
  - destruct (in_range a 0 infinity); cbn [negb]; [|reflexivity].
    rewrite (mask_pairs snd fst (fun t => (a <=? t)%float) tv). cbn [bind].
    rewrite (mask_pairs fst fst (fun t => (a <=? t)%float) tv). cbn [bind]. reflexivity.
  - destruct (in_range b 0 infinity); cbn [negb]; [|reflexivity].
    rewrite (mask_pairs snd fst (fun t => (t <? b)%float) tv). cbn [bind].
    rewrite (mask_pairs fst fst (fun t => (t <? b)%float) tv). cbn [bind]. reflexivity.
  - reflexivity.
Qed.
Print Assumptions translated_limit_signal_is_the_model.

(* the window rule, read off the translated source: an accepted call returns exactly the samples with
   start <= t < stop (a missing limit does not restrict), values and time stamps of the same samples *)
Theorem translated_source_returns_exactly_the_window : forall tv start stop sig times,
  limit_signal_gen (map fst tv) (map snd tv) start stop = Ok (sig, times) ->
  let inside := fun x : float * float =>
    (match start with Some a => (a <=? fst x)%float | None => true end) &&
    (match stop with Some b => (fst x <? b)%float | None => true end) in
  sig = map snd (filter inside tv) /\ times = map fst (filter inside tv).
Proof.
  intros tv start stop sig times H. rewrite translated_limit_signal_is_the_model in H.
  destruct (limit_signal tv start stop) as [out|e] eqn:E; [|discriminate H].
  apply limit_signal_spec in E. cbn [rmap] in H. unfold as_arrays in H. injection H as <- <-.
  subst out. split; reflexivity.
Qed.
Print Assumptions translated_source_returns_exactly_the_window.

(* limits are refused exactly when the model refuses them *)
Theorem translated_source_refuses_exactly_invalid_limits : forall tv start stop,
  (exists r, limit_signal_gen (map fst tv) (map snd tv) start stop = Ok r) <-> limits_ok start stop = true.
Proof.
  intros tv start stop. rewrite translated_limit_signal_is_the_model. unfold limit_signal.
  destruct (limits_ok start stop); cbn [negb rmap]; split.
  - reflexivity.
  - intros _. eexists; reflexivity.
  - intros [r H]; discriminate H.
  - discriminate.
Qed.
Print Assumptions translated_source_refuses_exactly_invalid_limits.
