(* The function text of /repo/bycycle/burst/utils.py:check_min_burst_cycles, translated to Gallina on
   this run (Gen.RunFilterGen, written by harness/translate.py), IS the code-shaped model of
   Model/TableRuns.v and therefore the one-pass run filter that the C08 theorems are about, for every
   container, array and count.  Statements and proofs are fixed; only the generated definition
   changes with the source. *)
From Coq Require Import List Bool Arith ZArith Lia.
Import ListNotations.
From ByC Require Import Base.Result Model.Runs Model.TableRuns Model.PyArr Proofs.Runs Proofs.RunsCode.
From Gen Require Import RunFilterGen.

Lemma flatnonzero_z_diff l : forall i prev,
  flatnonzero_z i (diff_from (b2z prev) (map b2z l ++ [0%Z])) = flatnonzero i (diff_pad prev l).
Proof.
  induction l as [|x t IH]; intros i prev.
  - destruct prev; reflexivity.
  - cbn [map app diff_from flatnonzero_z diff_pad flatnonzero]. rewrite IH.
    destruct prev, x; reflexivity.
Qed.

Lemma step2_tail b t : step2 (b :: t) = b :: step2 (skipn 1 t).
Proof. destruct t; reflexivity. Qed.

Lemma combine_step2_pairs_n n : forall tr, length tr <= n ->
  combine (step2 tr) (step2 (skipn 1 tr)) = pairs tr.
Proof.
  induction n as [|n IH]; intros tr Hn.
  - destruct tr; [reflexivity | cbn in Hn; lia].
  - destruct tr as [|a [|b t]]; try reflexivity.
    change (skipn 1 (a :: b :: t)) with (b :: t).
    change (step2 (a :: b :: t)) with (a :: step2 t).
    rewrite step2_tail. cbn [combine pairs]. f_equal.
    destruct n as [|n]; [cbn in Hn; lia|].
    assert (H : length t <= n) by (cbn in Hn; lia).
    destruct t as [|c t']; [reflexivity|].
    apply IH. cbn in *. lia.
Qed.
Lemma combine_step2_pairs tr : combine (step2 tr) (step2 (skipn 1 tr)) = pairs tr.
Proof. apply (combine_step2_pairs_n (length tr)). lia. Qed.

Lemma step2_lengths_n n : forall tr, length tr <= n -> Nat.even (length tr) = true ->
  length (step2 (skipn 1 tr)) = length (step2 tr).
Proof.
  induction n as [|n IH]; intros tr Hn He.
  - destruct tr; [reflexivity | cbn in Hn; lia].
  - destruct tr as [|a [|b t]]; try reflexivity; try discriminate He.
    change (skipn 1 (a :: b :: t)) with (b :: t).
    change (step2 (a :: b :: t)) with (a :: step2 t).
    rewrite step2_tail. cbn [length]. f_equal.
    apply IH; [cbn in Hn; lia | exact He].
Qed.
Lemma step2_lengths tr : Nat.even (length tr) = true ->
  length (step2 (skipn 1 tr)) = length (step2 tr).
Proof. apply (step2_lengths_n (length tr)). lia. Qed.

Lemma clear_noop a b (l : list bool) : b <= a -> clear_slice a b l = l.
Proof.
  intros H. unfold clear_slice.
  replace (Nat.min b (length l) - a) with 0 by lia.
  replace (Nat.max a b) with a by lia. cbn [repeat app]. apply firstn_skipn.
Qed.

Definition body (acc : list bool) (it : nat * nat) : list bool :=
  let '(on, off) := it in py_setslice_false acc on off.
Definition mask_of (n : Z) (ons offs : list nat) : list bool :=
  np_lt_scalar (map (fun p => (Z.of_nat (fst p) - Z.of_nat (snd p))%Z) (combine offs ons)) n.
Definition sel (a : list nat) (m : list bool) : list nat := map fst (filter snd (combine a m)).

Lemma fold_masked n ons : (0 <= n)%Z -> forall offs l, length offs = length ons ->
  fold_left body (combine (sel ons (mask_of n ons offs)) (sel offs (mask_of n ons offs))) l
  = fold_left (step (Z.to_nat n)) (combine ons offs) l.
Proof.
  intros Hn. induction ons as [|a ons IH]; intros offs l Hl.
  - destruct offs; [reflexivity | discriminate Hl].
  - destruct offs as [|b offs]; [discriminate Hl|]. injection Hl as Hl.
    unfold mask_of, np_lt_scalar, sel in *. cbn [combine map fst snd filter].
    destruct (Z.of_nat b - Z.of_nat a <? n)%Z eqn:Hc; cbn [snd filter map fst combine fold_left].
    + rewrite (IH offs _ Hl). f_equal. unfold step, body, py_setslice_false. cbn [fst snd].
      destruct (b - a <? Z.to_nat n) eqn:Hd; [reflexivity|].
      apply Nat.ltb_ge in Hd. apply Z.ltb_lt in Hc. apply clear_noop. lia.
    + rewrite (IH offs _ Hl). f_equal. unfold step. cbn [fst snd].
      apply Z.ltb_ge in Hc. destruct (b - a <? Z.to_nat n) eqn:Hd; [|reflexivity].
      apply Nat.ltb_lt in Hd. lia.
Qed.

Lemma mask_length n ons offs : length offs = length ons -> length (mask_of n ons offs) = length ons.
Proof.
  intros H. unfold mask_of, np_lt_scalar. rewrite !map_length, combine_length. lia.
Qed.

Theorem translated_check_min_burst_cycles_is_the_code_shaped_model : forall k l n,
  check_min_burst_cycles_gen k l n = check_min_burst_cycles_code k l n.
Proof.
  intros k l n. destruct k; [|reflexivity].
  destruct l as [|x t]; [reflexivity|].
  unfold check_min_burst_cycles_gen, check_min_burst_cycles_code, check_min_with.
  cbn [a_is_ndarray negb length Nat.eqb]. unfold a_range_0_inf.
  rewrite Z.leb_antisym, negb_involutive.
  destruct (n <? 0)%Z eqn:Hn; [reflexivity|]. apply Z.ltb_ge in Hn.
  set (l := x :: t).
  assert (Htr : np_flatnonzero (np_diff_bool l 0 0) = trans 0 false l).
  { unfold np_flatnonzero, np_diff_bool, trans. apply (flatnonzero_z_diff l 0 false). }
  rewrite Htr. set (tr := trans 0 false l).
  assert (He : Nat.even (length tr) = true) by apply transitions_even.
  unfold py_slice_from_step2. change (skipn 0 tr) with tr.
  assert (Hlen : length (step2 (skipn 1 tr)) = length (step2 tr)) by (apply step2_lengths; exact He).
  unfold np_sub_idx. rewrite Hlen, Nat.eqb_refl. cbn [bind].
  fold (mask_of n (step2 tr) (step2 (skipn 1 tr))).
  unfold np_mask. rewrite (mask_length n _ _ Hlen), Hlen, !Nat.eqb_refl. cbn [bind].
  fold (sel (step2 tr) (mask_of n (step2 tr) (step2 (skipn 1 tr)))).
  fold (sel (step2 (skipn 1 tr)) (mask_of n (step2 tr) (step2 (skipn 1 tr)))).
  f_equal. rewrite minrun_code_unfold. change (trans 0 false (x :: t)) with tr.
  change (trans 0 false l) with tr.
  rewrite <- (combine_step2_pairs tr).
  exact (fold_masked n (step2 tr) Hn _ l Hlen).
Qed.
Print Assumptions translated_check_min_burst_cycles_is_the_code_shaped_model.

(* ... and therefore the one-pass filter of the C08 theorems, behind the argument checks *)
Theorem translated_check_min_burst_cycles_is_the_run_filter : forall k l n,
  check_min_burst_cycles_gen k l n = check_min_burst_cycles k l n.
Proof.
  intros k l n. rewrite translated_check_min_burst_cycles_is_the_code_shaped_model.
  unfold check_min_burst_cycles_code, check_min_burst_cycles, check_min_with.
  destruct k; [|reflexivity]. destruct l; [reflexivity|].
  destruct (n <? 0)%Z; [reflexivity|]. rewrite minrun_code_eq. reflexivity.
Qed.
Print Assumptions translated_check_min_burst_cycles_is_the_run_filter.

(* the property, read off the translated source: an accepted call keeps exactly the cycles that lie in
   an all-True window of at least min_n_cycles cycles *)
Theorem translated_source_keeps_exactly_the_long_runs : forall l n i, l <> [] -> (0 <= n)%Z ->
  exists r, check_min_burst_cycles_gen NdArray l n = Ok r /\ length r = length l /\
            (nth i r false = true <-> window l (Z.to_nat n) i).
Proof.
  intros l n i Hl Hn. rewrite translated_check_min_burst_cycles_is_the_run_filter.
  unfold check_min_burst_cycles, check_min_with. destruct l as [|x t]; [contradiction|].
  replace (n <? 0)%Z with false by (symmetry; apply Z.ltb_ge; exact Hn).
  eexists; split; [reflexivity|]. split; [apply minrun_length | apply minrun_spec].
Qed.
Print Assumptions translated_source_keeps_exactly_the_long_runs.

(* the argument checks, read off the translated source: a list is refused, the empty array is returned
   before the count is looked at, a negative count is refused for every non-empty array *)
Theorem translated_source_argument_checks : forall l n,
  check_min_burst_cycles_gen PyList l n = Err EValue /\
  check_min_burst_cycles_gen NdArray [] n = Ok [] /\
  (l <> [] -> (n < 0)%Z -> check_min_burst_cycles_gen NdArray l n = Err EValue).
Proof.
  intros l n. rewrite !translated_check_min_burst_cycles_is_the_run_filter.
  unfold check_min_burst_cycles, check_min_with. repeat split.
  intros Hl Hn. destruct l as [|x t]; [contradiction|].
  replace (n <? 0)%Z with true by (symmetry; apply Z.ltb_lt; exact Hn). reflexivity.
Qed.
Print Assumptions translated_source_argument_checks.

(* no cycle is ever switched on, whatever the count *)
Theorem translated_source_never_adds_a_label : forall l n r i,
  check_min_burst_cycles_gen NdArray l n = Ok r -> nth i r false = true -> nth i l false = true.
Proof.
  intros l n r i. rewrite translated_check_min_burst_cycles_is_the_run_filter.
  unfold check_min_burst_cycles, check_min_with. destruct l as [|x t].
  - intros H; injection H as <-. destruct i; discriminate.
  - destruct (n <? 0)%Z; [discriminate|]. intros H; injection H as <-. apply minrun_le.
Qed.
Print Assumptions translated_source_never_adds_a_label.
