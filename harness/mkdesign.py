"""Regenerate the generated appendices of /verif/DESIGN.md (theorem inventory, seeded-change table).
Dev-time helper; the hand-written body above the marker is left untouched."""
import glob, json, os, re

MARK = '<!-- GENERATED APPENDICES BELOW: harness/mkdesign.py -->'


def theorems():
    out = ['## Appendix T — theorem inventory (generated from coq/theories/Props/*.v)\n',
           'Every line is a `Theorem` whose proof is `exact <lemma>` (or a two-line unfolding) followed by '
           '`Print Assumptions`; the axioms each one depends on are re-read on every run and written to '
           '`evidence/<id>.json` (`coverage.trusted_base`).\n']
    for path in sorted(glob.glob('/verif/coq/theories/Props/C*.v')):
        src = open(path).read()
        names = re.findall(r'^Theorem\s+(\w+)', src, flags=re.M)
        pid = os.path.basename(path)[:-2]
        out.append('* **%s** (%d): %s' % (pid, len(names), ', '.join('`%s`' % n for n in names)))
    for path in sorted(glob.glob('/verif/coq/gen/*Proof.v')):
        src = re.sub(r'\(\*.*?\*\)', '', open(path).read(), flags=re.S)
        names = re.findall(r'^Theorem\s+(\w+)', src, flags=re.M)
        out.append('* **coq/gen/%s** (%d; about the definition regenerated from /repo on every run, section 1.3): %s'
                   % (os.path.basename(path), len(names), ', '.join('`%s`' % n for n in names)))
    n_proofs = 0
    n_lines = 0
    for path in glob.glob('/verif/coq/theories/**/*.v', recursive=True) + glob.glob('/verif/coq/gen/*.v'):
        s = open(path).read()
        n_proofs += len(re.findall(r'\bQed\.', s))
        n_lines += s.count('\n')
    out.append('\nDevelopment size: %d lines of Coq, %d `Qed`s, 0 `Admitted` / `Axiom` / `Parameter` (checked on every run by `harness/core.py:hygiene`).\n' % (n_lines, n_proofs))
    return '\n'.join(out)


def seeded():
    rows = []
    n_first = n_now = n = 0
    for path in sorted(glob.glob('/verif/seeded/*/meta.json')):
        m = json.load(open(path))
        h = m.get('history', '') or ''
        missed_first = ('did NOT' in h) or ('missed' in h.lower() and 'Regression note' not in h[:20]) or not (m.get('caught_by') or 'did NOT' in h or m.get('recheck'))
        missed_first = ('did NOT' in h) or (not m.get('caught_by') and 'First run' in h)
        rc = m.get('recheck') or {}
        now = rc.get('caught')
        if now is None:
            now = bool(m.get('caught_by'))
        kind = ''
        if now:
            kind = 'no-failing-input-found only' if rc.get('no_failing_input') else 'failing input'
        n += 1
        n_first += 0 if missed_first else 1
        n_now += 1 if (now and not m.get('obsolete')) else 0
        n_obs = locals().get('n_obs', 0) + (1 if m.get('obsolete') else 0)
        if m.get('obsolete'):
            now = True
        rows.append('| %s | %s | %s | %s | %s | %s |' % (m['name'], m['property'], 'yes' if m.get('confirmed') else 'NO',
                                                      'missed' if missed_first else 'caught',
                                                      m['obsolete'] if m.get('obsolete') else ('caught (%s)' % kind) if now else '**missed**',
                                                      (rc.get('at') or m.get('verified_at') or '')[:10]))
    head = ['## Appendix S — seeded-change study (generated from seeded/*/meta.json)\n',
            'Each change was written by a fresh sub-agent that saw only the property text (from round 2 on also one line per '
            'mechanism already studied) and a scratch worktree; "confirmed" = demo passes on the original, fails on the change, '
            'and the 34 baseline tests still pass (re-run by `harness/seeded.py verify`). "first run" = the check of its own '
            'property (quick tier) as it was when the change arrived; "now" = the same check at the last regression run over '
            'all stored changes (`harness/seeded.py recheck`: patch applied to /repo, check run, patch reverted). What was '
            'widened after a miss is in `seeded/<name>/meta.json` (`history`).\n',
            '%d changes; caught at first run: %d; caught now: %d; no longer a violation of its own property after a later repair of /repo: %d.\n' % (n, n_first, n_now, locals().get('n_obs', 0)),
            '| change | property | confirmed | first run | now | last run |', '|---|---|---|---|---|---|']
    return '\n'.join(head + rows) + '\n'


def main():
    p = '/verif/DESIGN.md'
    s = open(p).read()
    body = s.split(MARK)[0].rstrip() + '\n\n' + MARK + '\n\n'
    open(p, 'w').write(body + theorems() + '\n' + seeded())


if __name__ == '__main__':
    main()
