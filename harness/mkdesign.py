"""Regenerate the generated appendices of /verif/DESIGN.md (theorem inventory, seeded-change table).
Dev-time helper; the hand-written body above the marker is left untouched."""
import glob, json, os, re

MARK = '<!-- GENERATED APPENDICES BELOW: harness/mkdesign.py -->'


def theorems():
    out = ['## Appendix T — theorem inventory (generated from coq/theories/Props/*.v)\n',
           'Every line is a `Theorem` whose proof is `exact <lemma>` (or a two-line unfolding) followed by '
           '`Print Assumptions`; the axioms each one depends on are re-read on every run and written to '
           '`evidence/<id>.json` (`coverage.trusted_base`).\n']
    for path in sorted(glob.glob('/verif/coq/theories/Props/C*.v')):
        src = open(path).read()
        names = re.findall(r'^Theorem\s+(\w+)', src, flags=re.M)
        pid = os.path.basename(path)[:-2]
        out.append('* **%s** (%d): %s' % (pid, len(names), ', '.join('`%s`' % n for n in names)))
    n_proofs = 0
    n_lines = 0
    for path in glob.glob('/verif/coq/theories/**/*.v', recursive=True):
        s = open(path).read()
        n_proofs += len(re.findall(r'\bQed\.', s))
        n_lines += s.count('\n')
    out.append('\nDevelopment size: %d lines of Coq, %d `Qed`s, 0 `Admitted` / `Axiom` / `Parameter` (checked on every run by `harness/core.py:hygiene`).\n' % (n_lines, n_proofs))
    return '\n'.join(out)


def seeded():
    rows = []
    for path in sorted(glob.glob('/verif/seeded/*/meta.json')):
        m = json.load(open(path))
        checks = m.get('checks', {})
        det = []
        for p, r in checks.items():
            v = r.get('violations') or []
            kind = 'no-failing-input-found' if v and 'no-failing-input-found' in v[0] else ('failing input' if v else 'silent')
            det.append('%s: %s' % (p, kind))
        need = (m.get('needs_to_manifest') or '').strip().splitlines()
        need = ' '.join(need[:3])[:160].replace('|', '/')
        rows.append('| %s | %s | %s | %s | %s |' % (m['name'], m['property'], 'yes' if m.get('confirmed') else 'NO',
                                                 ', '.join(m.get('caught_by') or []) or '**missed**', '; '.join(det)))
    head = ['## Appendix S — seeded-change study (generated from seeded/*/meta.json)\n',
            'Each change was written by a fresh sub-agent that saw only the property text and a scratch worktree; '
            '"confirmed" = demo passes on the original, fails on the change, and the 34 baseline tests still pass '
            '(re-run by `harness/seeded.py`). "caught by" = checks (quick tier) that exit 1 with the change applied to /repo.\n',
            '| change | property | confirmed | caught by | detail |', '|---|---|---|---|---|']
    return '\n'.join(head + rows) + '\n'


def main():
    p = '/verif/DESIGN.md'
    s = open(p).read()
    body = s.split(MARK)[0].rstrip() + '\n\n' + MARK + '\n\n'
    open(p, 'w').write(body + theorems() + '\n' + seeded())


if __name__ == '__main__':
    main()
