"""Source translator: regenerates a Gallina definition from the CURRENT source text of a /repo function
(Python `ast`), so that the theorem `translated function = hand-written model` (coq/gen/*Proof.v) is
re-checked against what the code says now.  Fail closed: any statement, expression, call or keyword
outside the small subset below raises Unsupported, the generated file is not written, and the proof
obligation counts as not discharged (reported as `no-failing-input-found` unless the correspondence
run finds an input).  Target language: coq/theories/Model/PyVal.v (value domain `pv`, tests give
`result bool`, statements give `result unit` / `result pv`).

Subset: assignments to a name; `if/elif/else`; bare `return`; `return <expr>`; `raise ValueError(<expr>)`;
tests: `==`, `!=`, `is None`, `is not None`, `in [..]`, `not in [..]`, `and`, `or`, `not`,
`isinstance(x, dict)`; expressions: names, None / small non-negative int / str constants, tuples,
`np.shape(x)[i]`, `x.ndim`, conditional expressions, `str(x)`, `"..".format(k=x, ..)`.
"""
import ast, hashlib, inspect, os, re, subprocess, textwrap

from . import coqio

VERIF = '/verif'
GEN_DIR = VERIF + '/coq/gen'


class Unsupported(Exception):
    pass


def _src_of(path, func):
    txt = open(path).read()
    tree = ast.parse(txt)
    for node in ast.walk(tree):
        if isinstance(node, ast.FunctionDef) and node.name == func:
            return node, ast.get_source_segment(txt, node)
    raise Unsupported('function %s not found in %s' % (func, path))


class Tr:
    def __init__(self, params):
        self.bound = set(params)

    # ---- values -------------------------------------------------------------------------------
    def val(self, e):
        if isinstance(e, ast.Name):
            if e.id not in self.bound:
                raise Unsupported('name %s is not bound on this path' % e.id)
            return 'v_' + e.id
        if isinstance(e, ast.Constant):
            if e.value is None:
                return 'VNone'
            if isinstance(e.value, bool):
                raise Unsupported('bool constant')
            if isinstance(e.value, int) and 0 <= e.value <= 64:
                return '(VInt %d)' % e.value
            if isinstance(e.value, str):
                return 'VStr'
            raise Unsupported('constant %r' % (e.value,))
        if isinstance(e, ast.Tuple):
            return '(py_tuple [%s])' % '; '.join(self.val(x) for x in e.elts)
        if isinstance(e, ast.Subscript):
            i = e.slice
            if not (isinstance(i, ast.Constant) and isinstance(i.value, int) and not isinstance(i.value, bool) and 0 <= i.value <= 8):
                raise Unsupported('subscript index ' + ast.dump(i))
            return '(py_idx %s %d)' % (self.val(e.value), i.value)
        if isinstance(e, ast.Attribute):
            if e.attr == 'ndim':
                return '(np_ndim %s)' % self.val(e.value)
            raise Unsupported('attribute .' + e.attr)
        if isinstance(e, ast.IfExp):
            return '(py_ifexp %s %s %s)' % (self.test(e.test), self.val(e.body), self.val(e.orelse))
        if isinstance(e, ast.Call):
            f = e.func
            if isinstance(f, ast.Attribute) and isinstance(f.value, ast.Name) and f.value.id == 'np' and f.attr == 'shape' \
                    and len(e.args) == 1 and not e.keywords:
                return '(np_shape %s)' % self.val(e.args[0])
            if isinstance(f, ast.Name) and f.id == 'str' and len(e.args) == 1 and not e.keywords:
                return '(py_str [%s])' % self.val(e.args[0])
            if isinstance(f, ast.Attribute) and f.attr == 'format' and isinstance(f.value, ast.Constant) \
                    and isinstance(f.value.value, str) and not e.args:
                fields = set(re.findall(r'\{(\w+)\}', f.value.value))
                if fields != {k.arg for k in e.keywords}:
                    raise Unsupported('format fields %s vs keywords' % sorted(fields))
                return '(py_str [%s])' % '; '.join(self.val(k.value) for k in e.keywords)
            raise Unsupported('call ' + ast.dump(f))
        raise Unsupported('expression ' + type(e).__name__)

    # ---- tests --------------------------------------------------------------------------------
    def test(self, e):
        if isinstance(e, ast.BoolOp):
            op = 't_and' if isinstance(e.op, ast.And) else 't_or'
            parts = [self.test(v) for v in e.values]
            out = parts[-1]
            for p in reversed(parts[:-1]):
                out = '(%s %s %s)' % (op, p, out)
            return out
        if isinstance(e, ast.UnaryOp) and isinstance(e.op, ast.Not):
            return '(t_not %s)' % self.test(e.operand)
        if isinstance(e, ast.Compare):
            if len(e.ops) != 1:
                raise Unsupported('chained comparison')
            op, l, r = e.ops[0], e.left, e.comparators[0]
            if isinstance(op, (ast.Is, ast.IsNot)):
                if not (isinstance(r, ast.Constant) and r.value is None):
                    raise Unsupported('`is` with something other than None')
                return '(%s %s)' % ('t_is_none' if isinstance(op, ast.Is) else 't_is_not_none', self.val(l))
            if isinstance(op, (ast.Eq, ast.NotEq)):
                return '(%s %s %s)' % ('t_eq' if isinstance(op, ast.Eq) else 't_ne', self.val(l), self.val(r))
            if isinstance(op, (ast.In, ast.NotIn)):
                if not isinstance(r, ast.List):
                    raise Unsupported('`in` with something other than a list display')
                return '(%s %s [%s])' % ('t_in' if isinstance(op, ast.In) else 't_not_in', self.val(l),
                                         '; '.join(self.val(x) for x in r.elts))
            raise Unsupported('comparison ' + type(op).__name__)
        if isinstance(e, ast.Call) and isinstance(e.func, ast.Name) and e.func.id == 'isinstance' and len(e.args) == 2 \
                and isinstance(e.args[1], ast.Name) and e.args[1].id == 'dict':
            return '(t_isinstance_dict %s)' % self.val(e.args[0])
        raise Unsupported('test ' + type(e).__name__)

    # ---- statements (continuation passing: `rest` are the statements that follow) ---------------
    def block(self, stmts, rest, ind):
        pad = '  ' * ind
        if not stmts:
            if rest is None:
                return pad + '(Ok tt)'          # falling off the end returns None
            return self.block(rest[0], rest[1], ind)
        s, tail = stmts[0], stmts[1:]
        if isinstance(s, ast.Expr) and isinstance(s.value, ast.Constant) and isinstance(s.value.value, str):
            return self.block(tail, rest, ind)   # docstring
        if isinstance(s, ast.Return):
            if s.value is not None:
                raise Unsupported('return with a value')
            return pad + '(Ok tt)'
        if isinstance(s, ast.Raise):
            c = s.exc
            if not (isinstance(c, ast.Call) and isinstance(c.func, ast.Name) and c.func.id == 'ValueError' and len(c.args) == 1
                    and not c.keywords and s.cause is None):
                raise Unsupported('raise of something other than ValueError(msg)')
            return pad + '(raise_value %s)' % self.val(c.args[0])
        if isinstance(s, ast.Assign):
            if len(s.targets) != 1 or not isinstance(s.targets[0], ast.Name):
                raise Unsupported('assignment target')
            name = s.targets[0].id
            v = self.val(s.value)
            saved = set(self.bound)
            self.bound.add(name)
            body = self.block(tail, rest, ind)
            self.bound = saved
            return pad + '(py_let %s (fun v_%s =>\n%s))' % (v, name, body)
        if isinstance(s, ast.If):
            t = self.test(s.test)
            saved = set(self.bound)
            a = self.block(s.body, (tail, rest), ind + 1)
            self.bound = set(saved)
            b = self.block(s.orelse, (tail, rest), ind + 1)
            self.bound = saved
            return pad + '(py_if %s\n%s\n%s)' % (t, a, b)
        raise Unsupported('statement ' + type(s).__name__)


def translate_function(path, func, gen_name):
    node, src = _src_of(path, func)
    a = node.args
    if a.vararg or a.kwarg or a.kwonlyargs or a.posonlyargs or a.defaults or node.decorator_list:
        raise Unsupported('signature of ' + func)
    params = [x.arg for x in a.args]
    tr = Tr(params)
    body = tr.block(node.body, None, 1)
    head = ('(* GENERATED by harness/translate.py from %s:%s (sha256 of the function text %s).\n'
            '   Do not edit: rewritten on every check run. *)\n'
            'From Coq Require Import List Arith.\nImport ListNotations.\n'
            'From ByC Require Import Base.Result Model.PyVal.\n\n'
            % (path, func, hashlib.sha256(src.encode()).hexdigest()[:16]))
    text = head + 'Definition %s %s : result unit :=\n%s.\n' % (
        gen_name, ' '.join('(v_%s : pv)' % p for p in params), body)
    return text, src



# ---------------------------------------------------------------------------------------------
# array mode: typed translation of numpy code over boolean / index / integer arrays
# (target: coq/theories/Model/PyArr.v).  Types: barr (list bool, with its container kind k_<name>),
# zarr (list Z), iarr (list nat), marr (boolean mask), zint (Z).

class TrArr:
    def __init__(self, module_tree, params):
        self.ty = dict(params)
        self.imports = {}
        for n in module_tree.body:
            if isinstance(n, ast.ImportFrom):
                for a in n.names:
                    self.imports[a.asname or a.name] = '%s.%s' % (n.module, a.name)
            elif isinstance(n, ast.Import):
                for a in n.names:
                    self.imports[a.asname or a.name] = a.name
        if self.imports.get('np') != 'numpy':
            raise Unsupported('`np` is not numpy')
        self.tmp = 0

    def name(self, e, want=None):
        if not isinstance(e, ast.Name) or e.id not in self.ty:
            raise Unsupported('expected a bound name, got ' + ast.dump(e)[:80])
        if want and self.ty[e.id] != want:
            raise Unsupported('%s has type %s, expected %s' % (e.id, self.ty[e.id], want))
        return 'v_' + e.id

    @staticmethod
    def np_call(e, fn):
        return isinstance(e, ast.Call) and isinstance(e.func, ast.Attribute) and isinstance(e.func.value, ast.Name) \
            and e.func.value.id == 'np' and e.func.attr == fn

    @staticmethod
    def const_int(e, lo=0, hi=64):
        if isinstance(e, ast.Constant) and isinstance(e.value, int) and not isinstance(e.value, bool) and lo <= e.value <= hi:
            return e.value
        raise Unsupported('expected a small integer literal')

    def pure(self, e):
        """-> (code, type) for expressions that cannot fail"""
        if isinstance(e, ast.Name):
            return self.name(e), self.ty[e.id]
        if self.np_call(e, 'diff'):
            kw = {k.arg: k.value for k in e.keywords}
            if len(e.args) != 1 or set(kw) != {'prepend', 'append'}:
                raise Unsupported('np.diff arguments')
            return '(np_diff_bool %s %d %d)' % (self.name(e.args[0], 'barr'), self.const_int(kw['prepend']), self.const_int(kw['append'])), 'zarr'
        if self.np_call(e, 'flatnonzero'):
            if len(e.args) != 1 or e.keywords:
                raise Unsupported('np.flatnonzero arguments')
            return '(np_flatnonzero %s)' % self.name(e.args[0], 'zarr'), 'iarr'
        if isinstance(e, ast.Subscript) and isinstance(e.slice, ast.Slice):
            sl = e.slice
            if sl.upper is not None or sl.lower is None or sl.step is None or self.const_int(sl.step) != 2:
                raise Unsupported('slice other than [c::2]')
            return '(py_slice_from_step2 %d %s)' % (self.const_int(sl.lower), self.name(e.value, 'iarr')), 'iarr'
        if isinstance(e, ast.Compare) and len(e.ops) == 1 and isinstance(e.ops[0], ast.Lt):
            return '(np_lt_scalar %s %s)' % (self.name(e.left, 'zarr'), self.name(e.comparators[0], 'zint')), 'marr'
        raise Unsupported('expression ' + ast.dump(e)[:80])

    def failing(self, e):
        """-> (code : result T, type) for expressions that numpy may refuse"""
        if isinstance(e, ast.BinOp) and isinstance(e.op, ast.Sub):
            return '(np_sub_idx %s %s)' % (self.name(e.left, 'iarr'), self.name(e.right, 'iarr')), 'zarr'
        if isinstance(e, ast.Subscript) and isinstance(e.slice, ast.Name):
            return '(np_mask %s %s)' % (self.name(e.value, 'iarr'), self.name(e.slice, 'marr')), 'iarr'
        return None

    def test(self, e):
        if isinstance(e, ast.UnaryOp) and isinstance(e.op, ast.Not):
            c = e.operand
            if isinstance(c, ast.Call) and isinstance(c.func, ast.Name) and c.func.id == 'isinstance' and len(c.args) == 2 \
                    and isinstance(c.args[1], ast.Attribute) and isinstance(c.args[1].value, ast.Name) \
                    and c.args[1].value.id == 'np' and c.args[1].attr == 'ndarray':
                self.name(c.args[0], 'barr')
                return '(negb (a_is_ndarray k_%s))' % c.args[0].id
        if isinstance(e, ast.Compare) and len(e.ops) == 1 and isinstance(e.ops[0], ast.Eq):
            l, r = e.left, e.comparators[0]
            if isinstance(l, ast.Call) and isinstance(l.func, ast.Name) and l.func.id == 'len' and len(l.args) == 1 and not l.keywords:
                return '(Nat.eqb (length %s) %d)' % (self.name(l.args[0], 'barr'), self.const_int(r))
        raise Unsupported('test ' + ast.dump(e)[:80])

    def block(self, stmts):
        if not stmts:
            raise Unsupported('function can end without `return`')
        s, tail = stmts[0], stmts[1:]
        if isinstance(s, ast.Expr) and isinstance(s.value, ast.Constant) and isinstance(s.value.value, str):
            return self.block(tail)
        if isinstance(s, ast.Return):
            if s.value is None:
                raise Unsupported('bare return')
            return '  Ok %s' % self.name(s.value, 'barr')
        if isinstance(s, ast.If) and not s.orelse and len(s.body) == 1:
            t = self.test(s.test)
            b = s.body[0]
            if isinstance(b, ast.Raise) and isinstance(b.exc, ast.Call) and isinstance(b.exc.func, ast.Name) \
                    and b.exc.func.id == 'ValueError' and len(b.exc.args) == 1 and isinstance(b.exc.args[0], ast.Constant) \
                    and isinstance(b.exc.args[0].value, str) and b.cause is None:
                return '  if %s then Err EValue else\n%s' % (t, self.block(tail))
            if isinstance(b, ast.Return) and b.value is not None:
                return '  if %s then Ok %s else\n%s' % (t, self.name(b.value, 'barr'), self.block(tail))
            raise Unsupported('if body')
        if isinstance(s, ast.Expr) and isinstance(s.value, ast.Call) and isinstance(s.value.func, ast.Name) \
                and s.value.func.id == 'check_param_range':
            c = s.value
            if self.imports.get('check_param_range') != 'bycycle.utils.checks.check_param_range':
                raise Unsupported('check_param_range is not bycycle.utils.checks.check_param_range')
            if len(c.args) != 3 or c.keywords or not isinstance(c.args[1], ast.Constant) or not isinstance(c.args[2], ast.Tuple) \
                    or len(c.args[2].elts) != 2 or self.const_int(c.args[2].elts[0]) != 0:
                raise Unsupported('check_param_range arguments')
            hi = c.args[2].elts[1]
            if not (isinstance(hi, ast.Attribute) and isinstance(hi.value, ast.Name) and hi.value.id == 'np' and hi.attr == 'inf'):
                raise Unsupported('check_param_range upper bound')
            return '  if negb (a_range_0_inf %s) then Err EValue else\n%s' % (self.name(c.args[0], 'zint'), self.block(tail))
        if isinstance(s, ast.Assign) and len(s.targets) == 1:
            tg, v = s.targets[0], s.value
            if isinstance(tg, ast.Tuple) and isinstance(v, ast.Tuple) and len(tg.elts) == len(v.elts):
                names = [t.id for t in tg.elts if isinstance(t, ast.Name)]
                if len(names) != len(tg.elts) or len(set(names)) != len(names):
                    raise Unsupported('tuple assignment targets')
                used = {n.id for x in v.elts for n in ast.walk(x) if isinstance(n, ast.Name)}
                if used & set(names):
                    raise Unsupported('tuple assignment that reads its own targets')
                out = ''
                vals = [self.pure(x) for x in v.elts]
                for n, (code, ty) in zip(names, vals):
                    self.ty[n] = ty
                    out += '  let v_%s := %s in\n' % (n, code)
                return out + self.block(tail)
            if isinstance(tg, ast.Name):
                f = self.failing(v)
                if f:
                    self.ty[tg.id] = f[1]
                    return '  do v_%s <- %s;\n%s' % (tg.id, f[0], self.block(tail))
                code, ty = self.pure(v)
                self.ty[tg.id] = ty
                return '  let v_%s := %s in\n%s' % (tg.id, code, self.block(tail))
            raise Unsupported('assignment target')
        if isinstance(s, ast.For) and not s.orelse:
            it, tg = s.iter, s.target
            if not (isinstance(it, ast.Call) and isinstance(it.func, ast.Name) and it.func.id == 'zip' and len(it.args) == 2 and not it.keywords
                    and isinstance(tg, ast.Tuple) and len(tg.elts) == 2 and all(isinstance(t, ast.Name) for t in tg.elts)):
                raise Unsupported('for loop other than `for a, b in zip(x, y)`')
            a, b = tg.elts[0].id, tg.elts[1].id
            out, its = '', []
            for x in it.args:
                f = self.failing(x)
                if not f or f[1] != 'iarr':
                    raise Unsupported('zip argument')
                its.append('it_%d' % self.tmp)
                out += '  do it_%d <- %s;\n' % (self.tmp, f[0])
                self.tmp += 1
            if len(s.body) != 1:
                raise Unsupported('loop body')
            st = s.body[0]
            if not (isinstance(st, ast.Assign) and len(st.targets) == 1 and isinstance(st.targets[0], ast.Subscript)
                    and isinstance(st.targets[0].value, ast.Name) and isinstance(st.targets[0].slice, ast.Slice)
                    and isinstance(st.value, ast.Constant) and st.value.value is False):
                raise Unsupported('loop body other than `t[a:b] = False`')
            sl, arr = st.targets[0].slice, st.targets[0].value.id
            if not (isinstance(sl.lower, ast.Name) and sl.lower.id == a and isinstance(sl.upper, ast.Name) and sl.upper.id == b and sl.step is None):
                raise Unsupported('loop slice')
            self.name(st.targets[0].value, 'barr')
            if a in self.ty or b in self.ty:
                raise Unsupported('loop variable shadows a name')
            out += ('  let v_%s := fold_left (fun v_%s it => let \'(v_%s, v_%s) := it in\n'
                    '      py_setslice_false v_%s v_%s v_%s) (combine %s %s) v_%s in\n' % (arr, arr, a, b, arr, a, b, its[0], its[1], arr))
            return out + self.block(tail)
        raise Unsupported('statement ' + type(s).__name__)


def translate_array_function(path, func, gen_name, params, ret):
    txt = open(path).read()
    tree = ast.parse(txt)
    node, src = _src_of(path, func)
    a = node.args
    if a.vararg or a.kwarg or a.kwonlyargs or a.posonlyargs or node.decorator_list or [x.arg for x in a.args] != [p for p, _ in params]:
        raise Unsupported('signature of ' + func)
    tr = TrArr(tree, params)
    body = tr.block(node.body)
    binders = []
    for p, ty in params:
        if ty == 'barr':
            binders.append('(k_%s : container) (v_%s : list bool)' % (p, p))
        elif ty == 'zint':
            binders.append('(v_%s : Z)' % p)
        else:
            raise Unsupported('parameter type')
    head = ('(* GENERATED by harness/translate.py from %s:%s (sha256 of the function text %s).\n'
            '   Do not edit: rewritten on every check run. *)\n'
            'From Coq Require Import List Arith ZArith Bool.\nImport ListNotations.\n'
            'From ByC Require Import Base.Result Model.Runs Model.TableRuns Model.PyArr.\n\n'
            % (path, func, hashlib.sha256(src.encode()).hexdigest()[:16]))
    return head + 'Definition %s %s : result (%s) :=\n%s.\n' % (gen_name, ' '.join(binders), ret, body), src


# ---------------------------------------------------------------------------------------------
# float mode: float arrays, optional float scalars (target: coq/theories/Model/PyFlt.v).
# Types: farr (list float), optf (option float; inside an `if x is not None:` branch the value is s_<x>).

class TrFlt:
    def __init__(self, module_tree, params):
        self.ty = dict(params)
        self.known = {}
        self.imports = {}
        for n in module_tree.body:
            if isinstance(n, ast.ImportFrom):
                for a in n.names:
                    self.imports[a.asname or a.name] = '%s.%s' % (n.module, a.name)
            elif isinstance(n, ast.Import):
                for a in n.names:
                    self.imports[a.asname or a.name] = a.name
        if self.imports.get('np') != 'numpy':
            raise Unsupported('`np` is not numpy')

    def none_test(self, e):
        """`x is None` / `x is not None` on an optional parameter -> (name, True when the test asks for None)"""
        if isinstance(e, ast.Compare) and len(e.ops) == 1 and isinstance(e.ops[0], (ast.Is, ast.IsNot)) \
                and isinstance(e.left, ast.Name) and self.ty.get(e.left.id) == 'optf' \
                and isinstance(e.comparators[0], ast.Constant) and e.comparators[0].value is None:
            return e.left.id, isinstance(e.ops[0], ast.Is)
        raise Unsupported('test ' + ast.dump(e)[:80])

    def scalar(self, e):
        if isinstance(e, ast.Name) and self.ty.get(e.id) == 'optf':
            if self.known.get(e.id) is True:
                return 's_' + e.id
            raise Unsupported('%s may be None here' % e.id)
        if isinstance(e, ast.Constant) and isinstance(e.value, int) and not isinstance(e.value, bool) and e.value == 0:
            return '0'
        if isinstance(e, ast.Attribute) and isinstance(e.value, ast.Name) and e.value.id == 'np' and e.attr == 'inf':
            return 'infinity'
        if isinstance(e, ast.IfExp):
            name, wants_none = self.none_test(e.test)
            a, b = (e.body, e.orelse) if wants_none else (e.orelse, e.body)     # a: value when None, b: when given
            k = self.known.get(name)
            if k is False:
                return self.scalar(a)
            if k is True:
                return self.scalar(b)
            va = self._with(name, False, lambda: self.scalar(a))
            vb = self._with(name, True, lambda: self.scalar(b))
            return '(match v_%s with None => %s | Some s_%s => %s end)' % (name, va, name, vb)
        raise Unsupported('scalar ' + ast.dump(e)[:80])

    def _with(self, name, val, f):
        old = self.known.get(name)
        self.known[name] = val
        try:
            return f()
        finally:
            self.known[name] = old

    def arr(self, e):
        if isinstance(e, ast.Name) and self.ty.get(e.id) == 'farr':
            return 'v_' + e.id
        raise Unsupported('expected a float array name')

    def block(self, stmts, rest):
        if not stmts:
            if rest is None:
                raise Unsupported('function can end without `return`')
            return self.block(rest[0], rest[1])
        s, tail = stmts[0], stmts[1:]
        if isinstance(s, ast.Expr) and isinstance(s.value, ast.Constant) and isinstance(s.value.value, str):
            return self.block(tail, rest)
        if isinstance(s, ast.Return):
            v = s.value
            if not (isinstance(v, ast.Tuple) and len(v.elts) == 2):
                raise Unsupported('return value')
            return '  Ok (%s, %s)' % (self.arr(v.elts[0]), self.arr(v.elts[1]))
        if isinstance(s, ast.If) and not s.orelse:
            name, wants_none = self.none_test(s.test)
            if wants_none:
                raise Unsupported('`if x is None:` statement')
            k = self.known.get(name)
            if k is True:
                return self.block(s.body, (tail, rest))
            if k is False:
                return self.block(tail, rest)
            saved = dict(self.ty)
            yes = self._with(name, True, lambda: self.block(s.body, (tail, rest)))
            self.ty = dict(saved)
            no = self._with(name, False, lambda: self.block(tail, rest))
            self.ty = saved
            return '  match v_%s with\n  | Some s_%s =>\n%s\n  | None =>\n%s\n  end' % (name, name, yes, no)
        if isinstance(s, ast.Expr) and isinstance(s.value, ast.Call) and isinstance(s.value.func, ast.Name) \
                and s.value.func.id == 'check_param_range':
            c = s.value
            if self.imports.get('check_param_range') != 'bycycle.utils.checks.check_param_range':
                raise Unsupported('check_param_range is not bycycle.utils.checks.check_param_range')
            if len(c.args) != 3 or c.keywords or not isinstance(c.args[1], ast.Constant) or not isinstance(c.args[2], ast.Tuple) \
                    or len(c.args[2].elts) != 2:
                raise Unsupported('check_param_range arguments')
            return '  if negb (f_in_range %s %s %s) then Err EValue else\n%s' % (
                self.scalar(c.args[0]), self.scalar(c.args[2].elts[0]), self.scalar(c.args[2].elts[1]), self.block(tail, rest))
        if isinstance(s, ast.Assign) and len(s.targets) == 1 and isinstance(s.targets[0], ast.Name):
            tg, v = s.targets[0].id, s.value
            if self.ty.get(tg) != 'farr':
                raise Unsupported('assignment to something other than a float array')
            if not (isinstance(v, ast.Subscript) and isinstance(v.slice, ast.Compare) and len(v.slice.ops) == 1):
                raise Unsupported('assignment value')
            cmp_ = v.slice
            op = {ast.GtE: 'f_ge_scalar', ast.Lt: 'f_lt_scalar'}.get(type(cmp_.ops[0]))
            if op is None:
                raise Unsupported('comparison ' + type(cmp_.ops[0]).__name__)
            code = '(f_mask %s (%s %s %s))' % (self.arr(v.value), op, self.arr(cmp_.left), self.scalar(cmp_.comparators[0]))
            return '  do v_%s <- %s;\n%s' % (tg, code, self.block(tail, rest))
        raise Unsupported('statement ' + type(s).__name__)


def translate_float_function(path, func, gen_name, params, ret):
    txt = open(path).read()
    tree = ast.parse(txt)
    node, src = _src_of(path, func)
    a = node.args
    names = [x.arg for x in a.args]
    defaults = [None] * (len(names) - len(a.defaults)) + list(a.defaults)
    if a.vararg or a.kwarg or a.kwonlyargs or a.posonlyargs or node.decorator_list or names != [p for p, _ in params]:
        raise Unsupported('signature of ' + func)
    for (p, ty), d in zip(params, defaults):
        if (ty == 'optf') != (d is not None) or (d is not None and not (isinstance(d, ast.Constant) and d.value is None)):
            raise Unsupported('default of parameter ' + p)
    tr = TrFlt(tree, params)
    body = tr.block(node.body, None)
    binders = ' '.join('(v_%s : %s)' % (p, {'farr': 'list float', 'optf': 'option float'}[ty]) for p, ty in params)
    head = ('(* GENERATED by harness/translate.py from %s:%s (sha256 of the function text %s).\n'
            '   Do not edit: rewritten on every check run. *)\n'
            'From Coq Require Import List Arith Bool Floats.PrimFloat.\nImport ListNotations.\n'
            'From ByC Require Import Base.Result Model.Window Model.PyFlt.\n\n'
            % (path, func, hashlib.sha256(src.encode()).hexdigest()[:16]))
    return head + 'Definition %s %s : result (%s) :=\n%s.\n' % (gen_name, binders, ret, body), src

# what is translated, and the fixed proof file that must compile against the generated definition
TARGETS = {
    'C08': [dict(path='/repo/bycycle/burst/utils.py', func='check_min_burst_cycles', gen_module='RunFilterGen',
                 gen_name='check_min_burst_cycles_gen', proof='RunFilterGenProof.v', mode='array',
                 params=[('is_burst', 'barr'), ('min_n_cycles', 'zint')], ret='list bool')],
    'C18': [dict(path='/repo/bycycle/utils/timeseries.py', func='limit_signal', gen_module='LimitSignalGen',
                 gen_name='limit_signal_gen', proof='LimitSignalGenProof.v', mode='float',
                 params=[('times', 'farr'), ('sig', 'farr'), ('start', 'optf'), ('stop', 'optf')], ret='list float * list float')],
    'C19': [dict(path='/repo/bycycle/group/utils.py', func='check_kwargs_shape', gen_module='ShapeCheckGen',
                 gen_name='check_kwargs_shape_gen', proof='ShapeCheckGenProof.v')],
}


def check(prop, workdir, tier='quick'):
    """Regenerate + re-prove. Returns dict(obligations, discharged, axioms, names, ok, log, functions)."""
    res = {'obligations': 0, 'discharged': 0, 'axioms': [], 'names': [], 'ok': True, 'log': '', 'functions': []}
    for t in TARGETS.get(prop, []):
        proof_src = open(os.path.join(GEN_DIR, t['proof'])).read()
        proof_nc = re.sub(r'\(\*.*?\*\)', '', proof_src, flags=re.S)
        names = re.findall(r'^\s*(?:Theorem|Corollary)\s+(\w+)', proof_nc, flags=re.M)
        printed = re.findall(r'^\s*Print Assumptions\s+(\w+)\s*\.', proof_nc, flags=re.M)
        res['obligations'] += len(names)
        res['names'] += names
        entry = {'source': '%s:%s' % (t['path'], t['func']), 'proof_file': 'coq/gen/' + t['proof'], 'translated': False}
        res['functions'].append(entry)
        gd = os.path.join(workdir, 'gen')
        os.makedirs(gd, exist_ok=True)
        for f in os.listdir(gd):
            os.remove(os.path.join(gd, f))
        try:
            if t.get('mode') == 'float':
                text, src = translate_float_function(t['path'], t['func'], t['gen_name'], t['params'], t['ret'])
            elif t.get('mode') == 'array':
                text, src = translate_array_function(t['path'], t['func'], t['gen_name'], t['params'], t['ret'])
            else:
                text, src = translate_function(t['path'], t['func'], t['gen_name'])
        except (Unsupported, SyntaxError, OSError) as e:
            res['ok'] = False
            res['log'] += 'translator: %s: %s\n' % (t['func'], e)
            entry['error'] = str(e)
            continue
        entry['translated'] = True
        entry['source_sha256'] = hashlib.sha256(src.encode()).hexdigest()[:16]
        entry['generated_lines'] = text.count('\n')
        open(os.path.join(gd, t['gen_module'] + '.v'), 'w').write(text)
        open(os.path.join(gd, t['proof']), 'w').write(proof_src)
        flags = coqio.COQFLAGS + ['-Q', gd, 'Gen']
        ok = True
        out = ''
        for f in (t['gen_module'] + '.v', t['proof']):
            p = subprocess.run(['timeout', '600', 'coqc'] + flags + [os.path.join(gd, f)], capture_output=True, text=True, cwd=gd)
            out += p.stdout
            if p.returncode != 0:
                ok = False
                res['log'] += '%s: %s\n' % (f, p.stderr[-1500:])
                break
        if ok and tier == 'thorough':
            # independent re-check of the generated definition, the proof file and everything they depend on
            pc = subprocess.run(['timeout', '3000', 'coqchk', '-o', '-silent', '-Q', VERIF + '/coq/theories', 'ByC', '-Q', gd, 'Gen',
                                 'Gen.' + t['proof'][:-2]], capture_output=True, text=True, cwd=gd)
            co = pc.stdout + pc.stderr
            entry['coqchk'] = {'rc': pc.returncode, 'axioms': [l.strip() for l in co.split('* Axioms:')[1].split('\n* ')[0].splitlines()
                                                               if l.strip() and l.strip() != '<none>'] if '* Axioms:' in co else []}
            if pc.returncode != 0:
                ok = False
                res['log'] += 'coqchk %s: %s\n' % (t['proof'], co[-600:])
        if ok and set(names) <= set(printed):
            blocks = re.findall(r'(Closed under the global context|Axioms:)', out)
            res['discharged'] += min(len(blocks), len(names))
            res['axioms'] += re.findall(r'^([A-Za-z_][\w\.\']*)\s*:', out, flags=re.M)
        else:
            res['ok'] = False
    res['axioms'] = sorted(set(res['axioms']))
    return res
