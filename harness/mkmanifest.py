"""Regenerate /verif/MANIFEST.json from the per-property metadata below (dev-time helper)."""
import json, os

NOTE_STD = ('Trusted: Coq 8.16.1 kernel + vm_compute; the axioms printed by Print Assumptions (recorded per run in the evidence: '
            'primitive float/int declarations, stdlib FloatAxioms, and - only where binary64 order/range facts are used - the '
            'classical-reals axioms and functional extensionality pulled in by Flocq/Reals); the correspondence harness '
            '(differential testing bounds the model<->code tie); numpy/pandas/neurodsp semantics as written into the model. ')
T_STD = 'Coq proof (induction over lists / Flocq binary64 facts) + model-vs-implementation correspondence evaluated with vm_compute'

CLAIMED = {
    'C01': dict(text='Proof: for the Coq model of compute_features (extrema -> midpoints -> row assembly -> features -> labels) every returned table is a non-empty, ordered, tiled segmentation with all indices beyond the boundary, and a table is returned exactly when two cycles survive; the only failure classes are characterised. The model is tied to the code by comparing EVERY cell of the tables compute_features returns on generated signals over the option grid.',
                note=NOTE_STD + 'The sign bits of the band-passed signal, the amplitude envelope and the dual-threshold mask are inputs of the model, computed by the harness with neurodsp. Library-level exceptions cannot be exhibited by the model: "returns a table instead of raising" holds for the real code on the explored grid only.', technique=T_STD, ref='DESIGN.md section 4, C01'),
    'C02': dict(text='Proof: peaks/troughs of the model are exactly the first arg-max/arg-min of the raw samples over each half-wave closed by crossings on both sides (iff), they alternate strictly, the boundary filter and first_extrema trimming are characterised (interleaved, equal counts, failure iff). Correspondence: find_extrema on generated signals with reference sign bits, plus a stubbed-filter stream over all small sign patterns with ties.',
                note=NOTE_STD + 'Signals finite; inputs with no crossing of one direction are outside the property (counted, skipped).', technique=T_STD, ref='DESIGN.md section 4, C02'),
    'C03': dict(text='Proof: one midpoint per flank in temporal order, each inside its flank, equal to the floor of the median of ALL half-height crossings (or the centre for zero/inverted flanks), crossings characterised exactly, discrete intermediate-value lemma. Correspondence: find_zerox on extrema of generated signals and exhaustively on all small signals x all alternating index sequences.',
                note=NOTE_STD, technique=T_STD, ref='DESIGN.md section 4, C03'),
    'C04': dict(text='Proof: every shape column of the model is its documented formula; period = rise + decay; time_rdsym in (0,1) and time_ptsym in [0,1] proved for binary64 in both centrings (Flocq); the trough-centred table is read against the original signal. Correspondence: all 13 columns of compute_features vs the model, plus a direct oracle on the original signal.',
                note=NOTE_STD + 'band_amp (numpy pairwise mean of the envelope) is compared with 1e-9 tolerance.', technique=T_STD, ref='DESIGN.md section 4, C04'),
    'C05': dict(text='Proof: amp_fraction is the average rank over n; both centring branches of amp_consistency equal one centring-free three-pair definition; ends are NaN; strict monotone steps; all four features in [0,1] for positive finite flank voltages (binary64). Correspondence: pipeline tables and the individual functions (all directions) on synthetic tables with ties, zeros, negatives, NaN.',
                note=NOTE_STD, technique=T_STD, ref='DESIGN.md section 4, C05'),
    'C06': dict(text='Proof: a cycle is labelled iff it lies in a window of >= n consecutive qualifying interior cycles; ends never labelled; raising any threshold or n only removes labels (binary64 thresholds, arbitrary feature values incl. NaN/inf); rejections characterised. Correspondence: detect_bursts_cycles on synthetic tables with values one ulp around the thresholds, and compute_features routing of the thresholds the caller passed.',
                note=NOTE_STD, technique=T_STD, ref='DESIGN.md section 4, C06'),
    'C07': dict(text='Proof: in the table returned by the model of compute_features(burst_method=\'amp\') burst_fraction of each cycle is the fraction of the detector mask over [last side, next side] INCLUSIVE (in [0,1], binary64), a cycle is labelled iff it lies in a run of >= n cycles whose fraction reaches the threshold, one min-cycle count (burst options, else thresholds, else 3) serves both consumers, and raising burst_fraction_threshold never adds a label. Correspondence: burst_fraction and is_burst of the real function vs the model fed with the reference dual-threshold mask computed with the documented count, over the option-routing grid on sparse-burst signals.',
                note=NOTE_STD, technique=T_STD, ref='DESIGN.md section 4, C07'),
    'C08': dict(text='Proof: 10 axiom-free theorems about the run filter (window characterisation, whole-run keep/clear, no False->True, idempotence, edge neutrality, mirror symmetry, monotonicity) for all arrays and all min_n_cycles. Two models (one-pass and code-shaped) are tied to check_min_burst_cycles on every boolean array up to length 10 (13 thorough) x every min_n_cycles and on long random arrays.',
                note=NOTE_STD + 'Non-boolean / non-ndarray inputs only checked to raise ValueError.', technique=T_STD, ref='DESIGN.md section 4, C08'),
    'C09': dict(text='Proof: compute_features Trough raw = map mirror (compute_features Peak (-raw)) as an exact list equality for both burst methods including errors: same cycles, same sample indices (rise/decay names swapped), extremum voltages negated, symmetries 1-x, identical burst features and labels. Correspondence: both centrings compared cell by cell with the model, and compute_features(sig, trough) vs compute_features(-sig, peak) compared directly after the documented swap.',
                note=NOTE_STD + 'Assumes the reference filter is odd (checked on every generated signal).', technique=T_STD, ref='DESIGN.md section 4, C09'),
    'C10': dict(text='Partial proof + metamorphic search: fs / f_range are not arguments of any model function (every time feature is an integer number of samples); amplitude covariance of the WHOLE table is proved relative to a checkable per-input hypothesis (the scaling map commutes with the float operations on the values that occur: true for powers of two on examples, necessary - factor 3 changes a last bit -, rejects overflow / underflow / shifts). Correspondence at 8 sampling rates; exact replays with sig*2^k, k in [-100,100], and (c fs, c f_range).',
                note=NOTE_STD + 'Binary64 exact scaling by powers of two and linearity of the reference filter are assumed.', technique=T_STD, ref='DESIGN.md section 4, C10'),
    'C11': dict(text='Proof: Pool.imap modelled as a reorder buffer returns map f xs for EVERY completion permutation; position i of the 2-D result is cf(options_i, row_i); models mirror positions; an unordered pool is refuted. Correspondence: real pools with injected delays (reverse / first-slow / zigzag), n_jobs from 1 to rows+3, progress on/off; every returned table matched against directly computed candidates.',
                note=NOTE_STD + 'Partial: the multiprocessing runtime itself is trusted and only exercised under the injected schedules.', technique=T_STD, ref='DESIGN.md section 4, C11'),
    'C12': dict(text='Proof: for all shapes (n0, n1) and all completion orders, entry [i][j] is the analysis of signal [i,j] (axis=(0,1), row-major option list), row i the flattened-epoch analysis of sigs[i] (axis 0), column j that of sigs[:, j] (axis 1, via two transpositions); the pre-repair index i+j is refuted. Correspondence: compute_features_3d / BycycleGroup.fit on all shapes in {1,2,3}^2, three axis modes, shared / 1-D / 2-D lists.',
                note=NOTE_STD, technique=T_STD, ref='DESIGN.md section 4, C12'),
    'C13': dict(text='Proof: ceil(len/L) epochs; a cycle belongs to exactly the epoch ceil(c/L)-1 of its closing extremum (a boundary index goes to the earlier epoch); epoch = filter + uniform shift with features, label and payload untouched; un-shifting and concatenating the epochs gives back the flattened table (no loss, no duplication, order); a single option set keeps the flattened labels; a per-epoch list re-labels each epoch independently; pre-repair relabelling refuted. Correspondence: epoch_df on synthetic tables with closing indices on / around boundaries and empty epochs; compute_features_2d(axis=None) with dict and per-epoch list options.',
                note=NOTE_STD, technique=T_STD, ref='DESIGN.md section 4, C13'),
    'C19': dict(text='Proof: for all array extents, option-list shapes and axes the group entry points accept iff documented-valid; range checks accept exactly lo <= x <= hi (binary64); enumerated options, dimensionality guards; the pre-repair table is refuted. Correspondence: the decision function on the exhaustive grid, the public entry points on a sample (quick) or the whole grid (thorough), every scalar parameter at / inside / outside its range, every enumerated option.',
                note=NOTE_STD, technique=T_STD, ref='DESIGN.md section 4, C19'),
    'C14': dict(text='Proof: for a state-machine model of Bycycle objects, after ANY history of fits / edge recomputations / loads / edits the stored settings are the constructor settings with the user\'s edits applied, so a fit yields compute_features of the current settings = what a fresh object yields; recompute_edges(r) is the functional recomputation at thresholds lowered by r (min_n_cycles untouched); shorthand expansion idempotent; the pre-repair write-back is refuted by the 3-step history [fit; edit; fit]. Correspondence: random histories on real objects; stored dictionaries compared with the model, every fit with compute_features on deep copies and with a fresh object, every recompute with the functional call.',
                note=NOTE_STD + 'Tables are symbolic terms in the model; equality of real tables is established on the explored histories.', technique=T_STD, ref='DESIGN.md section 4, C14'),
    'C15': dict(text='Partial proof + correspondence: the theorem lifts per-call purity (result = function of argument values, environment returned unchanged) to all call sequences sharing argument objects (environment unchanged, equal calls give equal results). Whether each real function IS pure cannot be proved from a model of it; it is tested: random sequences over the listed API (20 call kinds incl. group and plot functions) sharing one set of argument objects, deep content hashes of every argument object before / after every call, equal calls compared.',
                note=NOTE_STD + 'Partial: Python object mutation lives in the runtime; per-call frame conditions are established on the explored sequences only.', technique='Coq proof of the lifting lemma + differential / snapshot testing of the per-call frame condition', ref='DESIGN.md section 4, C15'),
    'C16': dict(text='Proof: edges are the non-burst cycles adjacent to a burst; a cell differs from the input only if it is the amp/period consistency of an edge row; the new value is the one-sided consistency on the original table (NaN at table ends); new labels = threshold-and-run rule on the edited table; with unchanged or lowered (binary64) thresholds every bursting cycle stays bursting; pre-repair behaviour refuted. Correspondence: recompute_edges / Bycycle.recompute_edges on tables from generated signals with several reductions, all cells compared.',
                note=NOTE_STD, technique=T_STD, ref='DESIGN.md section 4, C16'),
    'C17': dict(text='Proof (no axioms, exact rationals in quarter turns): on well-formed cyclepoints the phase is 0 at peaks, -pi at troughs, -+pi/2 at midpoints, within [-pi, pi], strictly increasing between cyclepoints except the wrap landing on a trough, defined exactly on [first, last cyclepoint]; the pre-repair end mask and the pre-repair start mask are refuted by three witnesses. Correspondence: extrema_interpolated_phase on cyclepoints from generated signals and on every alternating placement on short arrays, values within 1e-6 quarter turns and NaN pattern exactly.',
                note=NOTE_STD + 'The model computes in Q; the float interpolation of numpy is tied by tolerance only.', technique=T_STD, ref='DESIGN.md section 4, C17'),
    'C18': dict(text='Proof: limit_df = filter (in order, payload untouched) + one uniform shift of all six sample columns; rows inside the window kept, rows outside not kept (binary64 order); limits accepted iff valid (None allowed); limit_signal = filter start <= t < stop; split/drop = partition of the columns; flatten = concatenation with per-table labels, 2-D row-major. Correspondence: all five functions on synthetic tables / grids incl. limits on cycle boundaries and empty windows.',
                note=NOTE_STD, technique=T_STD, ref='DESIGN.md section 4, C18'),
    'C20': dict(text='Proof for the selection / offset logic + correspondence: drawn markers are genuine cyclepoints of their series at their own sample and every cyclepoint strictly inside the view is drawn; the highlighted samples are exactly those of labelled cycles (sound) and contain every labelled cycle entirely in view (complete); panel points sit at cycle centres with the table values; the repaired offset equals the sample index on a finite grid of sampling rates (vm_compute sweep lifted), the truncating offset is refuted. Correspondence: Line2D data and masked arrays read back from the Axes (Agg) for random on-grid windows, both centrings, the four kind switches, plot_only_result / interp.',
                note=NOTE_STD + 'Partial: matplotlib rendering is trusted; only the data handed to the artists is checked.', technique=T_STD, ref='DESIGN.md section 4, C20'),
}

PENDING = {}


def main():
    props = [json.loads(l) for l in open('/verif/properties.jsonl')]
    checks, na = [], []
    for p in props:
        pid = p['id']
        if pid in CLAIMED:
            m = CLAIMED[pid]
            checks.append({
                'property_id': pid,
                'quick_cmd': './check %s --tier quick' % pid,
                'thorough_cmd': './check %s --tier thorough' % pid,
                'evidence_file': '/verif/evidence/%s.json' % pid,
                'replay_cmd_template': './check --replay {path}',
                'engine': 'coq-model+correspondence',
                'level_claimed': {'category': 'proof', 'text': m['text'], 'design_ref': m['ref']},
                'level_note': m['note'],
                'technique': m['technique'],
            })
        else:
            na.append({'property_id': pid, 'reason': PENDING.get(pid, 'check not built yet (build in progress; see DESIGN.md section 7 for the order)')})
    man = {
        'version': 1,
        'setup_cmd': 'cd /verif/coq && coq_makefile -f _CoqProject -o Makefile && timeout 3000 make -j16',
        'hooks': {'guard': 'BYCYCLE_VERIF', 'enable': 'no source hooks are needed; checks import /repo directly with PYTHONPATH=/repo',
                  'baseline_off_cmd': 'cd /repo && /venv/bin/python -m pytest -ra -q -p no:cacheprovider --timeout=900 --continue-on-collection-errors',
                  'source_commits': [], 'add_only': True},
        'engines': [{'name': 'coq-model+correspondence', 'path': '/verif/coq', 'serves_properties': sorted(CLAIMED),
                     'kind_free_text': 'hand-written Gallina model + Coq theorems (coq/theories), tied to /repo by harness/ (runs implementation, evaluates model with vm_compute on the same inputs)'}],
        'checks': checks,
        'not_applicable': na,
        'notes': 'See DESIGN.md. Trusted base per property is written into evidence/<id>.json (coverage.trusted_base) on every run.',
    }
    with open('/verif/MANIFEST.json', 'w') as f:
        json.dump(man, f, indent=1)


if __name__ == '__main__':
    main()
