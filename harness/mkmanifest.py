"""Regenerate /verif/MANIFEST.json from the per-property metadata below (dev-time helper)."""
import json, os

CLAIMED = {
    'C08': dict(
        text=('Proof: 10 axiom-free Coq theorems about the model minrun (window characterisation, whole-run keep/clear, '
              'no False->True, idempotence, edge neutrality, mirror symmetry, monotonicity), for all arrays and all '
              'min_n_cycles. The model (and a second, code-shaped model minrun_code) is tied to '
              'check_min_burst_cycles by evaluating both in Coq on every boolean array up to length 10 (13 thorough) x '
              'every min_n_cycles and on long random arrays, against the implementation output.'),
        note=('Trusted: Coq kernel + vm_compute; correspondence harness (differential testing bounds the model<->code tie); '
              'numpy array semantics. Non-boolean / non-ndarray inputs only checked to raise ValueError.'),
        technique='Coq proof by induction over lists + exhaustive/ random model-vs-implementation correspondence in vm_compute',
        ref='DESIGN.md section 4, C08'),
}

PENDING = {}


def main():
    props = [json.loads(l) for l in open('/verif/properties.jsonl')]
    checks, na = [], []
    for p in props:
        pid = p['id']
        if pid in CLAIMED:
            m = CLAIMED[pid]
            checks.append({
                'property_id': pid,
                'quick_cmd': './check %s --tier quick' % pid,
                'thorough_cmd': './check %s --tier thorough' % pid,
                'evidence_file': '/verif/evidence/%s.json' % pid,
                'replay_cmd_template': './check --replay {path}',
                'engine': 'coq-model+correspondence',
                'level_claimed': {'category': 'proof', 'text': m['text'], 'design_ref': m['ref']},
                'level_note': m['note'],
                'technique': m['technique'],
            })
        else:
            na.append({'property_id': pid, 'reason': PENDING.get(pid, 'check not built yet (build in progress; see DESIGN.md section 7 for the order)')})
    man = {
        'version': 1,
        'setup_cmd': 'cd /verif/coq && coq_makefile -f _CoqProject -o Makefile && timeout 3000 make -j16',
        'hooks': {'guard': 'BYCYCLE_VERIF', 'enable': 'no source hooks are needed; checks import /repo directly with PYTHONPATH=/repo',
                  'baseline_off_cmd': 'cd /repo && /venv/bin/python -m pytest -ra -q -p no:cacheprovider --timeout=900 --continue-on-collection-errors',
                  'source_commits': [], 'add_only': True},
        'engines': [{'name': 'coq-model+correspondence', 'path': '/verif/coq', 'serves_properties': sorted(CLAIMED),
                     'kind_free_text': 'hand-written Gallina model + Coq theorems (coq/theories), tied to /repo by harness/ (runs implementation, evaluates model with vm_compute on the same inputs)'}],
        'checks': checks,
        'not_applicable': na,
        'notes': 'See DESIGN.md. Trusted base per property is written into evidence/<id>.json (coverage.trusted_base) on every run.',
    }
    with open('/verif/MANIFEST.json', 'w') as f:
        json.dump(man, f, indent=1)


if __name__ == '__main__':
    main()
