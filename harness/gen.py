"""Seeded generators for signals and option sets (DESIGN.md section 3)."""
import math
import numpy as np

FS_CHOICES = [50, 64, 100, 128, 200, 250, 500, 1000]
KINDS = ['sine', 'asym', 'bursty', 'noise', 'sum', 'chirp', 'quant', 'clip', 'zeroed', 'dc', 'scaled', 'sparse']


def signal(rng, kind=None, max_len=1000):
    """Return dict(sig=np.array, fs, f_range, kind, period)."""
    kind = kind or rng.choice(KINDS)
    fs = rng.choice(FS_CHOICES)
    period = rng.choice([8, 10, 12, 16, 20, 25, 32])
    ncyc = rng.randint(7, 28) if kind != 'sparse' else rng.randint(24, 40)
    n = min(max_len, max(150, int(ncyc * period + rng.randint(0, period))))
    f0 = fs / period
    f_range = (round(0.7 * f0, 6), round(1.4 * f0, 6))
    nrng = np.random.default_rng(rng.getrandbits(32))
    t = np.arange(n)
    ph = rng.random() * 2 * math.pi
    base = np.sin(2 * math.pi * t / period + ph)

    def pink():
        x = np.cumsum(nrng.standard_normal(n))
        x = x - np.linspace(x[0], x[-1], n)
        return x / (np.std(x) + 1e-12)

    if kind == 'sine':
        sig = base + 0.05 * nrng.standard_normal(n)
    elif kind == 'asym':
        frac = rng.choice([0.2, 0.35, 0.65, 0.8])
        p = ((t + ph / (2 * math.pi) * period) % period) / period
        sig = np.where(p < frac, p / frac, (1 - p) / (1 - frac)) * 2 - 1 + 0.03 * nrng.standard_normal(n)
    elif kind == 'bursty':
        gate = np.zeros(n)
        i = rng.randint(0, 2 * period)
        while i < n:
            ln = rng.choice([2, 3, 4, 6, 9]) * period
            gate[i:i + ln] = 1
            i += ln + rng.choice([1, 2, 4]) * period
        sig = base * gate + 0.25 * pink() + 0.05 * nrng.standard_normal(n)
    elif kind == 'sparse':
        gate = np.zeros(n)
        i = rng.randint(2, 6) * period
        while i < n:
            ln = rng.choice([4, 5, 6, 8]) * period
            gate[i:i + ln] = 1
            i += ln + rng.choice([7, 9, 12]) * period
        sig = base * (0.08 + gate) + 0.05 * pink() + 0.02 * nrng.standard_normal(n)
    elif kind == 'noise':
        sig = pink() + 0.2 * nrng.standard_normal(n)
    elif kind == 'sum':
        sig = base + 0.5 * np.sin(2 * math.pi * t / (period * 2.7) + 1.0) + 0.4 * pink()
    elif kind == 'chirp':
        per = np.linspace(period * 0.8, period * 1.25, n)
        sig = np.sin(2 * math.pi * np.cumsum(1.0 / per) + ph) + 0.05 * nrng.standard_normal(n)
    elif kind == 'quant':
        k = rng.choice([3, 5, 9])
        sig = np.round((base + 0.2 * pink()) * k) / k
    elif kind == 'clip':
        c = rng.choice([0.3, 0.6, 0.9])
        sig = np.clip(base + 0.1 * nrng.standard_normal(n), -c, c)
    elif kind == 'zeroed':
        sig = base + 0.1 * pink()
        for _ in range(rng.randint(1, 3)):
            a = rng.randint(0, n - 1)
            sig[a:a + rng.choice([1, 2, 3]) * period] = 0.0
    elif kind == 'dc':
        sig = base + 0.1 * nrng.standard_normal(n) + rng.choice([-3.0, 0.5, 2.0, 10.0])
    else:  # scaled
        sig = (base + 0.1 * pink()) * (10.0 ** rng.choice([-12, -9, -6, -3, -2, 2, 3, 6, 9]))
    sig = np.asarray(sig, dtype=float)
    return {'sig': sig, 'fs': fs, 'f_range': f_range, 'kind': kind, 'period': period}


def short_bursts(rng, max_len=480):
    """Signal whose rhythm comes in short bursts of 1-5 periods separated by quiet stretches of 4-8 periods (kind
    'shortburst', not drawn by `signal`): whether a burst survives the detector's minimum-duration rule and whether its
    cycles form a long enough run then depends on the minimum-cycle count.  In 40 % the rhythm sits near the low edge of
    the band (period / 0.75), where the detector's minimum duration (counted in periods of the low cut-off) is only about
    as many rhythm cycles as the count.  Same dict as `signal` plus `burst_periods`."""
    fs = rng.choice(FS_CHOICES)
    period = rng.choice([8, 10, 12, 16])
    n = min(max_len, rng.randint(30, 44) * period + rng.randint(0, period))
    f0 = fs / period
    f_range = (round(0.7 * f0, 6), round(1.4 * f0, 6))
    nrng = np.random.default_rng(rng.getrandbits(32))
    t = np.arange(n)
    ph = rng.random() * 2 * math.pi
    pr = period / 0.75 if rng.random() < 0.4 else float(period)        # period of the rhythm itself
    base = np.sin(2 * math.pi * t / pr + ph)
    quiet = rng.choice([0.05, 0.15, 0.3])
    gate = np.zeros(n)
    lens = []
    i = int(rng.randint(3, 6) * pr)
    while i < n - 2 * pr:
        ln = rng.choice([1, 2, 2, 3, 3, 4, 5])
        lens.append(ln)
        gate[i:i + int(round(ln * pr))] = 1
        i += int(round((ln + rng.randint(4, 8)) * pr))
    x = np.cumsum(nrng.standard_normal(n))
    x = x - np.linspace(x[0], x[-1], n)
    pink = x / (np.std(x) + 1e-12)
    sig = base * (quiet + gate) + 0.03 * pink + 0.01 * nrng.standard_normal(n)
    return {'sig': np.asarray(sig, dtype=float), 'fs': fs, 'f_range': f_range, 'kind': 'shortburst', 'period': period,
            'burst_periods': lens}


BANDS = {'offlo': (0.35, 0.7), 'offhi': (1.4, 2.8), 'narrow': (0.9, 1.1), 'wideband': (0.5, 2.0)}


def vary(rng, s, f32=False):
    """Widen one generated signal in place of the fixed (0.7 f0, 1.4 f0) band / integer fs / float64 samples:
    ~20 % a band that misses the rhythm (offlo / offhi), a narrow or a wide band; ~15 % a non-integer or float-typed
    fs; ~10 % integer-valued samples to be passed as int64; with f32 ~6 % float32 samples.  `sig` stays a float64
    array holding the exact value of every sample (that is what the model sees); `dtype` says how it is passed.
    Returns a new dict (keys of `signal` plus dtype, band, nsec_unit = one period of the low cut-off in seconds)."""
    s = dict(s)
    s['band'], s['dtype'] = None, None
    s['nsec_unit'] = s['period'] / s['fs'] / 0.7
    f0 = s['fs'] / s['period']
    if rng.random() < 0.2:
        s['band'] = rng.choice(sorted(BANDS))
        lo, hi = BANDS[s['band']]
        s['f_range'] = (round(lo * f0, 6), round(hi * f0, 6))
        s['nsec_unit'] = 1.0 / s['f_range'][0]
    if rng.random() < 0.15:
        s['fs'] = rng.choice([s['fs'] + 0.5, float(s['fs']), round(s['fs'] * 1.003, 3)])
    r = rng.random()
    m = float(np.max(np.abs(s['sig']))) if len(s['sig']) else 0.0
    if r < 0.10 and m > 0 and math.isfinite(m):
        k = rng.choice([4, 10, 1000])
        s['sig'] = np.round(s['sig'] / m * k).astype(float)
        s['dtype'] = 'int64'
    elif f32 and r < 0.16:
        s['sig'] = s['sig'].astype(np.float32).astype(float)
        s['dtype'] = 'float32'
    return s


def typed(sig, dtype):
    """The array actually handed to the implementation for a case with the given `dtype` tag."""
    if dtype == 'int64':
        return np.asarray(sig).astype(np.int64)
    if dtype == 'float32':
        return np.asarray(sig).astype(np.float32)
    return sig


def find_extrema_kwargs(rng, n, period):
    """A documented find_extrema_kwargs value (or None) and its filter settings."""
    r = rng.random()
    if r < 0.3:
        return None
    kw = {}
    r2 = rng.random()
    if r2 < 0.45:
        kw['filter_kwargs'] = {'n_cycles': rng.choice([2, 3, 4])}
    elif r2 < 0.7:
        kw['filter_kwargs'] = {'n_seconds': None}   # placeholder, filled by caller with fs
    if rng.random() < 0.6:
        kw['boundary'] = rng.choice([0, 1, 5, n // 10])
    if rng.random() < 0.25:
        kw['pad'] = rng.random() < 0.5
    return kw


def hexlist(a):
    return [float(x).hex() for x in a]


def unhexlist(h):
    return np.array([float.fromhex(x) for x in h], dtype=float)
