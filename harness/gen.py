"""Seeded generators for signals and option sets (DESIGN.md section 3)."""
import math
import numpy as np

FS_CHOICES = [50, 64, 100, 128, 200, 250, 500, 1000]
KINDS = ['sine', 'asym', 'bursty', 'noise', 'sum', 'chirp', 'quant', 'clip', 'zeroed', 'dc', 'scaled', 'sparse']


def signal(rng, kind=None, max_len=1000):
    """Return dict(sig=np.array, fs, f_range, kind, period)."""
    kind = kind or rng.choice(KINDS)
    fs = rng.choice(FS_CHOICES)
    period = rng.choice([8, 10, 12, 16, 20, 25, 32])
    ncyc = rng.randint(7, 28) if kind != 'sparse' else rng.randint(24, 40)
    n = min(max_len, max(150, int(ncyc * period + rng.randint(0, period))))
    f0 = fs / period
    f_range = (round(0.7 * f0, 6), round(1.4 * f0, 6))
    nrng = np.random.default_rng(rng.getrandbits(32))
    t = np.arange(n)
    ph = rng.random() * 2 * math.pi
    base = np.sin(2 * math.pi * t / period + ph)

    def pink():
        x = np.cumsum(nrng.standard_normal(n))
        x = x - np.linspace(x[0], x[-1], n)
        return x / (np.std(x) + 1e-12)

    if kind == 'sine':
        sig = base + 0.05 * nrng.standard_normal(n)
    elif kind == 'asym':
        frac = rng.choice([0.2, 0.35, 0.65, 0.8])
        p = ((t + ph / (2 * math.pi) * period) % period) / period
        sig = np.where(p < frac, p / frac, (1 - p) / (1 - frac)) * 2 - 1 + 0.03 * nrng.standard_normal(n)
    elif kind == 'bursty':
        gate = np.zeros(n)
        i = rng.randint(0, 2 * period)
        while i < n:
            ln = rng.choice([2, 3, 4, 6, 9]) * period
            gate[i:i + ln] = 1
            i += ln + rng.choice([1, 2, 4]) * period
        sig = base * gate + 0.25 * pink() + 0.05 * nrng.standard_normal(n)
    elif kind == 'sparse':
        gate = np.zeros(n)
        i = rng.randint(2, 6) * period
        while i < n:
            ln = rng.choice([4, 5, 6, 8]) * period
            gate[i:i + ln] = 1
            i += ln + rng.choice([7, 9, 12]) * period
        sig = base * (0.08 + gate) + 0.05 * pink() + 0.02 * nrng.standard_normal(n)
    elif kind == 'noise':
        sig = pink() + 0.2 * nrng.standard_normal(n)
    elif kind == 'sum':
        sig = base + 0.5 * np.sin(2 * math.pi * t / (period * 2.7) + 1.0) + 0.4 * pink()
    elif kind == 'chirp':
        per = np.linspace(period * 0.8, period * 1.25, n)
        sig = np.sin(2 * math.pi * np.cumsum(1.0 / per) + ph) + 0.05 * nrng.standard_normal(n)
    elif kind == 'quant':
        k = rng.choice([3, 5, 9])
        sig = np.round((base + 0.2 * pink()) * k) / k
    elif kind == 'clip':
        c = rng.choice([0.3, 0.6, 0.9])
        sig = np.clip(base + 0.1 * nrng.standard_normal(n), -c, c)
    elif kind == 'zeroed':
        sig = base + 0.1 * pink()
        for _ in range(rng.randint(1, 3)):
            a = rng.randint(0, n - 1)
            sig[a:a + rng.choice([1, 2, 3]) * period] = 0.0
    elif kind == 'dc':
        sig = base + 0.1 * nrng.standard_normal(n) + rng.choice([-3.0, 0.5, 2.0, 10.0])
    else:  # scaled
        sig = (base + 0.1 * pink()) * (10.0 ** rng.choice([-12, -9, -6, -3, -2, 2, 3, 6, 9]))
    sig = np.asarray(sig, dtype=float)
    return {'sig': sig, 'fs': fs, 'f_range': f_range, 'kind': kind, 'period': period}


def short_bursts(rng, max_len=480):
    """Signal whose rhythm comes in short bursts of 1-5 periods separated by quiet stretches of 4-8 periods (kind
    'shortburst', not drawn by `signal`): whether a burst survives the detector's minimum-duration rule and whether its
    cycles form a long enough run then depends on the minimum-cycle count.  In 40 % the rhythm sits near the low edge of
    the band (period / 0.75), where the detector's minimum duration (counted in periods of the low cut-off) is only about
    as many rhythm cycles as the count.  Same dict as `signal` plus `burst_periods`."""
    fs = rng.choice(FS_CHOICES)
    period = rng.choice([8, 10, 12, 16])
    n = min(max_len, rng.randint(30, 44) * period + rng.randint(0, period))
    f0 = fs / period
    f_range = (round(0.7 * f0, 6), round(1.4 * f0, 6))
    nrng = np.random.default_rng(rng.getrandbits(32))
    t = np.arange(n)
    ph = rng.random() * 2 * math.pi
    pr = period / 0.75 if rng.random() < 0.4 else float(period)        # period of the rhythm itself
    base = np.sin(2 * math.pi * t / pr + ph)
    quiet = rng.choice([0.05, 0.15, 0.3])
    gate = np.zeros(n)
    lens = []
    i = int(rng.randint(3, 6) * pr)
    while i < n - 2 * pr:
        ln = rng.choice([1, 2, 2, 3, 3, 4, 5])
        lens.append(ln)
        gate[i:i + int(round(ln * pr))] = 1
        i += int(round((ln + rng.randint(4, 8)) * pr))
    x = np.cumsum(nrng.standard_normal(n))
    x = x - np.linspace(x[0], x[-1], n)
    pink = x / (np.std(x) + 1e-12)
    sig = base * (quiet + gate) + 0.03 * pink + 0.01 * nrng.standard_normal(n)
    return {'sig': np.asarray(sig, dtype=float), 'fs': fs, 'f_range': f_range, 'kind': 'shortburst', 'period': period,
            'burst_periods': lens}


BANDS = {'offlo': (0.35, 0.7), 'offhi': (1.4, 2.8), 'narrow': (0.9, 1.1), 'wideband': (0.5, 2.0)}


def vary(rng, s, f32=False):
    """Widen one generated signal in place of the fixed (0.7 f0, 1.4 f0) band / integer fs / float64 samples:
    ~20 % a band that misses the rhythm (offlo / offhi), a narrow or a wide band; ~15 % a non-integer or float-typed
    fs; ~10 % integer-valued samples to be passed as int64; with f32 ~6 % float32 samples.  `sig` stays a float64
    array holding the exact value of every sample (that is what the model sees); `dtype` says how it is passed.
    Returns a new dict (keys of `signal` plus dtype, band, nsec_unit = one period of the low cut-off in seconds)."""
    s = dict(s)
    s['band'], s['dtype'] = None, None
    s['nsec_unit'] = s['period'] / s['fs'] / 0.7
    f0 = s['fs'] / s['period']
    if rng.random() < 0.2:
        s['band'] = rng.choice(sorted(BANDS))
        lo, hi = BANDS[s['band']]
        s['f_range'] = (round(lo * f0, 6), round(hi * f0, 6))
        s['nsec_unit'] = 1.0 / s['f_range'][0]
    if rng.random() < 0.15:
        s['fs'] = rng.choice([s['fs'] + 0.5, float(s['fs']), round(s['fs'] * 1.003, 3)])
    r = rng.random()
    m = float(np.max(np.abs(s['sig']))) if len(s['sig']) else 0.0
    if r < 0.10 and m > 0 and math.isfinite(m):
        k = rng.choice([4, 10, 1000])
        s['sig'] = np.round(s['sig'] / m * k).astype(float)
        s['dtype'] = 'int64'
    elif f32 and r < 0.16:
        s['sig'] = s['sig'].astype(np.float32).astype(float)
        s['dtype'] = 'float32'
    return s


def typed(sig, dtype):
    """The array actually handed to the implementation for a case with the given `dtype` tag."""
    if dtype == 'int64':
        return np.asarray(sig).astype(np.int64)
    if dtype == 'float32':
        return np.asarray(sig).astype(np.float32)
    return sig


def find_extrema_kwargs(rng, n, period):
    """A documented find_extrema_kwargs value (or None) and its filter settings."""
    r = rng.random()
    if r < 0.3:
        return None
    kw = {}
    r2 = rng.random()
    if r2 < 0.45:
        kw['filter_kwargs'] = {'n_cycles': rng.choice([2, 3, 4])}
    elif r2 < 0.7:
        kw['filter_kwargs'] = {'n_seconds': None}   # placeholder, filled by caller with fs
    if rng.random() < 0.6:
        kw['boundary'] = rng.choice([0, 1, 5, n // 10])
    if rng.random() < 0.25:
        kw['pad'] = rng.random() < 0.5
    return kw


def hexlist(a):
    return [float(x).hex() for x in a]


def unhexlist(h):
    return np.array([float.fromhex(x) for x in h], dtype=float)


# ----------------------------------------------------------------------------------------------
# filter lengths that fall exactly on an integer (or one ulp beside it)
#
# neurodsp turns a length given in cycles of the low cut-off / in seconds into taps by
#     ceil(fs * n_cycles / f_lo)   resp.   ceil(fs * n_seconds),   made odd by adding one.
# The (fs, f_range, n_cycles) combinations of `signal` never put the product on an integer (n_cycles * period / 0.7), so a
# computation that re-expresses the length (cycles -> seconds -> taps, fs / f_lo first, ...) and lands one ulp on the
# other side of an integer gives the same taps everywhere.  The tables below are derived by search: all (fs, f_lo, n)
# for which the mathematically equivalent ways of computing the length in binary64 do NOT all agree after the ceil.

EXACT_FS = [50, 64, 100, 125, 128, 150, 200, 250, 256, 300, 400, 500, 512, 600, 750, 1000, 1024, 1200, 2000]
EXACT_N = [2, 3, 4, 5]
_EXACT_CACHE = {}


def odd_taps(x):
    """neurodsp's integer filter length for the real-valued length x."""
    k = int(math.ceil(x))
    return k + 1 if k % 2 == 0 else k


def cycle_length_ways(fs, n, f_lo):
    """The length of n cycles of f_lo in samples, computed in binary64 in mathematically equivalent ways; the first is
    the documented one (neurodsp compute_filter_length, and `min_n_cycles * fs / f_lo` of the dual-threshold detector)."""
    fs, n, f_lo = float(fs), float(n), float(f_lo)
    return [fs * n / f_lo, fs * (n / f_lo), (fs / f_lo) * n, n * (1.0 / f_lo) * fs, fs * n * (1.0 / f_lo), n / (f_lo / fs)]


def seconds_length_ways(fs, ns, f_lo):
    """The length of ns seconds in samples: documented way first, then through a number of cycles of f_lo."""
    fs, ns, f_lo = float(fs), float(ns), float(f_lo)
    return [fs * ns, fs * (ns * f_lo) / f_lo, (ns * f_lo) * (fs / f_lo), ns / (1.0 / fs), (ns * f_lo) * fs / f_lo]


def _relation(x, L):
    return 'at' if x == L else 'above' if x > L else 'below'


def _classify(ways, true, L):
    """(rel, disc_taps, disc_ceil): where the documented computation lands relative to the integer L ('exact' = the
    real-number value is L itself; 'at' = it is not but the rounded result is; 'above' / 'below' = an ulp beside it), and
    whether the equivalent computations disagree in the odd tap count / in the plain ceil."""
    rel = 'exact' if true == L else _relation(ways[0], L)
    return rel, len(set(odd_taps(w) for w in ways)) > 1, len(set(int(math.ceil(w)) for w in ways)) > 1


def exact_cycle_table(period):
    """All (fs, f_lo, n, L) with fs in EXACT_FS, n in EXACT_N cycles, L an integer number of samples with the low
    cut-off period L / n between 1.15 and 1.9 periods of the rhythm (the rhythm of `period` samples stays inside the band
    (f_lo, 2 f_lo)), f_lo one of fs*n/L (binary64 quotient), its 6- and 3-decimal roundings and its two neighbours,
    such that fs*n/f_lo is L within 1e-12 relative AND (the value is exactly L, or the equivalent binary64 computations
    disagree after the ceil).  Entries: dict(fs, f_lo, n, L, rel, disc_taps, disc_ceil)."""
    if period in _EXACT_CACHE:
        return _EXACT_CACHE[period]
    from fractions import Fraction
    out = []
    for fs in EXACT_FS:
        for n in EXACT_N:
            for L in range(int(math.ceil(1.15 * period * n)), int(math.floor(1.9 * period * n)) + 1):
                q = fs * n / L
                seen = set()
                for f_lo in (q, round(q, 6), round(q, 3), math.nextafter(q, math.inf), math.nextafter(q, 0.0)):
                    if f_lo in seen or f_lo <= 0:
                        continue
                    seen.add(f_lo)
                    true = Fraction(fs * n) / Fraction(f_lo)
                    if abs(true - L) > Fraction(L, 10 ** 12):
                        continue
                    rel, dt, dc = _classify(cycle_length_ways(fs, n, f_lo), true, L)
                    if rel == 'exact' or dt or dc:
                        out.append({'fs': fs, 'f_lo': f_lo, 'n': n, 'L': L, 'rel': rel, 'disc_taps': dt, 'disc_ceil': dc})
    _EXACT_CACHE[period] = out
    return out


def _pick_short(r, entries):
    """Weighted choice, weight 1 / L: two taps more change a short kernel (and what it filters out) more than a long one."""
    return r.choices(entries, weights=[1.0 / e['L'] for e in entries])[0]


def exact_cycles_pick(r, period, nsamp, n=None, need='taps'):
    """One entry of exact_cycle_table(period) whose filter fits a signal of nsamp samples (n: the number of cycles asked
    for, None = any).  need='taps': 80 % an entry on which the equivalent computations disagree in the odd tap count;
    need='ceil': in the plain ceil (durations); the rest any entry; the relation classes (exact / at / above / below) are
    drawn with equal weight.  None when there is no such entry."""
    tab = [e for e in exact_cycle_table(period) if (n is None or e['n'] == n) and e['L'] + 2 < 0.9 * nsamp]
    if not tab:
        return None
    key = 'disc_taps' if need == 'taps' else 'disc_ceil'
    sel = [e for e in tab if e[key]]
    if not sel or r.random() >= 0.8:
        sel = tab
    rels = sorted(set(e['rel'] for e in sel))
    rel = r.choice(rels)
    return dict(_pick_short(r, [e for e in sel if e['rel'] == rel]))


def exact_seconds_pick(r, fs, f_lo, nsamp, lo_periods=0.4, hi_periods=4.0):
    """n_seconds = L / fs (binary64 quotient, its 6- / 4-decimal rounding, its neighbours) for an integer L between
    lo_periods and hi_periods periods of the low cut-off, such that fs * n_seconds is L within 1e-12 relative and (it is
    exactly L or the equivalent computations disagree after the ceil); preference as in exact_cycles_pick.  Returns
    dict(n_seconds, L, rel, disc_taps, disc_ceil) or None."""
    from fractions import Fraction
    P = fs / f_lo
    out = []
    for L in range(max(3, int(math.ceil(lo_periods * P))), int(min(hi_periods * P, 0.9 * nsamp - 2)) + 1):
        q = L / fs
        seen = set()
        for ns in (q, round(q, 6), round(q, 4), math.nextafter(q, math.inf), math.nextafter(q, 0.0)):
            if ns in seen or ns <= 0:
                continue
            seen.add(ns)
            true = Fraction(fs) * Fraction(ns)
            if abs(true - L) > Fraction(L, 10 ** 12):
                continue
            rel, dt, dc = _classify(seconds_length_ways(fs, ns, f_lo), true, L)
            if rel == 'exact' or dt or dc:
                out.append({'n_seconds': ns, 'L': L, 'rel': rel, 'disc_taps': dt, 'disc_ceil': dc})
    if not out:
        return None
    sel = [e for e in out if e['disc_taps']]
    if not sel or r.random() >= 0.8:
        sel = out
    rel = r.choice(sorted(set(e['rel'] for e in sel)))
    return dict(_pick_short(r, [e for e in sel if e['rel'] == rel]))


def roughen(seed, sig, level, dtype=None):
    """`sig` plus broadband noise (pink + white, `level` standard deviations of the signal in total) from `seed`: on a
    clean rhythm a filter kernel that is two taps longer moves no zero crossing; on a broadband signal it does.  Integer
    (int64) samples stay integers, float32 samples stay float32 values."""
    sig = np.asarray(sig, dtype=float)
    n = len(sig)
    nr = np.random.default_rng(seed)
    sd = float(np.std(sig))
    if not (sd > 0 and math.isfinite(sd)):
        sd = 1.0
    x = np.cumsum(nr.standard_normal(n))
    x = x - np.linspace(x[0], x[-1], n)
    out = sig + level * sd * (0.7 * x / (np.std(x) + 1e-12) + 0.7 * nr.standard_normal(n))
    if dtype == 'int64':
        out = np.round(out)
    elif dtype == 'float32':
        out = out.astype(np.float32).astype(float)
    return out


# ----------------------------------------------------------------------------------------------
# (WP19) the resolved tap count re-expressed, and signals on which a slightly different band-pass shows

def taps_length_ways(fs, taps, f_lo):
    """The resolved (integer, odd) tap count of a filter expressed in seconds / in cycles of f_lo and turned back into
    samples, in binary64: documented value first (the integer itself), then taps -> seconds -> samples in two ways and
    taps -> cycles -> samples in two ways.  Mathematically all are `taps`."""
    fs, t, f_lo = float(fs), float(taps), float(f_lo)
    return [t, fs * (t / fs), (t / fs) / (1.0 / fs), fs * (t * f_lo / fs) / f_lo, fs * ((t / fs) * f_lo) / f_lo]


def taps_roundtrip_disagrees(fs, taps, f_lo):
    """True when one of taps_length_ways resolves (ceil, made odd) to another tap count than `taps`."""
    return any(odd_taps(w) != int(taps) for w in taps_length_ways(fs, taps, f_lo))


def _roundtrip_ways(fs, taps, f_lo):
    """Indices (1..4) of the computations of taps_length_ways that resolve to another tap count than `taps`."""
    return [i for i, w in enumerate(taps_length_ways(fs, taps, f_lo)) if i and odd_taps(w) != int(taps)]


def _pick_by_way(r, entries):
    """entries: (dict, ways) pairs with non-empty ways.  The disagreeing computation is drawn first (each of the
    computations that occurs with equal weight), then an entry on which it disagrees, weight 1 / L."""
    if not entries:
        return None
    way = r.choice(sorted(set(w for _, ws in entries for w in ws)))
    return dict(_pick_short(r, [e for e, ws in entries if way in ws]), roundtrip=way)


def exact_cycles_roundtrip_pick(r, period, nsamp, n=None):
    """One entry of exact_cycle_table(period) (as exact_cycles_pick) whose documented tap count
    odd_taps(fs * n / f_lo) is not reproduced by every computation of taps_length_ways (entry key `roundtrip` = index
    of the computation drawn).  None when the table has no such entry that fits nsamp samples."""
    tab = []
    for e in exact_cycle_table(period):
        if (n is None or e['n'] == n) and e['L'] + 2 < 0.9 * nsamp:
            ws = _roundtrip_ways(e['fs'], odd_taps(cycle_length_ways(e['fs'], e['n'], e['f_lo'])[0]), e['f_lo'])
            if ws:
                tab.append((e, ws))
    return _pick_by_way(r, tab)


def seconds_roundtrip_pick(r, fs, f_lo, nsamp, lo_periods=0.4, hi_periods=4.0):
    """n_seconds (as exact_seconds_pick: L / fs for an integer L, its roundings and neighbours, fs * n_seconds within
    1e-12 of L) whose documented tap count odd_taps(fs * n_seconds) is not reproduced by every computation of
    taps_length_ways.  dict(n_seconds, L, rel, disc_taps, disc_ceil, roundtrip) or None."""
    from fractions import Fraction
    P = fs / f_lo
    out = []
    for L in range(max(3, int(math.ceil(lo_periods * P))), int(min(hi_periods * P, 0.9 * nsamp - 2)) + 1):
        q = L / fs
        for ns in sorted(set((q, round(q, 6), round(q, 4), math.nextafter(q, math.inf), math.nextafter(q, 0.0)))):
            if ns <= 0:
                continue
            true = Fraction(fs) * Fraction(ns)
            if abs(true - L) > Fraction(L, 10 ** 12):
                continue
            ways = seconds_length_ways(fs, ns, f_lo)
            ws = _roundtrip_ways(fs, odd_taps(ways[0]), f_lo)
            if ws:
                rel, dt, dc = _classify(ways, true, L)
                out.append(({'n_seconds': ns, 'L': L, 'rel': rel, 'disc_taps': dt, 'disc_ceil': dc}, ws))
    return _pick_by_way(r, out)


def fragile(seed, n, period, amp, quant=None):
    """n samples of broadband noise (white + detrended random walk, 0.7 standard deviations each) with a weak rhythm of
    `period` samples (amplitude `amp`, slowly waxing and waning) underneath: the band-passed copy of such a signal has
    many half-waves of small amplitude, so that a band-pass with a slightly different kernel (a few taps more or less)
    moves, adds or removes zero crossings and with them reported raw extrema.  quant: round to multiples of 1 / quant
    (ties and plateaus in the raw samples)."""
    nr = np.random.default_rng(seed)
    t = np.arange(n)
    x = np.cumsum(nr.standard_normal(n))
    x = x - np.linspace(x[0], x[-1], n)
    env = 0.5 + 0.5 * np.sin(2 * math.pi * t / (period * (5.3 + 4 * nr.random())) + 2 * math.pi * nr.random())
    sig = amp * env * np.sin(2 * math.pi * t / period + 2 * math.pi * nr.random())
    sig = sig + 0.7 * x / (np.std(x) + 1e-12) + 0.7 * nr.standard_normal(n)
    if quant:
        sig = np.round(sig * quant) / quant
    return np.asarray(sig, dtype=float)
