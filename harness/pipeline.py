"""Shared driver for the compute_features pipeline (C01, C04, C05, C06, C07, C09, C10):
case generation, implementation runs, reference kernels, Coq case encoding, statement oracles."""
import math
import random
import numpy as np
from harness import coqio, gen, ref
from harness.core import exc_kind, canon_hash

COQ_HEADER = ('From Coq Require Import List ZArith NArith Floats.PrimFloat. Import ListNotations.\n'
              'From ByC Require Import Base.Result Harness.Compare Model.Cycles Model.Features.\nOpen Scope float_scope.')
COQ_RUNNER = 'bad_features'
COQ_TYPES = ('features_in', 'result (list flat_row)')
SHARD = 12
ERRMAP = {'Value': 'EValue', 'Index': 'EIndex', 'Key': 'EKey', 'Type': 'EType'}
CYC_DEFAULTS = {'amp_fraction_threshold': 0., 'amp_consistency_threshold': .5,
                'period_consistency_threshold': .5, 'monotonicity_threshold': .8, 'min_n_cycles': 3}
CYC_KEYS = ['amp_fraction_threshold', 'amp_consistency_threshold', 'period_consistency_threshold',
            'monotonicity_threshold']
SHAPE_INT = ['period', 'time_peak', 'time_trough', 'time_decay', 'time_rise']
SHAPE_FLT = ['volt_peak', 'volt_trough', 'volt_decay', 'volt_rise', 'volt_amp', 'time_rdsym', 'time_ptsym', 'band_amp']
BURST = ['amp_fraction', 'amp_consistency', 'period_consistency', 'monotonicity', 'burst_fraction']
TRUST = ['reference band-pass sign bits, amplitude envelope and dual-threshold mask are computed by the harness with '
         'neurodsp exactly as documented (pad = ceil(filt_len/2), remove_edges=False, n_cycles=3 for the envelope; for a '
         'direct compute_shape_features(n_cycles=k) call k for the envelope and for the default extrema filter), always on '
         'the float64 value of the samples; the detector mask with the minimum-cycle count the property prescribes (burst '
         'options\' value, else thresholds\', else 3) and the caller\'s detector filter_kwargs, while the run filter\'s count is '
         'resolved by the Coq model from the two raw option values',
         'derived float cells compared with 1e-9 relative tolerance; indices, labels, NaN pattern and errors exactly']


def sample_cols(center):
    side = 'trough' if center == 'peak' else 'peak'
    lastzx = 'sample_last_zerox_decay' if center == 'peak' else 'sample_last_zerox_rise'
    return ['sample_' + center, 'sample_last_' + side, 'sample_next_' + side, 'sample_zerox_rise',
            'sample_zerox_decay', lastzx]


# ----------------------------------------------------------------------------------------------
# generation

def gen_case(rng, tier, methods=('cycles', 'amp'), centers=('peak', 'trough'), kinds=None, max_len=480,
             fek_prob=0.7, extra=None, wide=False, f32=False, rs_prob=0.85, amp_wide=False, signal=None, exact_k=3,
             other=True, short=True):
    """One compute_features case.  ~12 % of the cases (short_recording; short=False = not here) are cut down to a
    recording only just longer than the longest filter of the analysis (`+short`: tables of 1-4 rows).  wide=True additionally varies the band (off-band / narrow / wide), the type and
    value of fs, the container of f_range, the sample dtype (int64; float32 with f32=True) and generates empty option
    dictionaries (gen.vary); amp_wide=True additionally generates, for the amplitude method, the detector's own
    `filter_kwargs` and a burst_fraction_threshold taken from a first run (`bft_pick`); the default keeps the original
    stream of the drivers that did not ask for it.  `signal`: a ready-made gen.signal dictionary.  Every case gets a
    `key_order` (insertion order of the option dictionaries; drawn from a generator seeded with the case content so
    that the main stream is not shifted) and the fields drawn by `mechanisms` (`prebuffer`, `readonly`, `rejected`:
    the analysis on a refilled work buffer, on a read-only array, after rejected calls; same kind of generator).
    ~15 % of the cases (drawn the same way, exact_length) are re-expressed so that a filter length / minimum duration
    falls exactly on an integer number of samples or one ulp beside it (`exact`; exact_k: the envelope's number of
    cycles, None = not here).  ~15 % of the consistency-method cases (drawn the same way, other_method_options; other=False
    = not here) carry a non-empty burst_kwargs dictionary, i.e. the options of the method that is NOT selected (`+bk`)."""
    s = signal if signal is not None else gen.signal(rng, kind=(rng.choice(kinds) if kinds else None), max_len=max_len)
    if wide:
        s = gen.vary(rng, s, f32=f32)
    n = len(s['sig'])
    method = rng.choice(list(methods))
    tag = ''.join('+' + x for x in (s.get('band'), s.get('dtype')) if x)
    c = {'kind': 'pipe/%s/%s%s' % (method, s['kind'], tag), 'sig': gen.hexlist(s['sig']), 'fs': s['fs'],
         'f_range': list(s['f_range']), 'center': rng.choice(list(centers)), 'method': method,
         'return_samples': rng.random() < rs_prob}
    if wide:
        c['f_range_as'] = rng.choice(['tuple', 'list'])
        if s.get('dtype'):
            c['dtype'] = s['dtype']
    fek = None
    if rng.random() < fek_prob:
        fek = {}
        r = rng.random()
        if r < 0.45:
            fek['filter_kwargs'] = {'n_cycles': rng.choice([1, 2, 3, 4])}
        elif r < 0.7:
            k = rng.choice([0.3, 0.45, 0.6, 0.9, 2.5, 3, 4])         # filter length in periods of the low cut-off
            fek['filter_kwargs'] = {'n_seconds': round(k * s['nsec_unit'] if 'nsec_unit' in s else
                                                       k * s['period'] / s['fs'] / 0.7, 6)}
        if rng.random() < 0.6:
            fek['boundary'] = rng.choice([0, 1, 5, n // 10])
        if rng.random() < 0.2:
            fek['pad'] = rng.random() < 0.5
    c['fek'] = fek
    if method == 'cycles':
        thr = None
        if rng.random() < 0.85:
            thr = {}
            for k in CYC_KEYS:
                if rng.random() < 0.8:
                    thr[k] = rng.choice([0.0, 0.1, 0.2, 0.3, 0.5, 0.6, 0.8])
            if rng.random() < 0.7:
                thr['min_n_cycles'] = rng.choice([1, 2, 3, 3, 4])
        c['thr'] = thr
        c['bk'] = None
    else:
        thr = None
        if rng.random() < 0.9:
            thr = {}
            if rng.random() < 0.8:
                thr['burst_fraction_threshold'] = rng.choice([0, 0.25, 0.5, 0.75, 1, 1])
            if rng.random() < 0.5:
                thr['min_n_cycles'] = rng.choice([1, 2, 3, 4, 5])
        bk = None
        if rng.random() < 0.8:
            bk = {}
            if rng.random() < 0.6:
                bk['amp_threshes'] = rng.choice([(1, 2), (0.5, 1.5), (1, 1.5), (0.8, 1.2)])
            if rng.random() < 0.5:
                bk['min_n_cycles'] = rng.choice([1, 2, 3, 4, 5])
            if rng.random() < 0.25:
                bk['min_burst_duration'] = rng.choice([0, 0, round(rng.choice([1, 2, 3]) * s['period'] / s['fs'], 6)])
            if amp_wide and rng.random() < 0.25:
                # the detector's own band-pass options (documented option of compute_burst_fraction)
                if rng.random() < 0.6:
                    bk['filter_kwargs'] = {'n_cycles': rng.choice([2, 4, 5])}
                else:
                    bk['filter_kwargs'] = {'n_seconds': round(rng.choice([2, 2.5, 4]) * s.get('nsec_unit', s['period'] / s['fs'] / 0.7), 6)}
        c['thr'], c['bk'] = thr, bk
        if amp_wide and rng.random() < 0.3:
            # burst_fraction_threshold := the burst_fraction of a partially bursting row of a first run (row chosen by
            # `pick`), or its neighbour one ulp below / above; resolved at run time (run_pipe), recorded as bft_used
            c['bft_pick'] = {'pick': rng.random(), 'ulp': rng.choice([-1, 0, 0, 1])}
    if wide and method == 'cycles':
        # empty option dictionaries (what the object interface passes for "no options")
        if rng.random() < 0.08:
            c['thr'] = {}
        if rng.random() < 0.15:
            c['bk'] = {}
    if extra:
        c.update(extra)
    if other:
        other_method_options(c, s)
    if not (short and short_recording(c, s, force=(short == 'force'))) and exact_k is not None:
        exact_length(c, s['period'], exact_k)
    c['key_order'] = key_order(c)
    c.update(mechanisms(c))
    return c


SHORT_SHARE = 0.12


def short_recording(c, s, force=False):
    """The lower edge of the quantified class: for SHORT_SHARE of the cases (drawn from a generator seeded with the case
    content, so that every other case stays as it was) the recording is cut down to a stretch only just longer than
    the longest band-pass kernel the analysis designs (extrema filter, the 3-cycle envelope filter, the detector's
    filter) -- 1 sample to one rhythm period more, at a random offset, so that the first cyclepoint can be of either
    kind -- which gives tables of one to four rows.  Recorded in c['short'], kind tagged +short.  Returns True when
    applied (such a case is not re-expressed by exact_length)."""
    r = random.Random(canon_hash({k: v for k, v in c.items() if k not in ('key_order', 'history', 'exact', 'short') + MECH_FIELDS})
                      + '/short')
    if r.random() >= SHORT_SHARE and not force:
        return False
    from neurodsp.filt.fir import compute_filter_length
    n = len(c['sig'])
    fs, band = c['fs'], c['f_range']

    def taps(fk):
        fk = fk or {}
        ns = fk.get('n_seconds')
        try:
            return int(compute_filter_length(fs, 'bandpass', band[0], band[1], n_seconds=ns,
                                             n_cycles=None if ns is not None else fk.get('n_cycles', 3)))
        except Exception:
            return None
    tight = False
    if not s.get('band') and (force or r.random() < 0.5):
        # low cut-off close to the rhythm: the 3-cycle kernel is then only ~3.3 rhythm periods long (tables of 1-2 rows)
        f0 = fs / float(s['period'])
        band = [round((0.95 if force else 0.9) * f0, 4), round(1.45 * f0, 4)]
        tight = True
    lens = [taps(None), taps((c.get('fek') or {}).get('filter_kwargs'))]
    if c['method'] == 'amp':
        lens.append(taps((c.get('bk') or {}).get('filter_kwargs')))
    if any(x is None for x in lens):
        return False
    period = max(2, int(round(s['period'])))
    L = max(lens) + r.choice([1, 2, 3] if force else [1, 2, 3, period // 5, period // 4, period // 3] if tight else
                             [1, 2, 3, period // 3, period // 2, period, period + period // 2])
    if L >= n:
        return False
    if tight:
        c['f_range'] = band
    off = r.randrange(0, n - L + 1)
    c['sig'] = c['sig'][off:off + L]
    fek = c.get('fek')
    if fek and fek.get('boundary') == n // 10:
        fek['boundary'] = L // 10
    if force and r.random() < 0.6:
        # a boundary of a fraction of a period removes the extrema next to the ends: the table loses a row or two
        c['fek'] = dict(c.get('fek') or {}, boundary=r.choice([period // 4, period // 2, (3 * period) // 4]))
    c['short'] = {'samples': L, 'offset': off, 'longest_kernel': max(lens), 'tight_band': tight}
    c['kind'] += '+short'
    return True


OTHER_SHARE = 0.15


def other_method_options(c, s):
    """Options documented for ONE burst method given while the OTHER method is selected.  What the library does with them
    (established on the unchanged library, compute_features and Bycycle alike):
      burst_method='cycles' + burst_kwargs (amp_threshes, min_n_cycles, min_burst_duration, filter_kwargs): accepted, and
          the table is the one of the call without burst_kwargs (the dictionary belongs to the amplitude detector);
      burst_method='amp' + a consistency threshold in threshold_kwargs: rejected (TypeError from detect_bursts_amp), so
          nothing of that kind is generated here (min_n_cycles, the one key both methods' thresholds share, is C07's
          routing subject and generated by gen_case / gen_routing_case).
    For OTHER_SHARE of the consistency-method cases (drawn from a generator seeded with the case content: the main stream
    of no driver is shifted, every other case stays as it was) burst_kwargs becomes a NON-EMPTY dictionary of the
    amplitude detector's options that always holds a min_n_cycles DIFFERENT from the count in force (the thresholds'
    value, else 3).  The judged table is the one the properties describe for the selected method: `resolved` takes the
    count from the thresholds only and the model (MCycles) gets thresholds and that count, as before.  Modifies c in
    place (before exact_length / key_order / mechanisms are drawn), records c['other'], tags the kind with +bk."""
    if c['method'] != 'cycles' or c.get('shape_only'):
        return None
    r = random.Random(canon_hash({k: v for k, v in c.items() if k not in ('key_order', 'history', 'exact', 'other') + MECH_FIELDS})
                      + '/othermethod')
    if r.random() >= OTHER_SHARE:
        return None
    in_force = (c.get('thr') or {}).get('min_n_cycles', 3)
    bk = {'min_n_cycles': r.choice([n for n in (1, 1, 2, 2, 3, 4, 5, 6, 10) if n != in_force])}
    if r.random() < 0.6:
        bk['amp_threshes'] = r.choice([(1, 2), (0.5, 1.5), (1, 1.5), (0.8, 1.2), (0, 0), (5, 9)])
    if r.random() < 0.4:
        if r.random() < 0.6:
            bk['filter_kwargs'] = {'n_cycles': r.choice([1, 2, 4, 5])}
        else:
            bk['filter_kwargs'] = {'n_seconds': round(r.choice([0.5, 2, 2.5, 4]) * s.get('nsec_unit', s['period'] / s['fs'] / 0.7), 6)}
    if r.random() < 0.25:
        bk['min_burst_duration'] = r.choice([0, round(r.choice([1, 2, 3, 30]) * s['period'] / s['fs'], 6)])
    c['bk'] = bk
    c['other'] = {'options_of': 'amp', 'min_n_cycles': bk['min_n_cycles']}
    c['kind'] += '+bk'
    return c['other']


ROUTING_PAIRS = [(1, 5), (5, 1), (2, 6), (6, 2), (2, 4), (4, 2), (1, 3), (3, 1),
                 (1, None), (1, None), (2, None), (2, None), (5, None), (None, 1), (None, 1), (None, 2), (None, 2), (None, 5),
                 (None, None), (None, None), (None, None), (None, None)]


def gen_routing_case(rng, tier):
    """C07 min_n_cycles routing made observable: rhythm in bursts of 1-5 periods, the two dictionaries' counts on either
    side of the burst length (or only one / none given, so that the other value / the default 3 matters),
    burst_fraction_threshold in {.25, .5, .75, 1}, no min_burst_duration, a short detector filter in 60 %.  run_pipe records whether another plausible count would
    change the detector mask or the labels (`routing`)."""
    s = gen.short_bursts(rng)
    bkn, thn = rng.choice(ROUTING_PAIRS)
    c = {'kind': 'route/%s/%s' % ('both' if bkn is not None and thn is not None else 'bk' if bkn is not None else
                                  'thr' if thn is not None else 'neither', s['kind']),
         'sig': gen.hexlist(s['sig']), 'fs': s['fs'], 'f_range': list(s['f_range']), 'center': rng.choice(['peak', 'trough']),
         'method': 'amp', 'return_samples': True, 'fek': None, 'routing': True}
    if rng.random() < 0.3:
        c['fek'] = {'filter_kwargs': {'n_cycles': rng.choice([2, 3, 4])}}
    thr = {'burst_fraction_threshold': rng.choice([0.25, 0.5, 0.5, 0.75, 1])}
    if thn is not None:
        thr['min_n_cycles'] = thn
    bk = None
    if bkn is not None or rng.random() < 0.6:
        bk = {}
        if rng.random() < 0.5:
            bk['amp_threshes'] = rng.choice([(1, 2), (0.5, 1.5), (1, 1.5), (0.8, 1.2)])
        if bkn is not None:
            bk['min_n_cycles'] = bkn
        if rng.random() < 0.6:
            # a short detector filter keeps the detected bursts about as short as the rhythm's bursts
            bk['filter_kwargs'] = {'n_cycles': rng.choice([1, 2])}
    c['thr'], c['bk'] = thr, bk
    exact_length(c, s['period'], 3)
    c['key_order'] = key_order(c)
    c.update(mechanisms(c))
    return c


KW_NAMES = {'fek': 'find_extrema_kwargs', 'thr': 'threshold_kwargs', 'bk': 'burst_kwargs'}


def key_order(c):
    """Insertion order of the keys of the caller's option dictionaries and of the keyword arguments themselves
    (a caller does not write his settings in any canonical order).  Drawn from a generator seeded with the case content,
    stored in the case (`key_order`) and honoured by build_kwargs, so that a case replays exactly."""
    r = random.Random(canon_hash({k: v for k, v in c.items() if k not in ('key_order', 'history', 'exact') + MECH_FIELDS}))
    ko = {}
    for name in ('fek', 'thr', 'bk'):
        d = c.get(name)
        if isinstance(d, dict) and len(d) > 1:
            keys = list(d)
            m = r.random()
            if 'min_n_cycles' in keys and m < 0.5:
                # min_n_cycles first / last (the key both dictionaries may carry)
                keys.remove('min_n_cycles')
                r.shuffle(keys)
                keys = ['min_n_cycles'] + keys if m < 0.25 else keys + ['min_n_cycles']
            else:
                r.shuffle(keys)
            ko[name] = keys
    top = [n for n in ('fek', 'thr', 'bk') if c.get(n) is not None]
    r.shuffle(top)
    ko['kw'] = top
    return ko


def _ordered(d, order):
    if not order:
        return dict(d)
    out = {k: d[k] for k in order if k in d}
    for k in d:
        if k not in out:
            out[k] = d[k]
    return out


# ----------------------------------------------------------------------------------------------
# how the caller holds his data and what he did before the judged analysis (applies to every compute_features case)

MECH_FIELDS = ('prebuffer', 'readonly', 'rejected')
BAD_FEK_KEYS = [('boundry', 5), ('first_extremum', 'peak'), ('padding', True), ('filter_kwarg', {'n_cycles': 3}), ('n_cycles', 3),
                ('Boundary', 0)]
BAD_THR_KEYS = [('min_n_cycle', 3), ('min_cycles', 2), ('amp_fraction_thresh', 0.3), ('burst_fraction_thresh', 0.5),
                ('monotonicity_thresh', 0.8)]
BAD_CENTERS = ['peaks', 'troughs', 'Peak', 'both', '', None, 0]
BAD_METHODS = ['amplitude', 'cycle', 'Cycles', 'consistency', '', None]
BAD_BANDS = ['reversed', 'negative', 'above_nyquist', 'scalar', 'one_element', 'equal']


def mechanisms(c):
    """Three circumstances of an ordinary analysis session, each drawn independently for a share of the cases from a
    generator seeded with the case content (so that the main stream of no driver is shifted; stored in the case, so a
    case replays exactly):
      prebuffer {'seed'}  (~30 %)  the judged analysis is made on an ndarray object that was first filled with ANOTHER
                          signal of the same length and type (decoy_signal) and analysed once with the same option
                          objects, then refilled in place with the case's samples (`work[:] = data[ch]`);
      readonly True       (~20 %)  every analysis of the case gets its array with the WRITEABLE flag cleared (what
                          pandas 3 `.to_numpy()`, np.load(mmap_mode='r'), np.broadcast_to hand out);
      rejected [...]      (~20 %)  1-2 calls that the library rejects (mis-spelt option key, invalid band, invalid centre
                          or burst method) made on the case's OWN signal object and option objects directly before the
                          judged analysis; a mis-spelt key is put into the caller's own dictionary and taken out again
                          after the rejection."""
    r = random.Random(canon_hash({k: v for k, v in c.items() if k not in ('key_order', 'history', 'exact') + MECH_FIELDS}) + '/mech')
    m = {}
    if r.random() < 0.30:
        m['prebuffer'] = {'seed': r.randrange(1 << 30)}
    if r.random() < 0.20:
        m['readonly'] = True
    if r.random() < 0.20:
        m['rejected'] = [gen_rejected(r) for _ in range(r.choice([1, 1, 2]))]
    return m


def gen_rejected(r):
    what = r.choice(['fek_key', 'fek_key', 'fek_key', 'f_range', 'f_range', 'center', 'method', 'thr_key', 'thr_key'])
    h = {'what': what}
    if what == 'fek_key':
        h['key'], h['value'] = r.choice(BAD_FEK_KEYS)
    elif what == 'thr_key':
        h['key'], h['value'] = r.choice(BAD_THR_KEYS)
    elif what == 'f_range':
        h['how'] = r.choice(BAD_BANDS)
    elif what == 'center':
        h['value'] = r.choice(BAD_CENTERS)
    else:
        h['value'] = r.choice(BAD_METHODS)
    return h


def bad_band(c, how):
    lo, hi = c['f_range']
    b = {'reversed': [hi, lo], 'negative': [-lo, hi], 'above_nyquist': [lo, float(c['fs'])], 'equal': [lo, lo],
         'one_element': [lo]}.get(how)
    if b is None:
        return lo                                               # 'scalar'
    return b if c.get('f_range_as') == 'list' else tuple(b)


def decoy_signal(c):
    """Another signal of the same length, sample type and order of magnitude as the case's (a rhythm inside the
    analysed band with a slow amplitude modulation, plus noise), from the seed stored in the case."""
    seed = c['prebuffer']['seed']
    r = random.Random(seed)
    nr = np.random.default_rng(seed)
    n = len(c['sig'])
    sigf = gen.unhexlist(c['sig'])
    scale = float(np.max(np.abs(sigf))) if n else 1.0
    if not (scale > 0 and math.isfinite(scale)):
        scale = 1.0
    period = 2.0 * c['fs'] / (c['f_range'][0] + c['f_range'][1]) * r.choice([0.85, 1.0, 1.2])
    t = np.arange(n)
    x = np.sin(2 * math.pi * t / period + r.random() * 2 * math.pi)
    x = x * (1 + 0.6 * np.sin(t / (3.3 * period) + r.random() * 6)) + 0.15 * nr.standard_normal(n)
    x = x * scale * r.choice([0.5, 1.0, 2.0])
    if c.get('dtype') == 'int64':
        x = np.round(x)
    return gen.typed(np.asarray(x, dtype=float), c.get('dtype'))


def _lock(a, c):
    """Clear the WRITEABLE flag of an array the case passes read-only."""
    if c.get('readonly'):
        a.setflags(write=False)
    return a


def _unlock(a):
    a.setflags(write=True)
    return a


def _outcome(f):
    import warnings
    try:
        with warnings.catch_warnings():
            warnings.simplefilter('ignore')
            f()
        return 'ok'
    except Exception as e:
        return '%s: %s' % (type(e).__name__, str(e)[:80])


def refilled_buffer(c, sig, analyse):
    """The work buffer of a `prebuffer` case: a new ndarray of the type of `sig`, filled with the decoy, analysed once by
    `analyse(array)` (outcome recorded, not judged), refilled in place with the samples of `sig`.  Returns (buffer,
    outcome of the decoy analysis)."""
    work = np.empty_like(sig)
    work[:] = decoy_signal(c)
    _lock(work, c)
    res = _outcome(lambda: analyse(work))
    _unlock(work)
    work[:] = sig
    return work, res


def run_rejected(c, sig, kw):
    """The rejected calls of the case, on the case's own array object and option objects.  What they raise is recorded,
    not judged (a call that is NOT rejected is recorded as 'accepted': whether an invalid option is rejected is C19's
    subject, not that of the pipeline properties)."""
    from bycycle.features import compute_features
    res = []
    for h in c['rejected']:
        center, method, band, kw2, undo = c['center'], c['method'], band_of(c), kw, None
        w = h['what']
        if w in ('fek_key', 'thr_key'):
            name = 'find_extrema_kwargs' if w == 'fek_key' else 'threshold_kwargs'
            d = kw.get(name)
            if isinstance(d, dict):
                d[h['key']] = h['value']                    # the caller's own dictionary object
                undo = d
            else:
                kw2 = dict(kw)
                kw2[name] = {h['key']: h['value']}
        elif w == 'f_range':
            band = bad_band(c, h['how'])
        elif w == 'center':
            center = h['value']
        elif w == 'method':
            method = h['value']
        try:
            r = _outcome(lambda: compute_features(sig, c['fs'], band, center_extrema=center, burst_method=method,
                                                  return_samples=c['return_samples'], **kw2))
        finally:
            if undo is not None:
                undo.pop(h['key'], None)                     # the mistake is corrected: `del d[key]`
        res.append('accepted' if r == 'ok' else r)
    return res


def context(c):
    """Circumstances of the judged analysis, for failure messages."""
    parts = []
    if c.get('readonly'):
        parts.append('read-only input array')
    if c.get('prebuffer'):
        parts.append('array object refilled in place after an analysis of other data')
    if c.get('rejected'):
        parts.append('after %d rejected call(s) on the same objects' % len(c['rejected']))
    if c.get('history'):
        parts.append('after %d helper call(s)' % len(c['history']))
    return ' [%s]' % '; '.join(parts) if parts else ''


def with_context(c, msg):
    return msg + context(c) if msg else msg


# ----------------------------------------------------------------------------------------------
# lengths exactly on an integer number of samples

EXACT_SHARE = 0.15


def exact_length(c, period, k_env=3):
    """For EXACT_SHARE of the cases (drawn from a generator seeded with the case content, so that the main stream of no
    driver is shifted and all other cases stay as they were) the sampling rate, the band and one length option are
    replaced by a combination from gen.exact_cycle_table / gen.exact_seconds_pick: fs * n_cycles / f_lo (or
    fs * n_seconds) is exactly an odd or even integer, or its binary64 value is one ulp beside one, and (80 %) the
    mathematically equivalent ways of computing it disagree after the ceil.  The band becomes (f_lo, 2 f_lo) with the
    rhythm inside; settings in seconds that are not the target keep their number of samples.  Target, one of
      envelope          the band_amp envelope (k_env cycles; also the default extrema / detector filter),
      extrema_cycles    find_extrema_kwargs filter_kwargs n_cycles,      extrema_seconds   ... n_seconds,
      detector_cycles   burst_kwargs filter_kwargs n_cycles (amp),       detector_seconds  ... n_seconds (amp),
      duration_cycles   the detector's minimum duration min_n_cycles * fs / f_lo (amp; count given in burst_kwargs or
                        threshold_kwargs),                               duration_seconds  min_burst_duration * fs (amp).
    Half of these cases get broadband noise of 0.3 / 0.6 / 1 standard deviations added to the samples (gen.roughen, +rough).
    Modifies c in place (before key_order / mechanisms are drawn); records c['exact'] and tags the kind with +len."""
    r = random.Random(canon_hash({k: v for k, v in c.items() if k not in ('key_order', 'history', 'exact') + MECH_FIELDS})
                      + '/exactlen')
    if r.random() >= EXACT_SHARE:
        return None
    nsamp = len(c['sig'])
    amp = c['method'] == 'amp' and not c.get('shape_only')
    targets = ['envelope', 'envelope', 'extrema_cycles', 'extrema_seconds']
    if amp:
        targets += ['detector_cycles', 'detector_seconds', 'duration_cycles', 'duration_cycles', 'duration_seconds']
    target = r.choice(targets)
    # the envelope's own k_env cycles are on the integer for the envelope and the seconds targets, and for half of the others
    n = k_env if target in ('envelope', 'extrema_seconds', 'detector_seconds', 'duration_seconds') or r.random() < 0.5 else None
    if target == 'duration_cycles' and c.get('routing'):
        n = resolved(c)['n'] if resolved(c)['n'] in gen.EXACT_N else None      # the routing pairs stay as drawn
        if n is None:
            target, n = 'envelope', k_env
    e = gen.exact_cycles_pick(r, period, nsamp, n=n, need='ceil' if target == 'duration_cycles' else 'taps')
    if e is None:
        return None
    old_fs = c['fs']
    fs = float(e['fs']) if isinstance(old_fs, float) else e['fs']
    x = {'target': target, 'n': e['n'], 'L': e['L'], 'rel': e['rel'], 'disc_taps': e['disc_taps'], 'disc_ceil': e['disc_ceil']}

    def resample(sec):                      # a setting in seconds keeps its number of samples
        return round(sec * old_fs / fs, 6)
    fek = dict(c['fek']) if c.get('fek') is not None else None
    bk = _deep(c['bk']) if c.get('bk') is not None else None
    thr = dict(c['thr']) if c.get('thr') is not None else None
    if fek and 'n_seconds' in (fek.get('filter_kwargs') or {}):
        fek['filter_kwargs'] = {'n_seconds': resample(fek['filter_kwargs']['n_seconds'])}
    if bk and 'n_seconds' in (bk.get('filter_kwargs') or {}):
        bk['filter_kwargs'] = {'n_seconds': resample(bk['filter_kwargs']['n_seconds'])}
    if bk and bk.get('min_burst_duration'):
        bk['min_burst_duration'] = resample(bk['min_burst_duration'])
    sec = None
    if target in ('extrema_seconds', 'detector_seconds', 'duration_seconds'):
        lo, hi = (0.4, 4.0) if target != 'duration_seconds' else (1.0, 3.0)
        sec = gen.exact_seconds_pick(r, e['fs'], e['f_lo'], nsamp, lo, hi)
        if sec is None:
            target = x['target'] = 'envelope'
        else:
            x.update(n_seconds=sec['n_seconds'], L=sec['L'], rel=sec['rel'], disc_taps=sec['disc_taps'],
                     disc_ceil=sec['disc_ceil'], envelope={'n': e['n'], 'L': e['L'], 'rel': e['rel']})
    if target == 'envelope':
        # the default filters (k_env cycles) are on the integer as well: in 40 % the options' own filter lengths go
        if fek and 'filter_kwargs' in fek and r.random() < 0.4:
            del fek['filter_kwargs']
    elif target == 'extrema_cycles':
        fek = fek if fek is not None else {}
        fek['filter_kwargs'] = {'n_cycles': e['n']}
    elif target == 'extrema_seconds':
        fek = fek if fek is not None else {}
        fek['filter_kwargs'] = {'n_seconds': sec['n_seconds']}
    elif target == 'detector_cycles':
        bk = bk if bk is not None else {}
        bk['filter_kwargs'] = {'n_cycles': e['n']}
    elif target == 'detector_seconds':
        bk = bk if bk is not None else {}
        bk['filter_kwargs'] = {'n_seconds': sec['n_seconds']}
    elif target == 'duration_cycles':
        if not c.get('routing'):
            bk = bk if bk is not None else {}
            bk.pop('min_burst_duration', None)
            if 'min_n_cycles' in bk or r.random() < 0.5:
                bk['min_n_cycles'] = e['n']
            else:
                thr = thr if thr is not None else {}
                thr['min_n_cycles'] = e['n']
    elif target == 'duration_seconds':
        bk = bk if bk is not None else {}
        bk['min_burst_duration'] = sec['n_seconds']
    c['fs'] = fs
    c['f_range'] = [e['f_lo'], round(2 * e['f_lo'], 6)]
    c['fek'], c['bk'], c['thr'] = fek, bk, thr
    c['kind'] = ''.join(p for p in c['kind'].replace('+', '\0+').split('\0') if p[1:] not in gen.BANDS) + '+len'   # the band tag goes
    if r.random() < 0.5:
        # broadband noise on top (a kernel two taps longer moves no crossing of a clean rhythm)
        x['rough'] = r.choice([0.3, 0.6, 1.0])
        c['sig'] = gen.hexlist(gen.roughen(r.randrange(1 << 30), gen.unhexlist(c['sig']), x['rough'], c.get('dtype')))
        c['kind'] += '+rough'
    c['exact'] = x
    return x


# ----------------------------------------------------------------------------------------------
# running the implementation

def table_to_rows(df, center, shape_only=False):
    """DataFrame -> list of dict rows (python scalars), sample columns by generic names.  shape_only: the table of
    compute_shape_features (no burst columns): burst cells are filled with the values the model gives for an
    all-False detector mask so that the same Coq runner compares the shape part only."""
    sc = sample_cols(center)
    have_samples = all(col in df.columns for col in sc)
    rows = []
    n = len(df)
    cols = {col: np.asarray(df[col]) for col in df.columns}
    for i in range(n):
        r = {}
        if have_samples:
            r['s'] = [int(cols[col][i]) for col in sc]
        r['int'] = [int(cols[col][i]) for col in SHAPE_INT]
        r['flt'] = [float(cols[col][i]) for col in SHAPE_FLT]
        if shape_only:
            r['burst'] = [float('nan')] * 4 + [0.0]
            r['is_burst'] = False
        else:
            r['burst'] = [float(cols[col][i]) if col in cols else float('nan') for col in BURST]
            r['is_burst'] = bool(cols['is_burst'][i])
        rows.append(r)
    return rows, have_samples


def expected_columns(c, samples=True):
    """Documented column set of the table (compute_features docstring; shape table for a shape-only case)."""
    cols = SHAPE_INT + SHAPE_FLT
    if not c.get('shape_only'):
        cols = cols + (BURST[:4] if c['method'] == 'cycles' else BURST[4:]) + ['is_burst']
    return sorted(cols + (sample_cols(c['center']) if samples else []))


def build_kwargs(c):
    """The caller's option objects for one case (built ONCE and shared by every call of the case,
    as a user would who keeps his settings in variables)."""
    ko = c.get('key_order') or {}
    kw = {}
    for name in (ko.get('kw') or []) + ['fek', 'thr', 'bk']:
        if name in KW_NAMES and KW_NAMES[name] not in kw and c.get(name) is not None:
            kw[KW_NAMES[name]] = _deep(_ordered(c[name], ko.get(name)))
    return kw


def sig_of(c):
    """The signal array as it is passed to the implementation (float64 unless the case says int64 / float32)."""
    return gen.typed(gen.unhexlist(c['sig']), c.get('dtype'))


def band_of(c, f_range=None):
    fr = f_range or c['f_range']
    return list(fr) if c.get('f_range_as') == 'list' else tuple(fr)


def call_compute_features(sig, c, center=None, return_samples=True, fs=None, f_range=None, kw=None):
    from bycycle.features import compute_features
    if kw is None:
        kw = build_kwargs(c)
    return compute_features(sig, fs or c['fs'], band_of(c, f_range), center_extrema=center or c['center'],
                            burst_method=c['method'], return_samples=return_samples, **kw)


def call_fit(sig, c, kw):
    """The object interface with the same option objects, all settings positional as documented:
    Bycycle(center_extrema, burst_method, burst_kwargs, thresholds, find_extrema_kwargs, return_samples)."""
    from bycycle import Bycycle
    bm = Bycycle(c['center'], c['method'], kw.get('burst_kwargs'), kw.get('threshold_kwargs'),
                 kw.get('find_extrema_kwargs'), c['return_samples'])
    bm.fit(sig, c['fs'], band_of(c))
    return bm.df_features


def _deep(d):
    return {k: (dict(v) if isinstance(v, dict) else v) for k, v in d.items()}


def _jsonable(rows):
    return [{'s': r.get('s'), 'int': r['int'], 'flt': [float(x).hex() if not math.isnan(x) else 'nan' for x in r['flt']],
             'burst': [float(x).hex() if not math.isnan(x) else 'nan' for x in r['burst']], 'is_burst': r['is_burst']}
            for r in rows]


def unjson(rows):
    def u(h):
        return float('nan') if h == 'nan' else float.fromhex(h)
    return [{'s': r['s'], 'int': r['int'], 'flt': [u(x) for x in r['flt']], 'burst': [u(x) for x in r['burst']],
             'is_burst': r['is_burst']} for r in rows]


def resolved(c, o=None):
    """Settings as documented: filter options, boundary, pad, thresholds with defaults, min-cycle count.
    `o`: the outcome of the run; needed only for cases whose burst_fraction_threshold was taken from a first run
    (`bft_pick`), where the value used is recorded in o['bft_used']."""
    fek = c['fek']
    if fek is None:
        fk, boundary, pad = {'n_cycles': c.get('n_cycles', 3)}, 0, True      # n_cycles: compute_shape_features only
    else:
        fk = fek.get('filter_kwargs') or {}
        boundary, pad = fek.get('boundary', 0), fek.get('pad', True)
    thr = c['thr'] or {}
    r = {'fk': fk, 'boundary': boundary, 'pad': pad}
    if c['method'] == 'cycles':
        r['thr'] = [thr.get(k, CYC_DEFAULTS[k]) for k in CYC_KEYS]
        r['n'] = thr.get('min_n_cycles', 3)
    else:
        bk = c['bk'] or {}
        r['n_bk'], r['n_thr'] = bk.get('min_n_cycles'), thr.get('min_n_cycles')       # raw option values
        r['n'] = bk['min_n_cycles'] if 'min_n_cycles' in bk else thr.get('min_n_cycles', 3)
        r['bft'] = thr.get('burst_fraction_threshold', 1)
        if o is not None and o.get('bft_used') is not None:
            r['bft'] = float.fromhex(o['bft_used'])
        r['amp_threshes'] = tuple(bk.get('amp_threshes', (1, 2)))
        r['min_burst_duration'] = bk.get('min_burst_duration')
        r['bk_filter_kwargs'] = bk.get('filter_kwargs')
    return r


def _rows_of(df, c, out, shape_only=False):
    """Record the returned table; a table without the documented columns cannot be read and is recorded as an error."""
    try:
        rows, hs = table_to_rows(df, c['center'], shape_only=shape_only)
    except KeyError as e:
        out['err'], out['errmsg'] = 'Key', 'harness: the returned table has no column %s' % e
        return
    out['columns'] = sorted(str(x) for x in df.columns)
    if not hs:
        out['err'], out['errmsg'] = 'Key', 'harness: the returned table lacks sample columns %s' % (
            [x for x in sample_cols(c['center']) if x not in df.columns],)
        return
    out['rows'] = _jsonable(rows)


def _ulp_step(x, k):
    for _ in range(abs(k)):
        x = math.nextafter(x, math.inf if k > 0 else -math.inf)
    return min(1.0, max(0.0, x))


def _first_run_threshold(sig, c, kw):
    """burst_fraction_threshold for a `bft_pick` case: the burst_fraction of a partially bursting row of a first run
    with the caller's other options (row chosen by the case), moved by the case's number of ulps.  None when the first
    run raises or has no partially bursting row (the case then keeps its own threshold)."""
    try:
        df = call_compute_features(sig, c, kw=kw)
        vals = sorted(set(float(x) for x in np.asarray(df['burst_fraction'], dtype=float) if 0.0 < x < 1.0))
    except Exception:
        return None
    if not vals:
        return None
    v = vals[min(len(vals) - 1, int(c['bft_pick']['pick'] * len(vals)))]
    return _ulp_step(v, c['bft_pick']['ulp'])


def run_pipe(c):
    sigf = gen.unhexlist(c['sig'])          # float64 value of every sample: reference kernels and model
    sig = sig_of(c)                         # the array handed to the implementation
    out = {}
    rs = resolved(c)
    sigc = sigf if c['center'] == 'peak' else -sigf
    fr = tuple(c['f_range'])
    # reference kernels (neurodsp only)
    try:
        pos, padn, nz = ref.ref_filter_pos(sigc, c['fs'], fr, rs['fk'], rs['pad'])
        amp = ref.ref_amp(sigc, c['fs'], fr, 3)
        if not np.isfinite(amp).all():
            return {'skip': 'reference envelope not finite'}
        refd = {'pos': coqio.mask_of(pos), 'npos': len(pos), 'padn': padn, 'nzero': nz, 'amp': gen.hexlist(amp)}
        if c['method'] == 'amp':
            mask = ref.ref_dualthresh(sigf, c['fs'], fr, rs['amp_threshes'], rs['n'],
                                      rs['min_burst_duration'], rs['bk_filter_kwargs'])
            refd['mask'] = coqio.mask_of(mask)
            refd['nmask'] = len(mask)
        out['ref'] = refd
        if c.get('want_mirror'):
            # premises of the mirror theorem (same envelope and same detector mask on both sides), evidenced per case
            prem = {'amp': bool(np.array_equal(amp, ref.ref_amp(-sigc, c['fs'], fr, 3)))}
            if c['method'] == 'amp':
                prem['mask'] = mask == ref.ref_dualthresh(-sigf, c['fs'], fr, rs['amp_threshes'], rs['n'],
                                                          rs['min_burst_duration'], rs['bk_filter_kwargs'])
            out['premise'] = prem
    except Exception as e:
        return {'skip': 'reference kernel failed: %s: %s' % (type(e).__name__, e)}
    if c.get('history'):
        out['history'] = run_history(c['history'], 'start')
    snap = sig.copy()
    kw = build_kwargs(c)
    pre = bool(c.get('prebuffer'))
    if c.get('bft_pick') and c['method'] == 'amp':
        # (a refilled-buffer case makes this first run on a private copy, so that the judged analysis is the first one
        # after the refill and the decoy analysis has the very settings of the judged one)
        t = _first_run_threshold(_lock(sig.copy() if pre else sig, c), c, kw)
        if t is not None:
            out['bft_used'] = float(t).hex()
            tk = dict(kw.get('threshold_kwargs') or {})
            tk['burst_fraction_threshold'] = t
            kw['threshold_kwargs'] = tk
            rs = resolved(c, out)
    if pre:
        # one ndarray object for one signal after the other: decoy analysed with the same option objects, then refilled
        sig, out['prebuffer'] = refilled_buffer(c, sig, lambda a: call_compute_features(a, c, return_samples=True, kw=kw))
    _lock(sig, c)
    if c.get('rejected'):
        out['rejected'] = run_rejected(c, sig, kw)
    try:
        df = call_compute_features(sig, c, return_samples=True, kw=kw)
    except Exception as e:
        df = None
        out['err'] = exc_kind(e)
        out['errmsg'] = str(e)[:200]
    if df is not None:
        _rows_of(df, c, out)
    out['sig_unchanged'] = bool(np.array_equal(sig, snap))
    if c.get('routing') and 'rows' in out:
        out['routing'] = routing_observability(c, out, sigf)
    if 'rows' in out and not c['return_samples']:
        try:
            df2 = call_compute_features(sig, c, return_samples=False, kw=kw)
            rows2, hs2 = table_to_rows(df2, c['center'])
            out['columns2'] = sorted(str(x) for x in df2.columns)
            out['rows2'] = _jsonable(rows2)
            out['nosamples_ok'] = (not any(col.startswith('sample_') for col in out['columns2'])) and \
                [dict(r, s=None) for r in out['rows2']] == [dict(r, s=None) for r in out['rows']]
        except Exception as e:
            out['nosamples_ok'] = False
            out['nosamples_err'] = '%s: %s' % (exc_kind(e), str(e)[:200])
    if c.get('fit'):
        # the object interface named by C01, same option objects
        try:
            df3 = call_fit(sig, c, kw)
            rows3, hs3 = table_to_rows(df3, c['center'])
            out['fit_columns'] = sorted(str(x) for x in df3.columns)
            out['fit_rows'] = _jsonable(rows3)
        except Exception as e:
            out['fit_err'] = exc_kind(e)
            out['fit_errmsg'] = str(e)[:200]
    if c.get('history') and any(h.get('at') == 'mid' for h in c['history']):
        out['history'] += run_history(c['history'], 'mid')
    inplace_ok = isinstance(sig, np.ndarray) and sig.dtype == np.float64
    if c.get('want_mirror') and 'ref' in out and ('rows' in out or 'err' in out):
        # the other centring on the negated signal; run whether or not the primary analysis returned a table
        other = 'trough' if c['center'] == 'peak' else 'peak'
        inpl = bool(c.get('mirror_inplace')) and inplace_ok
        try:
            if inpl:
                _unlock(sig)
                np.negative(sig, out=sig)           # the very same ndarray object, negated in place
                _lock(sig, c)
                out['mirror_inplace'] = True
                arg = sig
            else:
                # the negated signal as the caller prepared it beforehand (from the samples as they were before any call
                # of the case: a call that leaves the caller's array modified must not be mirrored along with it)
                arg = _lock(-snap, c)
            dfm = call_compute_features(arg, c, center=other, kw=kw)
            out['mirror_columns'] = sorted(str(x) for x in dfm.columns)
            rowsm, hsm = table_to_rows(dfm, other)
            if hsm:
                out['mirror'] = _jsonable(rowsm)
            else:
                out['mirror_err'] = 'Key'
                out['mirror_errmsg'] = 'harness: the %s-centred table lacks sample columns %s' % (
                    other, [x for x in sample_cols(other) if x not in dfm.columns])
        except Exception as e:
            out['mirror_err'] = exc_kind(e)
            out['mirror_errmsg'] = str(e)[:200]
        finally:
            if inpl:
                _unlock(sig)
                sig[:] = snap
                _lock(sig, c)
    if 'rows' in out and c.get('scale_pow') is not None:
        inpl = bool(c.get('scale_inplace')) and inplace_ok
        try:
            if inpl:
                _unlock(sig)
                sig *= 2.0 ** c['scale_pow']        # the very same ndarray object, rescaled in place
                _lock(sig, c)
                out['scale_inplace'] = True
                arg = sig
            else:
                arg = _lock(snap * (2.0 ** c['scale_pow']), c)          # prepared from the samples as generated
            dfs = call_compute_features(arg, c, kw=kw)
            out['scaled_columns'] = sorted(str(x) for x in dfs.columns)
            out['scaled'] = _jsonable(table_to_rows(dfs, c['center'])[0])
        except Exception as e:
            out['scaled_err'] = exc_kind(e)
            out['scaled_errmsg'] = str(e)[:200]
        finally:
            if inpl:
                _unlock(sig)
                sig[:] = snap
                _lock(sig, c)
    if 'rows' in out and c.get('fs_mult') is not None:
        try:
            m = c['fs_mult']
            # settings given in seconds are expressed in the new time unit (the same number of samples)
            # Which settings are in seconds is decided from the case as GENERATED (c['bk'], c['fek']), never from the live
            # option objects: those are the caller's objects shared by every call of the case, and a library that writes
            # into them must show up as a changed replay, not be compensated for here.  Objects without such settings are
            # passed on as they are (the same objects again).
            kw2 = dict(kw)
            bk_spec = c.get('bk') or {}
            bk2 = kw.get('burst_kwargs')
            if c['method'] == 'amp' and bk2 and (bk_spec.get('min_burst_duration') is not None
                                                 or 'n_seconds' in (bk_spec.get('filter_kwargs') or {})):
                bk2 = _deep(bk2)
                if bk_spec.get('min_burst_duration') is not None:
                    bk2['min_burst_duration'] = bk_spec['min_burst_duration'] / m
                if 'n_seconds' in (bk_spec.get('filter_kwargs') or {}):
                    bk2['filter_kwargs']['n_seconds'] = bk_spec['filter_kwargs']['n_seconds'] / m
                kw2['burst_kwargs'] = bk2
            fek_spec = c.get('fek') or {}
            fek2 = kw.get('find_extrema_kwargs')
            if fek2 and 'n_seconds' in (fek_spec.get('filter_kwargs') or {}):
                fek2 = _deep(fek2)
                fek2['filter_kwargs']['n_seconds'] = fek_spec['filter_kwargs']['n_seconds'] / m
                kw2['find_extrema_kwargs'] = fek2
                out['fs_nseconds'] = True
            dff = call_compute_features(sig, c, fs=c['fs'] * m, f_range=[c['f_range'][0] * m, c['f_range'][1] * m], kw=kw2)
            out['fsmult_columns'] = sorted(str(x) for x in dff.columns)
            out['fsmult'] = _jsonable(table_to_rows(dff, c['center'])[0])
        except Exception as e:
            out['fsmult_err'] = exc_kind(e)
            out['fsmult_errmsg'] = str(e)[:200]
    hd = harness_diff(c, out)
    if hd:
        out['harness_diff'] = hd
    return out


def routing_observability(c, o, sigf):
    """For a min_n_cycles routing case: would another plausible count (the other dictionary's value, the default 3)
    change what the detector returns (reference mask) or what the run filter returns on the table's own
    burst_fraction column?  {'det': bool, 'filt': bool, 'alts': [...]}; reference kernels only."""
    rs = resolved(c, o)
    alts = sorted(set(x for x in (rs.get('n_bk'), rs.get('n_thr'), 3) if x is not None and x != rs['n']))
    if rs.get('n_bk') is None and rs.get('n_thr') is None:
        alts = [2, 4]                 # neither given: is it the documented default 3, or a neighbouring count?
    rf = o['ref']
    mask = [bool((rf['mask'] >> i) & 1) for i in range(rf['nmask'])]
    rows = unjson(o['rows'])
    q = [r['burst'][4] >= rs['bft'] for r in rows]
    lab = spec_minrun(q, rs['n'])
    det = filt = False
    for a in alts:
        try:
            m2 = ref.ref_dualthresh(sigf, c['fs'], tuple(c['f_range']), rs['amp_threshes'], a, rs['min_burst_duration'],
                                    rs['bk_filter_kwargs'])
        except Exception:
            continue
        det = det or (m2 != mask)
        filt = filt or (spec_minrun(q, a) != lab)
    return {'det': det, 'filt': filt, 'alts': alts}


# ----------------------------------------------------------------------------------------------
# history: documented public helpers called on scratch tables before / between the analyses of a case

def gen_history(rng, mid_prob=0.3):
    """1-4 calls of the public functions of bycycle/utils/dataframes.py (every documented flag value) on scratch
    tables, as a user does who has worked on other data earlier in the same session.  Replayed exactly by run_history."""
    hist = []
    for _ in range(rng.randint(1, 4)):
        f = rng.choice(['rename_extrema_df', 'rename_extrema_df', 'rename_extrema_df', 'split_samples_df', 'drop_samples_df',
                        'get_extrema_df', 'limit_df', 'limit_df', 'epoch_df', 'flatten_dfs'])
        h = {'f': f, 'at': 'mid' if rng.random() < mid_prob else 'start',
             'table': {'center': rng.choice(['peak', 'trough']), 'method': rng.choice(['cycles', 'amp']),
                       'return_samples': True, 'seed': rng.randint(0, 3)}}
        if f == 'rename_extrema_df':
            h['center'] = rng.choice(['peak', 'trough', 'trough'])
            h['return_samples'] = rng.choice([True, False, False])
            h['table']['return_samples'] = h['return_samples'] or rng.random() < 0.5
        elif f in ('drop_samples_df', 'get_extrema_df'):
            h['table']['return_samples'] = rng.random() < 0.7
        elif f == 'limit_df':
            h['start'] = rng.choice([None, 0, 0.5, 1.0])
            h['stop'] = rng.choice([None, 1.5, 2.0])
            h['reset_indices'] = rng.choice([True, False])
        elif f == 'epoch_df':
            h['epoch_len'] = rng.choice([50, 64, 100])
        elif f == 'flatten_dfs':
            h['column_name'] = rng.choice(['Label', 'epoch'])
            h['two_d'] = rng.random() < 0.4
        hist.append(h)
    return hist


def _scratch_table(t):
    """A small table made by the public entry point itself on a fixed scratch signal (200 samples at 100 Hz, 10 Hz rhythm)."""
    from bycycle.features import compute_features
    nr = np.random.default_rng(1000 + t['seed'])
    x = np.sin(2 * np.pi * np.arange(200) / 10 + 0.3) * (1 + 0.5 * np.sin(np.arange(200) / 17.0)) + 0.1 * nr.standard_normal(200)
    kw = {'threshold_kwargs': {'min_n_cycles': 2}}
    return compute_features(x, 100, (7, 14), center_extrema=t['center'], burst_method=t['method'],
                            return_samples=t['return_samples'], **kw), x


def run_history(hist, at):
    """Execute the history entries scheduled `at` ('start' | 'mid'); exceptions of these calls are recorded, not
    judged (the history is environment, not the subject of the property)."""
    import warnings
    res = []
    for h in hist:
        if h.get('at', 'start') != at:
            continue
        try:
            import bycycle.utils.dataframes as D
            with warnings.catch_warnings():
                warnings.simplefilter('ignore')
                df, x = _scratch_table(h['table'])
                f = h['f']
                if f == 'rename_extrema_df':
                    D.rename_extrema_df(h['center'], df, return_samples=h['return_samples'])
                elif f == 'split_samples_df':
                    D.split_samples_df(df)
                elif f == 'drop_samples_df':
                    D.drop_samples_df(df)
                elif f == 'get_extrema_df':
                    D.get_extrema_df(df)
                elif f == 'limit_df':
                    D.limit_df(df, 100, start=h['start'], stop=h['stop'], reset_indices=h['reset_indices'])
                elif f == 'epoch_df':
                    D.epoch_df(df, len(x), h['epoch_len'])
                elif f == 'flatten_dfs':
                    dfs = D.epoch_df(df, len(x), 100)
                    if h['two_d']:
                        D.flatten_dfs([dfs, [d.copy() for d in dfs]], [[0, 1], [2, 3]], column_name=h['column_name'])
                    else:
                        D.flatten_dfs(dfs, list(range(len(dfs))), column_name=h['column_name'])
            res.append('ok')
        except Exception as e:
            res.append('%s: %s' % (type(e).__name__, str(e)[:80]))
    return res


def gen_shape_case(rng, tier):
    """compute_shape_features called directly with its own n_cycles argument (default extrema filter when
    find_extrema_kwargs is None, and length of the band-amplitude filter)."""
    s = gen.signal(rng, kind=None, max_len=480)            # (drawn here, as gen_case would, to know the rhythm's period)
    c = gen_case(rng, tier, methods=('cycles',), fek_prob=0.5, wide=True, signal=s, exact_k=None, other=False, short=False)
    c['kind'] = 'shape/' + c['kind'].split('/', 2)[2]
    c.update(shape_only=True, n_cycles=rng.choice([2, 3, 5]), thr=None, bk=None, return_samples=True)
    if exact_length(c, s['period'], c['n_cycles']):
        # envelope and default extrema filter of n_cycles cycles on an integer number of samples
        c['thr'] = c['bk'] = None
        c['key_order'] = key_order(c)
        c.update({k: None for k in MECH_FIELDS})
        c.update(mechanisms(c))
        for k in MECH_FIELDS:
            if c.get(k) is None:
                c.pop(k, None)
    c.pop('rejected', None)                 # rejected calls are made through compute_features (run_pipe) only
    return c


def _same(a, b):
    a, b = np.asarray(a, dtype=float), np.asarray(b, dtype=float)
    return a.shape == b.shape and bool(np.array_equal(a, b, equal_nan=True))


def run_shape(c):
    """compute_shape_features(sig, fs, f_range, center_extrema, find_extrema_kwargs, n_cycles=k) and, on the same
    input, the public helpers compute_symmetry (period=None branch) and rename_extrema_df(return_samples=False)."""
    from bycycle.features import compute_shape_features, compute_cyclepoints
    sigf = gen.unhexlist(c['sig'])
    sig = sig_of(c)
    k = c['n_cycles']
    rs = resolved(c)
    out = {}
    sigc = sigf if c['center'] == 'peak' else -sigf
    fr = tuple(c['f_range'])
    try:
        pos, padn, nz = ref.ref_filter_pos(sigc, c['fs'], fr, rs['fk'], rs['pad'])
        amp = ref.ref_amp(sigc, c['fs'], fr, k)
        if not np.isfinite(amp).all():
            return {'skip': 'reference envelope not finite'}
        out['ref'] = {'pos': coqio.mask_of(pos), 'npos': len(pos), 'padn': padn, 'nzero': nz, 'amp': gen.hexlist(amp),
                      'mask': 0, 'nmask': len(sigf)}
    except Exception as e:
        return {'skip': 'reference kernel failed: %s: %s' % (type(e).__name__, e)}
    fek = _deep(c['fek']) if c['fek'] is not None else None
    snap = sig.copy()
    if c.get('prebuffer'):
        sig, out['prebuffer'] = refilled_buffer(c, sig, lambda a: compute_shape_features(
            a, c['fs'], band_of(c), center_extrema=c['center'], find_extrema_kwargs=fek, n_cycles=k))
    _lock(sig, c)
    try:
        df = compute_shape_features(sig, c['fs'], band_of(c), center_extrema=c['center'], find_extrema_kwargs=fek, n_cycles=k)
    except Exception as e:
        df = None
        out['err'] = exc_kind(e)
        out['errmsg'] = str(e)[:200]
    if df is not None:
        _rows_of(df, c, out, shape_only=True)
    out['sig_unchanged'] = bool(np.array_equal(sig, snap))
    if 'rows' not in out:
        return out
    diffs = []
    try:
        import bycycle.features.shape as sh
        fek2 = fek if fek is not None else {'filter_kwargs': {'n_cycles': k}}
        sc = sig_of(c) if c['center'] == 'peak' else -sig_of(c)
        dfs = compute_cyclepoints(sc, c['fs'], band_of(c), **fek2)
        sym = sh.compute_symmetry(dfs, sc)
        peak = c['center'] == 'peak'
        pairs = [('time_decay', 'time_decay' if peak else 'time_rise'), ('time_rise', 'time_rise' if peak else 'time_decay'),
                 ('volt_decay', 'volt_decay' if peak else 'volt_rise'), ('volt_rise', 'volt_rise' if peak else 'volt_decay'),
                 ('volt_amp', 'volt_amp')]
        for a, b in pairs:
            if not _same(sym[a], df[b]):
                diffs.append('compute_symmetry(df_samples, sig)[%s] differs from the table column %s' % (a, b))
        for a in ('time_rdsym', 'time_ptsym'):
            w = np.asarray(sym[a], dtype=float)
            if not _same(w if peak else 1 - w, df[a]):
                diffs.append('compute_symmetry(df_samples, sig)[%s] differs from the table column' % a)
    except Exception as e:
        diffs.append('compute_cyclepoints / compute_symmetry(df_samples, sig) raised %s: %s' % (type(e).__name__, str(e)[:120]))
    if c['center'] == 'trough':
        try:
            from bycycle.utils.dataframes import rename_extrema_df, drop_samples_df
            dfp = compute_shape_features(-sig_of(c), c['fs'], band_of(c), center_extrema='peak', find_extrema_kwargs=fek,
                                         n_cycles=k)
            dfr = rename_extrema_df('trough', drop_samples_df(dfp), return_samples=False)
            want = drop_samples_df(df)
            if sorted(dfr.columns) != sorted(want.columns):
                diffs.append('rename_extrema_df(trough, table without samples, return_samples=False): columns %s' % sorted(dfr.columns))
            else:
                for col in want.columns:
                    if not _same(dfr[col], want[col]):
                        diffs.append('rename_extrema_df(return_samples=False): column %s differs from the trough-centred table' % col)
        except Exception as e:
            diffs.append('rename_extrema_df(return_samples=False) path raised %s: %s' % (type(e).__name__, str(e)[:120]))
    if diffs:
        out['helper_diffs'] = diffs[:4]
    hd = harness_diff(c, out)
    if hd:
        out['harness_diff'] = hd
    return out


def harness_diff(c, o):
    """Differences that no property statement pins but that the harness reports all the same (they reach the summary
    through the model comparison, see coq_case): undocumented / missing columns, a return_samples=False table that is
    not the same table without its sample columns, a Bycycle.fit table that is not the compute_features table,
    stand-alone helpers disagreeing with the table."""
    if c.get('fit') and 'ref' in o and ('fit_err' in o) != ('err' in o):
        return 'Bycycle.fit %s where compute_features %s' % (('raised %sError' % o['fit_err']) if 'fit_err' in o else 'returned a table',
                                                           ('raised %sError' % o['err']) if 'err' in o else 'returned a table')
    if 'rows' not in o:
        return None
    want = expected_columns(c)
    if o.get('columns') != want:
        return 'column set differs from the documented one by %s' % (sorted(set(o.get('columns', [])) ^ set(want)),)
    if 'columns2' in o and o['columns2'] != expected_columns(c, samples=False):
        return 'return_samples=False columns differ from the documented set by %s' % (
            sorted(set(o['columns2']) ^ set(expected_columns(c, samples=False))),)
    if 'rows2' in o and [dict(r, s=None) for r in o['rows2']] != [dict(r, s=None) for r in o['rows']]:
        return 'return_samples=False table differs from the return_samples=True table in a feature cell'
    if 'fit_rows' in o:
        if c['return_samples']:
            same = o['fit_rows'] == o['rows'] and o['fit_columns'] == o['columns']
        else:
            same = o['fit_rows'] == [dict(r, s=None) for r in o['rows']] and o['fit_columns'] == o.get('columns2')
        if not same:
            return 'Bycycle.fit table differs from the compute_features table for the same option objects'
    if o.get('helper_diffs'):
        return o['helper_diffs'][0]
    if 'scaled_columns' in o and o['scaled_columns'] != o.get('columns'):
        return 'the table of the rescaled signal has other columns: %s' % (sorted(set(o['scaled_columns']) ^ set(o['columns'])),)
    if 'mirror_columns' in o and mirror_columns(o['mirror_columns']) != o.get('columns'):
        return 'the table of the mirrored analysis has other columns: %s' % (
            sorted(set(mirror_columns(o['mirror_columns'])) ^ set(o['columns'])),)
    return None


# ----------------------------------------------------------------------------------------------
# Coq encoding

def coq_case(c, o):
    """(model input, implementation output) as Coq terms.  float32 cases are not compared (the implementation then
    computes the voltage columns in single precision; the model is binary64).  A shape-only case (compute_shape_features)
    goes through the same runner with an all-False detector mask, whose burst cells table_to_rows has filled in.
    A harness-level difference (harness_diff) is sent as an implementation result that no model result equals, so that
    it surfaces as a model/implementation mismatch (reported without a failing input for the property)."""
    if 'skip' in o or 'ref' not in o or c.get('dtype') == 'float32' or c.get('long'):
        return None           # `long`: recordings of 10 000+ samples are judged by the statement oracle alone
    sig = gen.unhexlist(c['sig'])
    rs = resolved(c, o)
    rf = o['ref']
    if c.get('shape_only'):
        meth = '(MAmp %s %s None None)' % (coqio.barr(rf['nmask'], 0), coqio.fl(1.0))
    elif c['method'] == 'cycles':
        meth = '(MCycles (%s) %s%%Z)' % (', '.join(coqio.fl(t) for t in rs['thr']), coqio.Z(rs['n']))
    else:
        # the RAW min_n_cycles entries of the two dictionaries: the model resolves the run filter's count itself
        meth = '(MAmp %s %s %s %s)' % (coqio.barr(rf['nmask'], rf['mask']), coqio.fl(rs['bft']),
                                       coqio.opt(rs['n_bk'], lambda x: coqio.Z(x) + '%Z'),
                                       coqio.opt(rs['n_thr'], lambda x: coqio.Z(x) + '%Z'))
    inp = '(%s, %s, (%s, %d%%nat, %s), %s%%Z, %s)' % (
        'Peak' if c['center'] == 'peak' else 'Trough', coqio.flist(sig), coqio.barr(rf['npos'], rf['pos']), rf['padn'],
        coqio.flist(gen.unhexlist(rf['amp'])), coqio.Z(rs['boundary']), meth)
    if o.get('harness_diff'):
        return inp, '(Err EOther)'
    if 'err' in o:
        return inp, '(Err %s)' % ERRMAP.get(o['err'], 'EOther')
    rows = unjson(o['rows'])
    items = []
    for r in rows:
        s = '(%s)' % ', '.join(coqio.Z(x) + '%Z' for x in r['s'])
        sh = '((%s), (%s), (%s))' % (', '.join(coqio.Z(x) + '%Z' for x in r['int']),
                                     ', '.join(coqio.fl(x) for x in r['flt'][:5]),
                                     ', '.join(coqio.fl(x) for x in r['flt'][5:]))
        b = '(%s)' % ', '.join(coqio.fl(x) for x in r['burst'])
        items.append('(%s, %s, %s, %s)' % (s, sh, b, coqio.B(r['is_burst'])))
    return inp, '(Ok %s)' % (coqio.lst(items) if items else 'nil')


# ----------------------------------------------------------------------------------------------
# statement oracles (direct transcriptions of what the properties say, on the implementation's output)

def close(a, b, tol=1e-9):
    if math.isnan(a) or math.isnan(b):
        return math.isnan(a) and math.isnan(b)
    if a == b:
        return True
    return abs(a - b) <= tol * max(abs(a), abs(b))


def full_oscillations(c, o):
    """Number of full oscillations of the band-passed signal (reference kernel) inside the analysed stretch, i.e.
    beyond the requested boundary on both sides: same-direction zero crossings minus one. C01 quantifies over
    signals with at least three (extrema within the boundary are discarded by request, so oscillations there
    cannot count)."""
    rf = o['ref']
    n, padn = len(c['sig']), rf['padn']
    b = max(int(resolved(c)['boundary']), 0)
    bits = [(rf['pos'] >> i) & 1 for i in range(padn + b + 1, min(padn + n - b - 1, rf['npos']))]
    rises = sum(1 for a, b in zip(bits, bits[1:]) if not a and b)
    decays = sum(1 for a, b in zip(bits, bits[1:]) if a and not b)
    return max(rises, decays) - 1


def model_degenerate(o):
    """True when the (padded) band-passed signal has no rising or no falling zero crossing at all: the model then
    answers `Err EDegenerate` and the model comparison accepts any implementation result (it is void)."""
    rf = o['ref']
    bits = [(rf['pos'] >> i) & 1 for i in range(rf['npos'])]
    rise = any((not a) and b for a, b in zip(bits, bits[1:]))
    decay = any(a and (not b) for a, b in zip(bits, bits[1:]))
    return not (rise and decay)


def expected_cycles(c, o):
    """The cycles C01 speaks of, from the reference kernel alone: every half-wave of the band-passed signal that is
    closed by zero crossings on both sides carries one extremum of the raw signal (a peak on a positive, a trough on a
    negative half-wave; kinds read in the frame of the centre extremum); extrema within the boundary are discarded; a
    cycle is side extremum - centre extremum - side extremum.  Returns the list of admissible segmentations, each a list
    of cycles, each cycle a triple of inclusive index windows (last, centre, next) in signal coordinates.  More than one
    segmentation is admissible because C01 fixes neither how ties nor how the ends of a half-wave window are resolved
    (that can decide whether an outermost extremum survives the boundary), nor whether a leading complete cycle whose
    preceding rise/decay span is not available (no centre-kind extremum before it) gets a row.  None = too ambiguous."""
    import itertools
    rf = o['ref']
    padn, npos = rf['padn'], rf['npos']
    n = len(c['sig'])
    b = resolved(c)['boundary']
    sig = gen.unhexlist(c['sig'])
    sigc = sig if c['center'] == 'peak' else -sig
    sigp = np.pad(sigc, padn) if padn else sigc
    if len(sigp) != npos:
        return None
    bits = [(rf['pos'] >> i) & 1 for i in range(npos)]
    cross = [(i, bits[i + 1]) for i in range(npos - 1) if bits[i] != bits[i + 1]]
    waves = []                     # (kind, window, status) with status True / False / None (= depends on conventions)
    for (a, k), (e, _) in zip(cross, cross[1:]):
        # half-wave: samples a+1 .. e have the sign k; the code searches a .. e-1; accept anything in a .. e
        cands = set()
        for lo, hi in ((a, e), (a + 1, e + 1)):
            seg = sigp[lo:hi]
            if len(seg) == 0:
                continue
            v = seg.max() if k else seg.min()
            idx = np.flatnonzero(seg == v)
            cands.add(lo + int(idx[0]))
            cands.add(lo + int(idx[-1]))
        alive = set(b < p - padn < n - b for p in cands)
        waves.append(('C' if k else 'S', (a - padn, e - padn), alive.pop() if len(alive) == 1 else None))
    maybe = [i for i, w in enumerate(waves) if w[2] is None]
    if len(maybe) > 4:
        return None
    alts = []
    for choice in itertools.product([False, True], repeat=len(maybe)):
        st = [w[2] for w in waves]
        for i, v in zip(maybe, choice):
            st[i] = v
        on = [i for i, v in enumerate(st) if v]
        if on and on != list(range(on[0], on[-1] + 1)):
            continue               # survivors are a contiguous stretch (positions increase with the half-waves)
        seq = [waves[i] for i in on]
        full = [(seq[i][1], seq[i + 1][1], seq[i + 2][1]) for i in range(len(seq) - 2) if seq[i][0] == 'S']
        for alt in (full, full[1:] if (seq and seq[0][0] == 'S') else full):
            if alt not in alts:
                alts.append(alt)
    return alts


def _structure(rows, c, o, what):
    """Row-wise clauses of C01 on one table (list of unjson'ed / json rows with sample indices)."""
    n = len(c['sig'])
    b = resolved(c)['boundary']
    peak = c['center'] == 'peak'
    for i, r in enumerate(rows):
        ce, la, nx, zr, zd, lz = r['s']
        if not (la < ce < nx):
            return '%srow %d: extrema not ordered last<centre<next: %s' % (what, i, r['s'])
        m1, m2 = (zr, zd) if peak else (zd, zr)   # midpoint before / after the centre
        if not (la <= m1 <= ce <= m2 <= nx):
            return '%srow %d: midpoints outside the extrema they separate: %s' % (what, i, r['s'])
        if not (lz <= la):
            return '%srow %d: previous midpoint after the last side extremum: %s' % (what, i, r['s'])
        for v in (ce, la, nx, zr, zd):
            if not (b < v < n - b):
                return '%srow %d: index %d outside (boundary, len-boundary)' % (what, i, v)
        if not (0 <= lz < n):
            return '%srow %d: index outside the signal' % (what, i)
        if i > 0 and rows[i - 1]['s'][2] != la:
            return '%srows %d,%d do not share their side extremum' % (what, i - 1, i)
    # one row per cycle; peaks and troughs alternate: the rows are exactly the consecutive cycles of the band-passed signal
    if full_oscillations(c, o) >= 3:
        exp = expected_cycles(c, o)
        if exp:
            cand = [e for e in exp if len(e) == len(rows)]
            if not cand:
                return '%s%d rows, but the band-passed signal has %s cycles beyond the boundary' % (
                    what, len(rows), ' or '.join(str(k) for k in sorted(set(len(e) for e in exp))))
            msg = None
            for e in cand:
                msg = None
                for i, (r, (wl, wc, wn)) in enumerate(zip(rows, e)):
                    ce, la, nx = r['s'][:3]
                    if not (wl[0] <= la <= wl[1] and wc[0] <= ce <= wc[1] and wn[0] <= nx <= wn[1]):
                        msg = ('%srow %d is not cycle %d of the band-passed signal: extrema (%d, %d, %d) outside the half-waves '
                               '%s, %s, %s' % (what, i, i, la, ce, nx, list(wl), list(wc), list(wn)))
                        break
                if msg is None:
                    break
            if msg:
                return msg
    return None


def oracle_structure(c, o):
    """C01: table instead of raising; one row per cycle; ordering, bounds, tiling, alternation; for compute_features and,
    when the case asks for it, Bycycle.fit / df_features."""
    if 'skip' in o:
        return None
    in_domain = None
    if 'err' in o or not o['rows']:
        in_domain = full_oscillations(c, o) >= 3
        # outside the property's domain: fewer than three full oscillations in the band-passed signal
        if in_domain and 'err' in o:
            return 'raised %sError (%s) instead of returning a table' % (o['err'], o.get('errmsg', ''))
        if in_domain:
            return 'empty table'
    else:
        msg = _structure(o['rows'], c, o, '')
        if msg:
            return msg
        if c['return_samples'] is False and not o.get('nosamples_ok', True):
            return 'return_samples=False does not give the same table without sample columns'
        if not o.get('sig_unchanged', True):
            return 'input signal modified'
    if c.get('fit'):
        if in_domain is None:
            in_domain = full_oscillations(c, o) >= 3
        if 'fit_err' in o or ('fit_rows' in o and not o['fit_rows']):
            if in_domain:
                return 'Bycycle.fit %s instead of giving a table' % (
                    'raised %sError (%s)' % (o['fit_err'], o.get('fit_errmsg', '')) if 'fit_err' in o else 'gave an empty table')
        elif 'fit_rows' in o:
            if c['return_samples']:
                if any(r.get('s') is None for r in o['fit_rows']):
                    return 'Bycycle.fit with return_samples=True gives a table without the sample columns'
                msg = _structure(o['fit_rows'], c, o, 'Bycycle.fit: ')
                if msg:
                    return msg
            elif 'rows' in o and len(o['fit_rows']) != len(o['rows']) and in_domain:
                return 'Bycycle.fit: %d rows, compute_features %d rows' % (len(o['fit_rows']), len(o['rows']))
    return None


def _shape_rows(rows, srows, sig, amp, peak, tol, what):
    """C04 formulas on `rows`, cyclepoints taken from `srows` (the same table, or the table with sample columns)."""
    for i, (r, sr) in enumerate(zip(rows, srows)):
        ce, la, nx, zr, zd, lz = sr['s']
        per, tpk, ttr, tdec, tris = r['int']
        vpk, vtr, vdec, vris, vamp, rdsym, ptsym, bamp = r['flt']
        if per != nx - la or per != tris + tdec:
            return '%srow %d: period %d != next-last %d or != rise+decay' % (what, i, per, nx - la)
        if peak:
            want = dict(tris=ce - la, tdec=nx - ce, tpk=zd - zr, ttr=zr - lz, vpk=sig[ce], vtr=sig[la],
                        vris=sig[ce] - sig[la], vdec=sig[ce] - sig[nx])
        else:
            want = dict(tdec=ce - la, tris=nx - ce, ttr=zr - zd, tpk=zd - lz, vtr=sig[ce], vpk=sig[la],
                        vdec=sig[la] - sig[ce], vris=sig[nx] - sig[ce])
        got = dict(tris=tris, tdec=tdec, tpk=tpk, ttr=ttr, vpk=vpk, vtr=vtr, vris=vris, vdec=vdec)
        for k in want:
            if isinstance(want[k], (int, np.integer)):
                if got[k] != want[k]:
                    return '%srow %d: %s = %s, documented value %s' % (what, i, k, got[k], want[k])
            elif not close(got[k], float(want[k]), tol):
                return '%srow %d: %s = %r, documented value %r' % (what, i, k, got[k], float(want[k]))
        if not close(vamp, (vris + vdec) / 2, tol):
            return '%srow %d: volt_amp is not the mean of volt_rise and volt_decay' % (what, i)
        if tpk < 0 or ttr < 0 or tpk + ttr <= 0:
            return '%srow %d: negative time_peak/time_trough' % (what, i)
        if not close(rdsym, tris / per) or not (0 < rdsym < 1):
            return '%srow %d: time_rdsym %r != time_rise/period %r or outside (0,1)' % (what, i, rdsym, tris / per)
        if not close(ptsym, tpk / (tpk + ttr)) or not (0 <= ptsym <= 1):
            return '%srow %d: time_ptsym %r != time_peak/(time_peak+time_trough) or outside [0,1]' % (what, i, ptsym)
        want_b = float(np.mean(amp[la:nx]))
        if not close(bamp, want_b, max(tol, 1e-8)):
            return '%srow %d: band_amp %r != mean envelope over [last,next) %r' % (what, i, bamp, want_b)
    return None


def oracle_shape(c, o):
    """C04: each shape feature is the documented function of the row's cyclepoints and the ORIGINAL signal, with and
    without sample columns (the return_samples=False table is read against the cyclepoints of the return_samples=True
    run of the same input)."""
    if 'skip' in o or 'err' in o:
        return None
    sig = gen.unhexlist(c['sig'])
    amp = gen.unhexlist(o['ref']['amp'])
    peak = c['center'] == 'peak'
    # float32 samples: voltage differences are formed in single precision (correctly rounded: 2^-24 relative)
    tol = 1e-6 if c.get('dtype') == 'float32' else 1e-9
    rows = unjson(o['rows'])
    msg = _shape_rows(rows, rows, sig, amp, peak, tol, '')
    if msg:
        return msg
    if 'rows2' in o:
        bad = [x for x in o.get('columns2', []) if x.startswith('sample_')]
        if bad:
            return 'return_samples=False: table still has sample columns %s' % bad
        rows2 = unjson(o['rows2'])
        if len(rows2) != len(rows):
            return 'return_samples=False: %d rows, with sample columns %d rows' % (len(rows2), len(rows))
        return _shape_rows(rows2, rows, sig, amp, peak, tol, 'return_samples=False: ')
    return None


def _ratio(a, b):
    with np.errstate(all='ignore'):
        return float(np.float64(min(a, b)) / np.float64(max(a, b))) if not (math.isnan(a) or math.isnan(b)) else float('nan')


def spec_burst_features(rows, sig, peak):
    """Centring-free definitions: flanks in temporal order."""
    n = len(rows)
    va = [r['flt'][4] for r in rows]
    af = []
    for v in va:
        if math.isnan(v):
            af.append(float('nan'))
        else:
            less = sum(1 for w in va if w < v)
            eq = sum(1 for w in va if w == v)
            af.append((less + (eq + 1) / 2) / n)
    # temporal flank sequence: for each row the flank before the centre and the flank after it
    first = [r['flt'][3] if peak else r['flt'][2] for r in rows]    # peak: rise then decay; trough: decay then rise
    second = [r['flt'][2] if peak else r['flt'][3] for r in rows]
    ac, pc = [float('nan')] * n, [float('nan')] * n
    per = [r['int'][0] for r in rows]
    for c in range(1, n - 1):
        cands = [_ratio(first[c], second[c]), _ratio(second[c - 1], first[c]), _ratio(second[c], first[c + 1])]
        vals = [x for x in cands if not math.isnan(x)]
        ac[c] = max(0.0, min(vals)) if vals else float('nan')
        pc[c] = min(_ratio(per[c], per[c - 1]), _ratio(per[c], per[c + 1]))
    mo = []
    for r in rows:
        ce, la, nx = r['s'][0], r['s'][1], r['s'][2]
        a, b = sig[la:ce + 1], sig[ce:nx + 1]
        rise, decay = (a, b) if peak else (b, a)
        up = float(np.mean(np.diff(rise) > 0))
        dn = float(np.mean(np.diff(decay) < 0))
        mo.append((up + dn) / 2)
    return af, ac, pc, mo


def oracle_burstfeat(c, o):
    """C05 on pipeline tables (cycles method)."""
    if 'skip' in o or 'err' in o or c['method'] != 'cycles':
        return None
    rows = unjson(o['rows'])
    sig = gen.unhexlist(c['sig'])
    af, ac, pc, mo = spec_burst_features(rows, sig, c['center'] == 'peak')
    names = ['amp_fraction', 'amp_consistency', 'period_consistency', 'monotonicity']
    for i, r in enumerate(rows):
        for k, want in enumerate([af[i], ac[i], pc[i], mo[i]]):
            if not close(r['burst'][k], want):
                return 'row %d: %s = %r, documented value %r' % (i, names[k], r['burst'][k], want)
        vr, vd = r['flt'][3], r['flt'][2]
        for k in range(4):
            v = r['burst'][k]
            if not math.isnan(v) and not (0 <= v <= 1):
                if k in (1,) and not all(x > 0 for rr in rows[max(0, i - 1):i + 2] for x in (rr['flt'][2], rr['flt'][3])):
                    continue
                return 'row %d: %s = %r outside [0,1]' % (i, names[k], v)
    return None


def spec_minrun(q, n):
    out, i = [False] * len(q), 0
    while i < len(q):
        if q[i]:
            j = i
            while j < len(q) and q[j]:
                j += 1
            if j - i >= n:
                out[i:j] = [True] * (j - i)
            i = j
        else:
            i += 1
    return out


def oracle_labels_cycles(c, o):
    """C06 on pipeline tables: labels = rule applied to the table's own features with the caller's thresholds (the
    count is the THRESHOLDS' min_n_cycles, else 3, whatever else the call carries).  The table of the same analysis made
    through Bycycle.fit (cases with `fit`) is a compute_features table and is judged the same way."""
    if 'skip' in o or 'err' in o or c['method'] != 'cycles':
        return None
    rs = resolved(c)
    for key, what in (('rows', ''), ('fit_rows', 'Bycycle.fit: ')):
        if key not in o:
            continue
        rows = unjson(o[key])
        q = [all(r['burst'][k] > rs['thr'][k] for k in range(4)) for r in rows]
        if q:
            q[0] = False
            q[-1] = False
        want = spec_minrun(q, rs['n'])
        got = [r['is_burst'] for r in rows]
        if got != want:
            return '%sis_burst differs from the threshold-and-run rule with the thresholds passed: got %s want %s' % (what, got, want)
    return None


def oracle_labels_amp(c, o):
    """C07: burst_fraction from the reference detector mask, labels by >= threshold and run filter, one min count."""
    if 'skip' in o or 'err' in o or c['method'] != 'amp':
        return None
    rows = unjson(o['rows'])
    rs = resolved(c, o)
    rf = o['ref']
    mask = [(rf['mask'] >> i) & 1 for i in range(rf['nmask'])]
    bf = []
    for i, r in enumerate(rows):
        la, nx = r['s'][1], r['s'][2]
        want = float(np.mean(mask[la:nx + 1]))
        if not close(r['burst'][4], want):
            return 'row %d: burst_fraction %r, detector mask over [last,next] gives %r (min_n_cycles=%s)' % (
                i, r['burst'][4], want, rs['n'])
        bf.append(r['burst'][4])
    want = spec_minrun([f >= rs['bft'] for f in bf], rs['n'])
    got = [r['is_burst'] for r in rows]
    if got != want:
        return 'is_burst differs from (fraction >= %s, run >= %s): got %s want %s' % (rs['bft'], rs['n'], got, want)
    return None


def _mirror_expect(r):
    """Trough-centred row expected from the peak-centred analysis of the negated signal (and vice versa)."""
    s = r['s']
    per, tpk, ttr, tdec, tris = r['int']
    vpk, vtr, vdec, vris, vamp, rdsym, ptsym, bamp = r['flt']
    return {'s': [s[0], s[1], s[2], s[4], s[3], s[5]], 'int': [per, ttr, tpk, tris, tdec],
            'flt': [-vtr, -vpk, vris, vdec, vamp, 1 - rdsym, 1 - ptsym, bamp], 'burst': r['burst'], 'is_burst': r['is_burst']}


def _same_cell(a, b):
    return a == b or (math.isnan(a) and math.isnan(b))


def oracle_mirror(c, o, exact_burst=True):
    """C09: analysing sig trough-centred == analysing -sig peak-centred, after the documented swap.  One side returning
    a table while the other raises is a difference of the two analyses (the kind of error is not compared).  Burst
    features and labels are to be IDENTICAL (the statement says so; the two runs execute the same operations on the
    same numbers); voltages / symmetries within 1e-9."""
    if 'skip' in o or 'ref' not in o:
        return None
    if 'err' in o:
        if 'mirror' in o and full_oscillations(c, o) >= 3:
            if str(o.get('errmsg', '')).startswith('harness:'):
                return 'the %s-centred table cannot be read (%s) while the mirrored analysis gives a table of %d rows' % (
                    c['center'], o['errmsg'][9:], len(o['mirror']))
            return 'analysis raised %sError (%s) but the mirrored analysis of the negated signal returned a table of %d rows' % (
                o['err'], o.get('errmsg', ''), len(o['mirror']))
        return None
    if 'mirror_err' in o:
        if str(o.get('mirror_errmsg', '')).startswith('harness:'):
            return 'mirror analysis: %s' % o['mirror_errmsg'][9:]
        return 'mirror analysis raised %sError (%s)' % (o['mirror_err'], o.get('mirror_errmsg', ''))
    if 'mirror' not in o:
        return None
    a, b = unjson(o['rows']), unjson(o['mirror'])
    if len(a) != len(b):
        return 'different number of cycles: %d vs %d' % (len(a), len(b))
    for i, (x, y) in enumerate(zip(a, b)):
        w = _mirror_expect(y)
        if x['s'] != w['s']:
            return 'row %d: sample indices differ %s vs %s' % (i, x['s'], w['s'])
        if x['int'] != w['int']:
            return 'row %d: durations differ %s vs %s' % (i, x['int'], w['int'])
        for k in range(8):
            if not close(x['flt'][k], w['flt'][k]):
                return 'row %d: %s differs: %r vs mirrored %r' % (i, SHAPE_FLT[k], x['flt'][k], w['flt'][k])
        for k in range(5):
            if not (_same_cell(x['burst'][k], w['burst'][k]) if exact_burst else close(x['burst'][k], w['burst'][k])):
                return 'row %d: %s differs: %r vs %r' % (i, BURST[k], x['burst'][k], w['burst'][k])
        if x['is_burst'] != w['is_burst']:
            return 'row %d: is_burst differs' % i
    return None


def mirror_columns(cols):
    """Column names of a table after the peak <-> trough swap of the centring."""
    sw = {'sample_peak': 'sample_trough', 'sample_trough': 'sample_peak', 'sample_last_trough': 'sample_last_peak',
          'sample_last_peak': 'sample_last_trough', 'sample_next_trough': 'sample_next_peak',
          'sample_next_peak': 'sample_next_trough', 'sample_last_zerox_decay': 'sample_last_zerox_rise',
          'sample_last_zerox_rise': 'sample_last_zerox_decay'}
    return sorted(sw.get(x, x) for x in cols)


def oracle_scale(c, o):
    """C10: power-of-two amplitude scaling and (c*fs, c*f_range) invariance."""
    if 'skip' in o or 'err' in o:
        return None
    a = unjson(o['rows'])
    if 'scaled_err' in o:
        return 'scaled analysis raised %s (%s)' % (o['scaled_err'], o.get('scaled_errmsg', ''))
    if 'scaled' in o:
        f = 2.0 ** c['scale_pow']
        how = ' (same array rescaled in place)' if o.get('scale_inplace') else ''
        b = unjson(o['scaled'])
        if len(a) != len(b):
            return 'amplitude scaling changed the number of cycles' + how
        lost = sorted(set(o.get('columns', [])) - set(o.get('scaled_columns', o.get('columns', []))))
        if lost:
            return 'amplitude scaling lost the columns %s%s' % (lost, how)
        for i, (x, y) in enumerate(zip(a, b)):
            if x['s'] != y['s'] or x['int'] != y['int'] or x['is_burst'] != y['is_burst']:
                return 'row %d: indices/durations/labels changed under amplitude scaling by 2^%d%s' % (i, c['scale_pow'], how)
            for k in range(8):
                want = x['flt'][k] * f if k < 5 or k == 7 else x['flt'][k]
                tol = 1e-9 if k == 7 else 0.0
                if not (close(y['flt'][k], want, tol) if tol else (y['flt'][k] == want or (math.isnan(want) and math.isnan(y['flt'][k])))):
                    return 'row %d: %s %r -> %r, expected %r%s' % (i, SHAPE_FLT[k], x['flt'][k], y['flt'][k], want, how)
            for k in range(5):
                if not close(x['burst'][k], y['burst'][k], 1e-12):
                    return 'row %d: %s changed under amplitude scaling%s' % (i, BURST[k], how)
    if 'fsmult_err' in o:
        return 'analysis with scaled fs raised %s (%s)' % (o['fsmult_err'], o.get('fsmult_errmsg', ''))
    if 'fsmult' in o:
        b = unjson(o['fsmult'])
        if len(a) != len(b):
            return 'fs/f_range scaling changed the number of cycles'
        if 'fsmult_columns' in o and o['fsmult_columns'] != o.get('columns'):
            return 'fs/f_range scaling changed the columns of the table by %s' % (
                sorted(set(o['fsmult_columns']) ^ set(o.get('columns', []))),)
        for i, (x, y) in enumerate(zip(a, b)):
            if x['s'] != y['s'] or x['int'] != y['int'] or x['is_burst'] != y['is_burst']:
                return 'row %d: indices/durations/labels changed when fs and f_range are multiplied by %s' % (i, c['fs_mult'])
            for k in range(8):
                if not close(x['flt'][k], y['flt'][k], 1e-7):
                    return 'row %d: %s changed when fs and f_range are multiplied by %s: %r vs %r' % (
                        i, SHAPE_FLT[k], c['fs_mult'], x['flt'][k], y['flt'][k])
            for k in range(5):
                if not close(x['burst'][k], y['burst'][k], 1e-9):
                    return 'row %d: %s changed when fs and f_range are multiplied' % (i, BURST[k])
    return None


def nontrivial_table(c, o, need_labels=False):
    if 'rows' not in o or len(o['rows']) < 3:
        return False
    if need_labels:
        lab = [r['is_burst'] for r in o['rows']]
        return any(lab) and not all(lab)
    return True


VOID = {'n': 0}
COUNTS = {}


def _count(k, n=1):
    COUNTS[k] = COUNTS.get(k, 0) + n


def premise_failed(o):
    """The mirror theorem's premise (reference envelope / detector mask of -x equal those of x) does not hold on this input."""
    pr = o.get('premise')
    return bool(pr) and not (pr.get('amp', True) and pr.get('mask', True) is not False)


def extra_evidence():
    """Counters of this run: cases on which the model comparison was void (model answers Err EDegenerate); cases carrying
    a history / an in-place replay / a re-ordered option dictionary / a threshold from a first run / a refilled work
    buffer / a read-only input / rejected calls before the judged analysis / a filter length or minimum duration on an
    integer number of samples; premise checks."""
    ev = {'model_comparison_void_cases': VOID['n']}
    ev.update(COUNTS)
    return ev


def kind_of(c, o):
    """Input class for the evidence: generator kind, outcome, and `/model-void` when the model answers Err EDegenerate
    (no rising or no falling crossing in the reference band-pass) so that the comparison accepts anything.  Also feeds
    the counters reported by extra_evidence (called once per case by the driver)."""
    void = '/model-void' if ('ref' in o and model_degenerate(o)) else ''
    if void:
        VOID['n'] += 1
    if c.get('history'):
        _count('cases_with_history')
        _count('history_calls', len(c['history']))
        _count('history_calls_raised', sum(1 for x in o.get('history', []) if x != 'ok'))
    if 'ref' in o:
        if c.get('prebuffer'):
            _count('cases_on_a_refilled_buffer')
            _count('decoy_analyses_that_raised', int(o.get('prebuffer') != 'ok'))
        if c.get('readonly'):
            _count('cases_with_read_only_input')
        if c.get('rejected'):
            _count('cases_after_rejected_calls')
            _count('rejected_calls', len(c['rejected']))
            _count('rejected_calls_not_rejected', sum(1 for x in o.get('rejected', []) if x == 'accepted'))
        if c.get('exact'):
            x = c['exact']
            _count('cases_with_a_length_on_an_integer')
            _count('length_on_an_integer/' + x['target'])
            _count('length_on_an_integer_' + {'exact': 'exactly', 'at': 'rounded_onto_it', 'above': 'one_ulp_above',
                                              'below': 'one_ulp_below'}[x['rel']])
            _count('length_on_an_integer_equivalent_computations_disagree', int(bool(x['disc_taps'] or x['disc_ceil'])))
    if o.get('mirror_inplace'):
        _count('mirror_replays_in_place')
    if o.get('scale_inplace'):
        _count('scaled_replays_in_place')
    if c.get('kernel_rejects_fs_replay'):
        _count('fs_replays_rejected_by_the_kernel_known_finding')
    if o.get('fs_nseconds') and 'fsmult' in o:
        _count('fs_replays_with_rescaled_n_seconds')
    if o.get('bft_used') is not None:
        _count('thresholds_taken_from_a_first_run')
    if (c.get('bk') or {}).get('filter_kwargs') is not None and c['method'] == 'amp':
        _count('cases_with_detector_filter_kwargs')
    if c['method'] == 'cycles' and c.get('bk') and not c.get('shape_only') and 'ref' in o:
        # options of the method that is not selected (other_method_options)
        _count('cycles_cases_with_nonempty_burst_kwargs')
        n_other, n_here = c['bk'].get('min_n_cycles'), resolved(c)['n']
        _count('cycles_cases_whose_burst_kwargs_count_differs', int(n_other is not None and n_other != n_here))
        if 'rows' in o and n_other is not None:
            rows = unjson(o['rows'])
            th = resolved(c)['thr']
            q = [all(r['burst'][k] > th[k] for k in range(4)) for r in rows]
            if q:
                q[0] = q[-1] = False
            _count('cycles_cases_where_the_burst_kwargs_count_would_change_a_label',
                   int(spec_minrun(q, n_other) != spec_minrun(q, n_here)))
    ko = c.get('key_order') or {}
    if any(ko.get(n) and ko[n] != list(c[n]) for n in ('fek', 'thr', 'bk') if isinstance(c.get(n), dict)):
        _count('cases_with_reordered_option_keys')
    if 'premise' in o:
        _count('mirror_premise_checked')
        if premise_failed(o):
            _count('mirror_premise_failed')
            void += '/premise-failed'
    if 'routing' in o:
        _count('routing_cases_detector_observable', int(o['routing']['det']))
        _count('routing_cases_run_filter_observable', int(o['routing']['filt']))
    if c.get('dtype') == 'float32' and 'ref' in o:
        void += '/oracle-only'
    if 'err' in o and 'ref' in o:
        return c['kind'] + ('/err-fewer-than-3-oscillations' if full_oscillations(c, o) < 3 else '/err') + void
    return c['kind'] + ('/skip' if 'skip' in o else '/err' if 'err' in o else '') + void
