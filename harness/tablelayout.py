"""Column layout of the cycle tables handed to the functions under test (shared by the table streams of C05, C06, C07,
C13, C16).

A cycle table is a pandas DataFrame whose columns are addressed BY NAME.  Users sort the columns
(`df[sorted(df.columns)]`), re-assemble tables by hand in another key order, read them back from files and add columns
of their own.  None of the properties says anything about the position of a column, so every table stream hands a share
of its tables over with the columns permuted (sorted by name, reversed, shuffled) and, for some, with one unrelated
extra column; results are read by name.  A layout is a small JSON-able dict stored in the case (key 'cols'), absent /
None = the order in which the driver (or the library) built the table.

    gen_layout(rng)        -> None | {'order': 'sorted'|'reversed'|'random'|'lib', 'seed': int, 'extra': [name, type]}
    apply_layout(df, lay)  -> a NEW DataFrame with that layout (the argument is left alone)
    same_column(a, b)      -> value equality of two columns of any dtype (NaN equals NaN)
    tag(lay)               -> suffix for the evidence's input distribution

Row labels.  A cycle table made by the library carries the labels 0..n-1, but users hand over parts of tables without
`reset_index`: `df.iloc[k:]`, `df[mask]`, a table re-labelled by hand, read back from a file with a string key, put
together with `pd.concat`.  The rows are still the cycles in their order; only the labels differ.  No property speaks
about row labels, so results are compared BY POSITION with the definition.

    gen_rows(rng)          -> None | {'how': 'slice'|'mask'|'gaps'|'shuffled'|'str'|'dup', 'seed': int}
    apply_rows(df, lay)    -> a table with the same rows in the same order and those labels ('slice' / 'mask' really
                              cut the rows out of a longer table)
    rows_tag(lay)          -> suffix for the evidence's input distribution
"""
import random
import numpy as np

# names that no library function looks for; none contains 'sample_' (epoch_df / limit_df treat such columns as indices)
EXTRAS = [('subject', 'str'), ('note', 'float'), ('trial', 'int'), ('aaa_user', 'float'), ('zz_flag', 'bool'),
          ('Amp_Fraction_raw', 'float')]


def gen_layout(rng, p_perm=0.4, p_extra=0.35):
    """About 40 % of the tables get another column order; about a third of those also an unrelated extra column
    (a quarter of these keep the original order, the extra column simply appended)."""
    if rng.random() >= p_perm:
        return None
    lay = {'order': rng.choice(['sorted', 'reversed', 'random', 'random']), 'seed': rng.randrange(1 << 30)}
    if rng.random() < p_extra:
        lay['extra'] = list(rng.choice(EXTRAS))
        if rng.random() < 0.25:
            lay['order'] = 'lib'
    return lay


def extra_values(typ, n):
    if typ == 'str':
        return np.array(['s%d' % (i % 3) for i in range(n)], dtype=object)
    if typ == 'int':
        return np.array([(i * 7) % 5 for i in range(n)], dtype=int)
    if typ == 'bool':
        return np.array([i % 2 == 0 for i in range(n)], dtype=bool)
    return np.array([float('nan') if i % 4 == 2 else 0.25 * i - 1.0 for i in range(n)], dtype=float)


def extra_name(lay):
    return lay['extra'][0] if lay and lay.get('extra') else None


def apply_layout(df, lay):
    if not lay:
        return df
    if lay.get('extra'):
        df = df.copy()
        name, typ = lay['extra']
        df[name] = extra_values(typ, len(df))
    cols = list(df.columns)
    order = lay.get('order', 'lib')
    if order == 'sorted':
        cols = sorted(cols)
    elif order == 'reversed':
        cols = cols[::-1]
    elif order == 'random':
        random.Random(lay.get('seed', 0)).shuffle(cols)
    return df[cols].copy()


def same_column(a, b):
    """Two columns hold the same values (any dtype; NaN equals NaN; 1 == 1.0 == True is accepted)."""
    a, b = np.asarray(a), np.asarray(b)
    if a.shape != b.shape:
        return False
    try:
        return bool(np.array_equal(a, b, equal_nan=True))
    except TypeError:
        pass
    for x, y in zip(a.ravel().tolist(), b.ravel().tolist()):
        if x is y:
            continue
        try:
            if x == y or (x != x and y != y):
                continue
        except Exception:
            pass
        return False
    return True


def tag(lay):
    if not lay:
        return ''
    return ('/cols-' + lay.get('order', 'lib')) + ('+extra' if lay.get('extra') else '')


ROW_STYLES = ['slice', 'slice', 'mask', 'mask', 'gaps', 'shuffled', 'str', 'dup']


def gen_rows(rng, p=0.35):
    if rng.random() >= p:
        return None
    return {'how': rng.choice(ROW_STYLES), 'seed': rng.randrange(1 << 30)}


def apply_rows(df, lay):
    """The same rows in the same order under non-default row labels (the argument is left alone)."""
    n = len(df)
    if not lay or n == 0:
        return df
    r = random.Random(lay.get('seed', 0))
    how = lay['how']
    if how in ('slice', 'mask'):
        # a longer table (the extra rows repeat rows of this one, so every dtype is kept) from which the rows are
        # taken out again the way a user does it, without reset_index
        if how == 'slice':
            keep = [False] * r.randint(1, 4) + [True] * n + [False] * r.randint(0, 2)
        else:
            keep = [False] * r.randint(0, 2)
            for _ in range(n):
                keep.extend([False] * r.choice([0, 0, 1, 2]))
                keep.append(True)
            keep.extend([False] * r.randint(0, 2))
            if all(keep):
                keep.insert(r.randrange(n + 1), False)
        src, k = [], 0
        for b in keep:
            src.append(k if b else r.randrange(n))
            k += 1 if b else 0
        big = df.iloc[src].reset_index(drop=True)
        if how == 'slice':
            first = keep.index(True)
            return big.iloc[first:first + n]
        return big[np.array(keep, dtype=bool)]
    if how == 'gaps':
        labels, cur = [], r.randint(0, 5)
        for _ in range(n):
            labels.append(cur)
            cur += r.choice([1, 1, 2, 5])
    elif how == 'shuffled':
        labels = list(range(n))
        r.shuffle(labels)
    elif how == 'str':
        labels = ['cyc%02d' % i for i in range(n)]
        if r.random() < 0.5:
            r.shuffle(labels)
    else:       # 'dup': two tables put together with pd.concat (labels start again in the middle)
        k = r.randint(1, n)
        labels = list(range(k)) + list(range(n - k))
    out = df.copy()
    out.index = labels
    return out


def rows_tag(lay):
    return '/rows-' + lay['how'] if lay else ''
