"""Column layout of the cycle tables handed to the functions under test (shared by the table streams of C05, C06, C07,
C13, C16).

A cycle table is a pandas DataFrame whose columns are addressed BY NAME.  Users sort the columns
(`df[sorted(df.columns)]`), re-assemble tables by hand in another key order, read them back from files and add columns
of their own.  None of the properties says anything about the position of a column, so every table stream hands a share
of its tables over with the columns permuted (sorted by name, reversed, shuffled) and, for some, with one unrelated
extra column; results are read by name.  A layout is a small JSON-able dict stored in the case (key 'cols'), absent /
None = the order in which the driver (or the library) built the table.

    gen_layout(rng)        -> None | {'order': 'sorted'|'reversed'|'random'|'lib', 'seed': int, 'extra': [name, type]}
    apply_layout(df, lay)  -> a NEW DataFrame with that layout (the argument is left alone)
    same_column(a, b)      -> value equality of two columns of any dtype (NaN equals NaN)
    tag(lay)               -> suffix for the evidence's input distribution
"""
import random
import numpy as np

# names that no library function looks for; none contains 'sample_' (epoch_df / limit_df treat such columns as indices)
EXTRAS = [('subject', 'str'), ('note', 'float'), ('trial', 'int'), ('aaa_user', 'float'), ('zz_flag', 'bool'),
          ('Amp_Fraction_raw', 'float')]


def gen_layout(rng, p_perm=0.4, p_extra=0.35):
    """About 40 % of the tables get another column order; about a third of those also an unrelated extra column
    (a quarter of these keep the original order, the extra column simply appended)."""
    if rng.random() >= p_perm:
        return None
    lay = {'order': rng.choice(['sorted', 'reversed', 'random', 'random']), 'seed': rng.randrange(1 << 30)}
    if rng.random() < p_extra:
        lay['extra'] = list(rng.choice(EXTRAS))
        if rng.random() < 0.25:
            lay['order'] = 'lib'
    return lay


def extra_values(typ, n):
    if typ == 'str':
        return np.array(['s%d' % (i % 3) for i in range(n)], dtype=object)
    if typ == 'int':
        return np.array([(i * 7) % 5 for i in range(n)], dtype=int)
    if typ == 'bool':
        return np.array([i % 2 == 0 for i in range(n)], dtype=bool)
    return np.array([float('nan') if i % 4 == 2 else 0.25 * i - 1.0 for i in range(n)], dtype=float)


def extra_name(lay):
    return lay['extra'][0] if lay and lay.get('extra') else None


def apply_layout(df, lay):
    if not lay:
        return df
    if lay.get('extra'):
        df = df.copy()
        name, typ = lay['extra']
        df[name] = extra_values(typ, len(df))
    cols = list(df.columns)
    order = lay.get('order', 'lib')
    if order == 'sorted':
        cols = sorted(cols)
    elif order == 'reversed':
        cols = cols[::-1]
    elif order == 'random':
        random.Random(lay.get('seed', 0)).shuffle(cols)
    return df[cols].copy()


def same_column(a, b):
    """Two columns hold the same values (any dtype; NaN equals NaN; 1 == 1.0 == True is accepted)."""
    a, b = np.asarray(a), np.asarray(b)
    if a.shape != b.shape:
        return False
    try:
        return bool(np.array_equal(a, b, equal_nan=True))
    except TypeError:
        pass
    for x, y in zip(a.ravel().tolist(), b.ravel().tolist()):
        if x is y:
            continue
        try:
            if x == y or (x != x and y != y):
                continue
        except Exception:
            pass
        return False
    return True


def tag(lay):
    if not lay:
        return ''
    return ('/cols-' + lay.get('order', 'lib')) + ('+extra' if lay.get('extra') else '')
