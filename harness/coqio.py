"""Coq I/O: literals, case-file shards, parallel coqc, strict output parsing."""
import math, os, re, subprocess, struct
from concurrent.futures import ThreadPoolExecutor

VERIF = '/verif'
COQDIR = VERIF + '/coq'
COQFLAGS = ['-Q', COQDIR + '/theories', 'ByC', '-w', '-all']


def fl(x):
    """Python float -> Coq PrimFloat literal (exact)."""
    x = float(x)
    if math.isnan(x):
        return 'nan'
    if math.isinf(x):
        return 'infinity' if x > 0 else 'neg_infinity'
    if x == 0.0:
        return '(-0)' if math.copysign(1.0, x) < 0 else '0'
    h = x.hex()
    return '(' + h + ')' if h.startswith('-') else h


def Z(i):
    i = int(i)
    return '(%d)' % i if i < 0 else '%d' % i


def B(b):
    return 'true' if b else 'false'


def lst(items, scope=None):
    s = '[' + '; '.join(items) + ']'
    return s + '%' + scope if scope else s


def zlist(xs):
    return lst([Z(x) for x in xs], 'Z') if len(xs) else '(@nil Z)'


def flist(xs):
    return lst([fl(x) for x in xs], 'float') if len(xs) else '(@nil float)'


def blist(xs):
    return lst([B(x) for x in xs]) if len(xs) else '(@nil bool)'


def opt(x, f):
    return 'None' if x is None else '(Some %s)' % f(x)


def mask_of(bits):
    m = 0
    for i, b in enumerate(bits):
        if b:
            m |= 1 << i
    return m


def barr(ln, mask):
    """Boolean array (length, bitmask) as a Coq `barr`: bitmask when short, run lengths when long."""
    if ln <= 60:
        return '(AMask %d%%nat %d%%N)' % (ln, mask)
    bits = [(mask >> i) & 1 for i in range(ln)]
    runs, cur, k = [], bits[0], 0
    for b in bits:
        if b == cur:
            k += 1
        else:
            runs.append(k)
            cur, k = b, 1
    runs.append(k)
    return '(ARle %s [%s]%%nat)' % (B(bits[0]), '; '.join(str(r) for r in runs))


_RES = re.compile(r'=\s*\(\s*(\d+)%N\s*,\s*(\[[^\]]*\]|nil)\s*\)')


def parse_report(out):
    """Strictly parse `= (count%N, [ids])`; anything else is an error (None)."""
    flat = ' '.join(out.split())
    m = _RES.search(flat)
    if not m:
        return None
    n = int(m.group(1))
    body = m.group(2)
    ids = [int(t) for t in re.findall(r'(\d+)%N', body)] if body != 'nil' else []
    if body not in ('nil', '[]') and not ids:
        # ids may be printed without %N inside a list with a scope delimiter
        ids = [int(t) for t in re.findall(r'\d+', body)]
    return n, ids


def run_coqc(path, timeout=900):
    try:
        p = subprocess.run(['coqc'] + COQFLAGS + [path], capture_output=True, text=True,
                           timeout=timeout, cwd=os.path.dirname(path))
        return p.returncode, p.stdout, p.stderr
    except subprocess.TimeoutExpired:
        return 124, '', 'timeout'


def eval_shards(workdir, header, runner, triples, shard=400, jobs=16, timeout=900, tag='cases', ctype=None):
    """triples: list of (id:int, coq_input:str, coq_output:str).
    Each shard file: header; Definition cases := [...]; Eval vm_compute in (runner cases).
    Returns (n_evaluated, bad_ids, errors)."""
    os.makedirs(workdir, exist_ok=True)
    files = []
    for k in range(0, len(triples), shard):
        chunk = triples[k:k + shard]
        path = os.path.join(workdir, '%s_%d.v' % (tag, k // shard))
        with open(path, 'w') as f:
            f.write(header + '\nSet Printing Width 1000000.\nSet Printing Depth 1000000.\n')
            f.write('Definition cases%s :=\n [ ' % ((' : list (N * (%s) * (%s))' % ctype) if ctype else ''))
            f.write('\n ; '.join('(%d%%N, %s, %s)' % t for t in chunk))
            f.write('\n ].\n')
            f.write('Eval vm_compute in (%s cases).\n' % runner)
        files.append((path, len(chunk)))
    total, bad, errors = 0, [], []

    def one(fc):
        path, cnt = fc
        rc, out, errtxt = run_coqc(path, timeout)
        return path, cnt, rc, out, errtxt

    with ThreadPoolExecutor(max_workers=jobs) as ex:
        for path, cnt, rc, out, errtxt in ex.map(one, files):
            rep = parse_report(out) if rc == 0 else None
            if rep is None or rep[0] != cnt:
                errors.append({'file': path, 'rc': rc, 'stderr': errtxt[-2000:], 'stdout': out[-500:]})
            else:
                total += rep[0]
                bad.extend(rep[1])
    for path, _ in files:
        for ext in ('.vo', '.vok', '.vos', '.glob'):
            q = path[:-2] + ext
            if os.path.exists(q):
                os.remove(q)
        aux = os.path.join(os.path.dirname(path), '.' + os.path.basename(path)[:-2] + '.aux')
        if os.path.exists(aux):
            os.remove(aux)
    return total, bad, errors
