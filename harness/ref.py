"""Reference oracles: the external numerical kernels, called the documented way.
Never imports bycycle."""
import math
import warnings
import numpy as np


def pad_len(fs, f_range, filter_kwargs):
    from neurodsp.filt.fir import compute_filter_length
    fk = filter_kwargs or {}
    n_seconds = fk.get('n_seconds', None)
    n_cycles = None if n_seconds is not None else fk.get('n_cycles', 3)
    filt_len = compute_filter_length(fs, 'bandpass', f_range[0], f_range[1], n_seconds=n_seconds, n_cycles=n_cycles)
    return int(math.ceil(filt_len / 2))


def ref_filter_pos(sig, fs, f_range, filter_kwargs=None, pad=True):
    """Sign bits of the band-passed (zero-padded) signal, as find_extrema is documented to compute them.
    Returns (pos list[bool], padn, n_exact_zero)."""
    from neurodsp.filt import filter_signal
    fk = dict(filter_kwargs or {})
    padn = pad_len(fs, f_range, fk) if pad else 0
    sigp = np.pad(np.asarray(sig, dtype=float), padn, mode='constant') if pad else np.asarray(sig, dtype=float)
    with warnings.catch_warnings():
        warnings.simplefilter('ignore')
        filt = filter_signal(sigp, fs, 'bandpass', f_range, remove_edges=False, **fk)
    if np.isnan(filt).any():
        raise ValueError('reference filter produced NaN')
    return [bool(b) for b in (filt > 0)], padn, int(np.sum(filt == 0))


def ref_amp(sig, fs, f_range, n_cycles=3):
    from neurodsp.timefrequency import amp_by_time
    with warnings.catch_warnings():
        warnings.simplefilter('ignore')
        return amp_by_time(np.asarray(sig, dtype=float), fs, f_range, remove_edges=False, n_cycles=n_cycles)


def ref_dualthresh(sig, fs, f_range, amp_threshes=(1, 2), min_n_cycles=3, min_burst_duration=None, filter_kwargs=None):
    from neurodsp.burst import detect_bursts_dual_threshold
    fk = dict(filter_kwargs or {})
    if min_burst_duration is not None:
        min_n_cycles = None
    with warnings.catch_warnings():
        warnings.simplefilter('ignore')
        m = detect_bursts_dual_threshold(np.asarray(sig, dtype=float), fs, amp_threshes, f_range,
                                         min_n_cycles=min_n_cycles, min_burst_duration=min_burst_duration, **fk)
    return [bool(b) for b in m]


def filter_accepts(n, fs, f_range, filter_kwargs=None):
    """Does neurodsp accept this band-pass design for a signal of n samples (its own checks of the pass / transition
    band and of the filter length)?  Used only to recognise designs that it accepts at (fs, f_range) and rejects at
    (c*fs, c*f_range): its frequency-response check works at a fixed resolution in Hz."""
    from neurodsp.filt import filter_signal
    fk = dict(filter_kwargs or {})
    if 'n_seconds' not in fk:
        fk.setdefault('n_cycles', 3)
    try:
        with warnings.catch_warnings():
            warnings.simplefilter('ignore')
            filter_signal(np.zeros(n), fs, 'bandpass', tuple(f_range), remove_edges=False, **fk)
        return True
    except ValueError:
        return False
