"""Dev-time helper for the seeded-change study (not registered in MANIFEST).

  python harness/seeded.py verify <name> [--src /tmp/out_<name>] [--prop Cxx] [--checks C01,C04]
      1. in a scratch worktree of /repo HEAD: demo passes; with patch applied: demo fails; the 34 baseline tests pass
      2. apply the patch to /repo, run ./check for the property (and --checks), collect VIOLATION lines, revert /repo
      3. store /verif/seeded/<name>/{patch.diff, demo.py, notes.md, meta.json}
"""
import argparse, json, os, shutil, subprocess, sys, time
import xml.etree.ElementTree as ET

REPO, VERIF = '/repo', '/verif'
ENV = dict(os.environ, MPLBACKEND='Agg', PYTHONHASHSEED='0', PYTHONWARNINGS='ignore')


def sh(cmd, cwd=None, env=None, timeout=3000):
    p = subprocess.run(cmd, shell=True, cwd=cwd, env=env or ENV, capture_output=True, text=True, timeout=timeout)
    return p.returncode, p.stdout + p.stderr


def baseline(wt):
    base = json.load(open('/root/.vp/BASELINE.json'))
    xml = '/tmp/seeded_junit_%s.xml' % os.path.basename(wt)
    sh('/venv/bin/python -m pytest -q -p no:cacheprovider --timeout=900 --continue-on-collection-errors --junitxml=%s' % xml,
       cwd=wt, env=dict(ENV, PYTHONPATH=wt))
    passed = set()
    for tc in ET.parse(xml).getroot().iter('testcase'):
        if not any(ch.tag in ('failure', 'error', 'skipped') for ch in tc):
            passed.add('%s::%s' % (tc.get('classname'), tc.get('name')))
    missing = [t for t in base['stable_pass'] if t not in passed]
    return missing, len(passed)


def recheck(names, tier='quick'):
    """Regression over the stored seeded changes: apply each patch to /repo, run the check of its property, expect a
    VIOLATION, revert. Patches that no longer apply to /repo HEAD (later fix commits touched the same lines) are
    re-tried with `patch --fuzz`, else reported as stale."""
    st, out = sh('git -C %s status --porcelain' % REPO)
    assert out.strip() == '', '/repo not clean: ' + out
    rows = []
    for name in names:
        d = os.path.join(VERIF, 'seeded', name)
        meta = json.load(open(os.path.join(d, 'meta.json')))
        prop = meta['property']
        patch = os.path.join(d, 'patch.diff')
        applied = None
        try:
            rc, out = sh('git -C %s apply %s' % (REPO, patch))
            if rc == 0:
                applied = 'git apply'
            else:
                rc, out = sh('patch -p1 --fuzz=3 --no-backup-if-mismatch -i %s' % patch, cwd=REPO)
                applied = 'patch --fuzz' if rc == 0 else None
            if not applied:
                rows.append((name, prop, 'STALE (patch does not apply to HEAD)', ''))
                continue
            t0 = time.time()
            rc, out = sh('./check %s --tier %s' % (prop, tier), cwd=VERIF)
            viol = [l for l in out.splitlines() if l.startswith('VIOLATION')]
            summ = out.strip().splitlines()[-1][:200] if out.strip() else ''
            rows.append((name, prop, 'caught' if (rc != 0 and viol) else 'MISSED', summ))
            meta['recheck'] = {'at': time.strftime('%Y-%m-%dT%H:%M:%SZ', time.gmtime()), 'applied_with': applied,
                               'caught': bool(rc != 0 and viol), 'summary': summ,
                               'no_failing_input': all('no-failing-input-found' in v for v in viol) if viol else None}
            json.dump(meta, open(os.path.join(d, 'meta.json'), 'w'), indent=1)
        finally:
            sh('git -C %s checkout -- .' % REPO)
            sh('git -C %s clean -fdq -e "*.pyc"' % REPO)
        print(*rows[-1], flush=True)
    st, out = sh('git -C %s status --porcelain' % REPO)
    assert out.strip() == '', '/repo not clean after recheck: ' + out
    print('caught %d / %d, missed %s, stale %s' % (sum(r[2] == 'caught' for r in rows), len(rows),
          [r[0] for r in rows if r[2] == 'MISSED'], [r[0] for r in rows if r[2].startswith('STALE')]))


def main():
    if len(sys.argv) > 1 and sys.argv[1] == 'recheck':
        names = sys.argv[2:] or sorted(os.listdir(os.path.join(VERIF, 'seeded')))
        return recheck([n for n in names if os.path.isdir(os.path.join(VERIF, 'seeded', n))])
    ap = argparse.ArgumentParser()
    ap.add_argument('cmd')
    ap.add_argument('name')
    ap.add_argument('--src')
    ap.add_argument('--prop')
    ap.add_argument('--checks', default='')
    ap.add_argument('--tier', default='quick')
    a = ap.parse_args()
    src = a.src or '/tmp/out_' + a.name
    prop = a.prop or a.name[:3]
    patch = os.path.join(src, 'patch.diff')
    demo = os.path.join(src, 'demo.py')
    meta = {'name': a.name, 'property': prop, 'verified_at': time.strftime('%Y-%m-%dT%H:%M:%SZ', time.gmtime())}
    wt = '/tmp/vwt_' + a.name
    sh('git -C %s worktree remove --force %s' % (REPO, wt))
    rc, out = sh('git -C %s worktree add -f --detach %s HEAD' % (REPO, wt))
    assert rc == 0, out
    try:
        rc0, out0 = sh('/venv/bin/python %s' % demo, cwd=wt, env=dict(ENV, PYTHONPATH=wt), timeout=600)
        meta['demo_on_original'] = {'rc': rc0, 'tail': out0[-400:]}
        rc, out = sh('git apply %s' % patch, cwd=wt)
        meta['patch_applies'] = rc == 0
        if rc != 0:
            print('patch does not apply:', out)
        rc1, out1 = sh('/venv/bin/python %s' % demo, cwd=wt, env=dict(ENV, PYTHONPATH=wt), timeout=600)
        meta['demo_on_changed'] = {'rc': rc1, 'tail': out1[-600:]}
        missing, npass = baseline(wt)
        meta['baseline_missing_with_change'] = missing
        meta['tests_passing_with_change'] = npass
    finally:
        sh('git -C %s worktree remove --force %s' % (REPO, wt))
    ok = meta['demo_on_original']['rc'] == 0 and meta['demo_on_changed']['rc'] != 0 and not meta['baseline_missing_with_change'] and meta['patch_applies']
    meta['confirmed'] = ok
    print('confirmed' if ok else 'NOT confirmed', json.dumps({k: meta[k] for k in ('demo_on_original', 'demo_on_changed', 'baseline_missing_with_change')})[:800])
    # run our checks against it (one verify at a time holds /repo: several verify processes may run their
    # worktree phase in parallel)
    import fcntl
    lk = open('/tmp/seeded_repo.lock', 'w')
    fcntl.flock(lk, fcntl.LOCK_EX)
    st, _ = sh('git -C %s status --porcelain' % REPO)
    assert _.strip() == '', '/repo not clean: ' + _
    results = {}
    try:
        rc, out = sh('git -C %s apply %s' % (REPO, patch))
        assert rc == 0, out
        for p in [prop] + [c for c in a.checks.split(',') if c and c != prop]:
            t0 = time.time()
            rc, out = sh('./check %s --tier %s' % (p, a.tier), cwd=VERIF)
            viol = [l for l in out.splitlines() if l.startswith('VIOLATION')]
            results[p] = {'rc': rc, 'violations': viol[:5], 'summary': out.strip().splitlines()[-1][:300] if out.strip() else '',
                          'wall_s': round(time.time() - t0, 1)}
            print(p, 'rc=%d' % rc, viol[:2], results[p]['summary'])
            # keep the first replay for the record
            for v in viol[:1]:
                rp = v.split('replay=')[1].split()[0]
                if os.path.exists(rp):
                    results[p]['replay_what'] = json.load(open(rp)).get('what')
    finally:
        sh('git -C %s checkout -- .' % REPO)
    meta['checks'] = results
    meta['caught_by'] = [p for p, r in results.items() if r['rc'] != 0]
    dst = os.path.join(VERIF, 'seeded', a.name)
    os.makedirs(dst, exist_ok=True)
    for f in ('patch.diff', 'demo.py', 'notes.md'):
        if os.path.exists(os.path.join(src, f)):
            shutil.copy(os.path.join(src, f), os.path.join(dst, f))
    if os.path.exists(os.path.join(dst, 'notes.md')):
        meta['needs_to_manifest'] = open(os.path.join(dst, 'notes.md')).read()[:1500]
    meta['ran'] = ['demo on original / changed worktree', 'baseline test-suite (34 stable tests) on changed worktree',
                   './check <prop> --tier %s on /repo with the patch applied, then git checkout -- .' % a.tier]
    json.dump(meta, open(os.path.join(dst, 'meta.json'), 'w'), indent=1)
    print('stored in', dst, 'caught_by', meta['caught_by'])


if __name__ == '__main__':
    main()
