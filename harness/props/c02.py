"""C02 — find_extrema vs Model/Extrema.v (reference sign bits from neurodsp; stubbed exhaustive stream)."""
import itertools
import random
import numpy as np
from harness import coqio, gen, ref
from harness.core import exc_kind, canon_hash

PROP = 'C02'
PROPS_FILE = 'Props/C02.v'
COQ_HEADER = ('From Coq Require Import List ZArith NArith Floats.PrimFloat. Import ListNotations.\n'
              'From ByC Require Import Base.Result Harness.Compare Model.Extrema.\nOpen Scope float_scope.')
COQ_RUNNER = 'bad_find_extrema'
COQ_TYPES = ('barr * list float * nat * Z * first_ext', 'result (list Z * list Z)')
SHARD = 40
RULE = ('(a) generated signals (11 kinds, 8 sampling rates) x first_extrema in {peak, trough, None, invalid} x boundary x '
        'filter_kwargs (n_cycles / n_seconds / default) x pad; sign bits of the reference band-pass computed by the harness '
        'with neurodsp; (b) with the filter stubbed to a prescribed array: every sign pattern up to length 8 (quick) / 10 '
        '(thorough) x raw signals over {0,1,2} with ties x boundary in {0,1,2,3}; (c) the same stub with pad=True (pad width '
        '1-3 from a one- or three-tap filter length, raw signals over {0,1,2} or {-1,0,1}, so that extrema tie with the padding '
        'zeros) x boundary in {0,1,2}; (d) stubbed random sign patterns of length 9-16 with short runs x boundary in {0..3}, '
        'padded and un-padded. In (a) and the short-filter stream ~15 % of the cases (kind +len) have fs, band and filter '
        'length re-chosen from a table derived by search so that fs * n_cycles / f_lo (n_cycles given or the default 3) or '
        'fs * n_seconds is exactly an odd / even integer number of samples or one ulp beside one, mostly where the '
        'mathematically equivalent binary64 computations of that length disagree after the ceil (60 % of them with broadband noise added, +rough); all other '
        'cases are unchanged. non-trivial = at least 2 peaks and 2 troughs reported')
EXHAUSTIVE = {'quick': False, 'thorough': False}
ASSUMPTIONS = ['signals are finite (no NaN/inf)', 'reference filter output has no NaN',
               'inputs with no rising or no decaying crossing (fewer than one oscillation) are outside the property and skipped',
               'statement oracle: when no peak/trough pair survives the first_extrema trimming the property only forbids '
               'RETURNING extrema (any exception, or two empty arrays, is accepted); an invalid first_extrema value is outside '
               'the quantifier and not judged; the exception CLASS is compared with the model only',
               'pad=True pads ceil(filter_length/2) zeros on each side (neurodsp compute_filter_length); a stub case whose '
               'filter is called with another length is skipped and counted (kind stub*/skip)']
FIRSTS = {'peak': 'FPeak', 'trough': 'FTrough', None: 'FNone', 'bogus': 'FInvalid'}


def cases(rng, tier):
    out = []
    nsig = 160 if tier == 'quick' else 1600
    for _ in range(nsig):
        s = gen.signal(rng, max_len=700)
        n = len(s['sig'])
        r = rng.random()
        fk = None
        if r < 0.4:
            fk = {'n_cycles': rng.choice([1, 2, 3, 4])}
        elif r < 0.7:
            # including filters much SHORTER than one period of the band (they do not ring into the padding)
            fk = {'n_seconds': round(rng.choice([0.3, 0.45, 0.6, 0.9, 2.5, 3, 4]) * s['period'] / s['fs'] / 0.7, 6)}
        out.append({'kind': 'signal/' + s['kind'], 'sig': gen.hexlist(s['sig']), 'fs': s['fs'], 'f_range': list(s['f_range']),
                    'boundary': rng.choice([0, 0, 1, 5, n // 10]),
                    'first': rng.choice(['peak', 'peak', 'trough', 'trough', None, None, 'bogus'] if rng.random() < 0.15
                                        else ['peak', 'trough', None]),
                    'filter_kwargs': fk, 'pad': rng.random() < 0.8, 'negate': rng.random() < 0.3})
        exact_length(out[-1], s['period'])
    # filters shorter than one band period, padded: the outermost half-waves are closed only by the padding zeros
    for _ in range(60 if tier == 'quick' else 600):
        s = gen.signal(rng, kind=rng.choice(['sine', 'asym', 'quant', 'dc', 'sum']), max_len=400)
        out.append({'kind': 'shortfilter/' + s['kind'], 'sig': gen.hexlist(s['sig']), 'fs': s['fs'], 'f_range': list(s['f_range']),
                    'boundary': rng.choice([0, 0, 1]), 'first': rng.choice(['peak', 'trough', None]),
                    'filter_kwargs': {'n_seconds': round(rng.choice([0.3, 0.4, 0.5, 0.6]) * s['period'] / s['fs'] / 0.7, 6)},
                    'pad': True, 'negate': rng.random() < 0.5})
        exact_length(out[-1], s['period'], short=True)
    L = 8 if tier == 'quick' else 10
    per = 6 if tier == 'quick' else 10
    for ln in range(2, L + 1):
        for bits in itertools.product([0, 1], repeat=ln):
            for _ in range(per if ln > 4 else 2):
                out.append(_stub_case(rng, bits, None, [0, 0, 0, 1, 2, 3]))
    # the same with pad=True: the stubbed filter output covers the zero-padded signal
    cfgs = _pad_cfgs()
    for ln in range(4, L + 1):
        for bits in itertools.product([0, 1], repeat=ln):
            for _ in range(2 if ln > 5 else 1):
                ok = [g for g in cfgs if ln - 2 * g[3] >= 2]
                if ok:
                    out.append(_stub_case(rng, bits, rng.choice(ok), [0, 0, 1, 2]))
    # longer random sign patterns with short runs: several extrema left after boundary 2 / 3
    for _ in range(300 if tier == 'quick' else 3000):
        ln = rng.randint(9, 16)
        bits, b = [], rng.random() < 0.5
        while len(bits) < ln:
            bits.extend([b] * rng.choice([1, 1, 2, 2, 3]))
            b = not b
        bits = bits[:ln]
        ok = [g for g in cfgs if ln - 2 * g[3] >= 4]
        out.append(_stub_case(rng, bits, rng.choice(ok) if ok and rng.random() < 0.5 else None, [0, 1, 2, 3]))
    return out


EXACT_SHARE = 0.15


def exact_length(c, period, short=False):
    """For EXACT_SHARE of the signal cases (drawn from a generator seeded with the case content: the main stream is not
    shifted, all other cases stay as they were) fs, the band and the filter length are replaced by a combination from
    gen.exact_cycle_table / gen.exact_seconds_pick: fs * n_cycles / f_lo (n_cycles given, or the default 3) or
    fs * n_seconds is exactly an odd / even integer or one ulp beside one, and (80 %) the mathematically equivalent ways
    of computing that length in binary64 disagree after the ceil.  Band (f_lo, 2 f_lo), rhythm inside.  short: the
    shortfilter stream (n_seconds of 0.3-0.6 periods of the low cut-off).  60 % of these cases get broadband noise of 0.3 / 0.6 / 1 standard deviations added (gen.roughen, +rough).  Kind
    tagged +len, choice recorded in `exact`."""
    r = random.Random(canon_hash(c) + '/exactlen')
    if r.random() >= EXACT_SHARE:
        return
    nsamp = len(c['sig'])
    how = 'seconds' if short else r.choice(['default', 'cycles', 'cycles', 'seconds', 'seconds'])
    e = gen.exact_cycles_pick(r, period, nsamp, n=None if how == 'cycles' else 3)
    if e is None:
        return
    x = {'how': how, 'n': e['n'], 'L': e['L'], 'rel': e['rel'], 'disc_taps': e['disc_taps']}
    fk = None
    if how == 'cycles':
        fk = {'n_cycles': e['n']}
    elif how == 'seconds':
        sec = gen.exact_seconds_pick(r, e['fs'], e['f_lo'], nsamp, *((0.25, 0.7) if short else (0.4, 4.0)))
        if sec is None:
            x['how'] = 'default'
        else:
            fk = {'n_seconds': sec['n_seconds']}
            x.update(L=sec['L'], rel=sec['rel'], disc_taps=sec['disc_taps'])
    c.update(fs=e['fs'], f_range=[e['f_lo'], round(2 * e['f_lo'], 6)], filter_kwargs=fk, kind=c['kind'] + '+len', exact=x)
    if r.random() < 0.6:
        # broadband noise on top (a kernel two taps longer moves no crossing of a clean rhythm)
        x['rough'] = r.choice([0.3, 0.6, 1.0])
        c.update(sig=gen.hexlist(gen.roughen(r.randrange(1 << 30), gen.unhexlist(c['sig']), x['rough'])), kind=c['kind'] + '+rough')


def _pad_cfgs():
    """(fs, f_range, filter_kwargs, pad width) with a pad width of 1..3 samples (filter lengths 1, 3, 5)."""
    out = []
    for fs, f_range, fk in [(100, [8, 12], {'n_seconds': 0.01}), (100, [40, 45], {'n_cycles': 1}),
                            (100, [8, 12], {'n_seconds': 0.03}), (50, [20, 24], {'n_cycles': 2}),
                            (64, [16, 30], {'n_seconds': 0.03125})]:
        try:
            k = ref.pad_len(fs, f_range, fk)
        except Exception:
            continue
        if 1 <= k <= 3:
            out.append((fs, f_range, fk, k))
    return out


def _stub_case(rng, bits, cfg, boundaries):
    """Filter stubbed to a prescribed array with the sign pattern `bits` (non-positive entries are -1 or exactly 0);
    cfg = None: pad=False; else pad=True with the pad width of cfg."""
    ln = len(bits)
    filt = [(1.0 if b else rng.choice([-1.0, -1.0, 0.0])) for b in bits]
    if cfg is None:
        raw = [float(rng.choice([0, 1, 2])) for _ in range(ln)]
        return {'kind': 'stub', 'sig': gen.hexlist(raw), 'filt': filt, 'fs': 100, 'f_range': [8, 12],
                'boundary': rng.choice(boundaries), 'first': rng.choice(['peak', 'trough', None]),
                'filter_kwargs': None, 'pad': False, 'negate': False}
    fs, f_range, fk, k = cfg
    alpha = rng.choice([[0, 1, 2], [-1, 0, 1]])
    raw = [float(rng.choice(alpha)) for _ in range(ln - 2 * k)]
    return {'kind': 'stubpad', 'sig': gen.hexlist(raw), 'filt': filt, 'fs': fs, 'f_range': list(f_range), 'padn': k,
            'boundary': rng.choice(boundaries), 'first': rng.choice(['peak', 'trough', None]),
            'filter_kwargs': dict(fk), 'pad': True, 'negate': False}


def run_impl(c):
    import bycycle.cyclepoints.extrema as ex
    sig = gen.unhexlist(c['sig'])
    if c.get('negate'):
        sig = -sig
    r = {}
    orig = getattr(ex, 'filter_signal', None)
    try:
        if c['kind'].startswith('stub'):
            if orig is None:
                return {'skip': 'no filter_signal name to stub'}
            filt = np.array(c['filt'], dtype=float)
            seen = []

            def stub(s, *a, **k):
                seen.append(len(s))
                return filt.copy()
            ex.filter_signal = stub
            pos, padn = [bool(x > 0) for x in filt], c.get('padn', 0)
        else:
            try:
                pos, padn, nz = ref.ref_filter_pos(sig, c['fs'], tuple(c['f_range']), c['filter_kwargs'], c['pad'])
            except Exception as e:
                return {'skip': 'reference filter failed: %s' % e}
        r['ref'] = {'pos': coqio.mask_of(pos), 'npos': len(pos), 'padn': padn}
        kw = {}
        if c['filter_kwargs'] is not None:
            kw['filter_kwargs'] = dict(c['filter_kwargs'])
        try:
            p, t = ex.find_extrema(sig.copy(), c['fs'], tuple(c['f_range']), boundary=c['boundary'],
                                   first_extrema=c['first'], pad=c['pad'], **kw)
            r['peaks'] = [int(x) for x in p]
            r['troughs'] = [int(x) for x in t]
        except Exception as e:
            r['err'] = exc_kind(e)
        if c['kind'].startswith('stub') and seen != [len(filt)]:
            # the implementation filtered something else than the (padded) signal the stub stands for
            return {'skip': 'stubbed filter called with lengths %s, prescribed output has %d' % (seen, len(filt))}
    finally:
        if orig is not None:
            ex.filter_signal = orig
    return r


def spec_extrema(pos, sigp, padn, n, boundary, first):
    """Independent statement of the property: one extremum per half-wave closed by crossings on both
    sides, first arg-extremum of the raw samples over the window between the crossings."""
    cross = [(i, pos[i + 1]) for i in range(len(pos) - 1) if pos[i] != pos[i + 1]]
    if not any(k for _, k in cross) or not any(not k for _, k in cross):
        return 'degenerate'
    peaks, troughs = [], []
    for (a, k), (b, _) in zip(cross, cross[1:]):
        seg = list(sigp[a:b])
        if k:
            peaks.append(a + seg.index(max(seg)))
        else:
            troughs.append(a + seg.index(min(seg)))
    peaks = [p - padn for p in peaks if boundary < p - padn < n - boundary]
    troughs = [t - padn for t in troughs if boundary < t - padn < n - boundary]
    if first == 'bogus':
        return 'Value'
    if first is None:
        return peaks, troughs
    a, b = (peaks, troughs) if first == 'peak' else (troughs, peaks)
    if not a or not b:
        return 'Index'
    if a[0] > b[0]:
        b = b[1:]
    if not b:
        return 'Index'
    if a[-1] > b[-1]:
        a = a[:-1]
    return (a, b) if first == 'peak' else (b, a)


def oracle(c, o):
    if 'skip' in o:
        return None
    sig = gen.unhexlist(c['sig'])
    if c.get('negate'):
        sig = -sig
    padn = o['ref']['padn']
    pos = [bool((o['ref']['pos'] >> i) & 1) for i in range(o['ref']['npos'])]
    sigp = np.pad(sig, padn) if padn else sig
    want = spec_extrema(pos, sigp, padn, len(sig), c['boundary'], c['first'])
    if want == 'degenerate':
        return None
    if want == 'Value':
        return None   # invalid first_extrema: outside the quantifier (the model comparison pins the ValueError)
    if want == 'Index':
        # no peak/trough pair survives the trimming: the property forbids REPORTING extrema here (a sequence that starts
        # with the requested kind and has equally many of each would need an extremum that is not there); how the
        # implementation declines (which exception, or two empty arrays) is not stated -> model comparison only
        if 'err' in o or (not o['peaks'] and not o['troughs']):
            return None
        return 'extrema reported although no peak/trough pair survives: got peaks %s troughs %s' % (o['peaks'], o['troughs'])
    if 'err' in o:
        return 'raised %s where extrema %s were expected' % (o['err'], want)
    if (o['peaks'], o['troughs']) != (list(want[0]), list(want[1])):
        return 'extrema differ: got peaks %s troughs %s, want %s %s' % (o['peaks'], o['troughs'], want[0], want[1])
    return None


def nontrivial(c, o):
    return 'peaks' in o and len(o['peaks']) >= 2 and len(o['troughs']) >= 2


def kind_of(c, o):
    return c['kind'] + ('/skip' if 'skip' in o else '/err' if 'err' in o else '')


ERRMAP = {'Value': 'EValue', 'Index': 'EIndex', 'Key': 'EKey', 'Type': 'EType'}


def coq_case(c, o):
    if 'skip' in o:
        return None
    sig = gen.unhexlist(c['sig'])
    if c.get('negate'):
        sig = -sig
    inp = '(%s, %s, %d%%nat, %s%%Z, %s)' % (coqio.barr(o['ref']['npos'], o['ref']['pos']), coqio.flist(sig),
                                           o['ref']['padn'], coqio.Z(c['boundary']), FIRSTS[c['first']])
    if 'err' in o:
        out = '(Err %s)' % ERRMAP.get(o['err'], 'EOther')
    else:
        out = '(Ok (%s, %s))' % (coqio.zlist(o['peaks']), coqio.zlist(o['troughs']))
    return inp, out


def shrink(c):
    if not c['kind'].startswith('stub'):
        return
    n = len(c['sig'])
    k = c.get('padn', 0)
    for i in range(n):
        yield dict(c, sig=c['sig'][:i] + c['sig'][i + 1:], filt=c['filt'][:i + k] + c['filt'][i + k + 1:])
