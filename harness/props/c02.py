"""C02 — find_extrema vs Model/Extrema.v (reference sign bits from neurodsp; stubbed exhaustive stream)."""
import itertools
import random
import numpy as np
from harness import coqio, gen, ref
from harness.core import exc_kind, canon_hash

PROP = 'C02'
PROPS_FILE = 'Props/C02.v'
COQ_HEADER = ('From Coq Require Import List ZArith NArith Floats.PrimFloat. Import ListNotations.\n'
              'From ByC Require Import Base.Result Harness.Compare Model.Extrema.\nOpen Scope float_scope.')
COQ_RUNNER = 'bad_find_extrema'
COQ_TYPES = ('barr * list float * nat * Z * first_ext', 'result (list Z * list Z)')
SHARD = 40
RULE = ('(a) generated signals (11 kinds, 8 sampling rates) x first_extrema in {peak, trough, None, invalid} x boundary x '
        'filter_kwargs (n_cycles / n_seconds / default) x pad; sign bits of the reference band-pass computed by the harness '
        'with neurodsp; (b) with the filter stubbed to a prescribed array: every sign pattern up to length 8 (quick) / 10 '
        '(thorough) x raw signals over {0,1,2} with ties x boundary in {0,1,2,3}; (c) the same stub with pad=True (pad width '
        '1-3 from a one- or three-tap filter length, raw signals over {0,1,2} or {-1,0,1}, so that extrema tie with the padding '
        'zeros) x boundary in {0,1,2}; (d) stubbed random sign patterns of length 9-16 with short runs x boundary in {0..3}, '
        'padded and un-padded; (e) the padded stub with (fs, band, filter length) of the +len class below (4-14 raw samples inside '
        'the padding of a 20-270-tap filter). In every stub stream the harness also resolves the arguments the implementation '
        'hands to filter_signal to a tap count (neurodsp compute_filter_length) and compares it with the documented one (from '
        'n_seconds if given, else n_cycles, default 3): a difference is reported through the model comparison. In (a) and the '
        'short-filter stream ~30 % of the cases (kind +len) have fs, band and filter '
        'length re-chosen from a table derived by search so that fs * n_cycles / f_lo (n_cycles given or the default 3) or '
        'fs * n_seconds is exactly an odd / even integer number of samples or one ulp beside one, mostly where the '
        'mathematically equivalent binary64 computations of that length disagree after the ceil, 40 % of them where the '
        'resolved tap count itself is not reproduced when re-expressed in seconds or cycles and turned back into samples; 80 % '
        'of the +len cases are 900-3500 samples of broadband noise with a weak waxing and waning rhythm (+fragile: many '
        'low-amplitude half-waves, so that a band-pass a few taps longer or shorter changes the reported extrema), of the '
        'others 60 % have broadband noise added (+rough); all other cases are unchanged. '
        'non-trivial = at least 2 peaks and 2 troughs reported')
EXHAUSTIVE = {'quick': False, 'thorough': False}
ASSUMPTIONS = ['signals are finite (no NaN/inf)', 'reference filter output has no NaN',
               'inputs with no rising or no decaying crossing (fewer than one oscillation) are outside the property and skipped',
               'statement oracle: when no peak/trough pair survives the first_extrema trimming the property only forbids '
               'RETURNING extrema (any exception, or two empty arrays, is accepted); an invalid first_extrema value is outside '
               'the quantifier and not judged; the exception CLASS is compared with the model only',
               'pad=True pads ceil(filter_length/2) zeros on each side (neurodsp compute_filter_length); a stub case whose '
               'filter is called with another length is skipped and counted (kind stub*/skip)',
               'stub streams: a filter_signal call whose arguments resolve to another tap count than the documented one is a '
               'harness-level difference (sent to the model comparison as a result no model result equals), not an oracle failure']
FIRSTS = {'peak': 'FPeak', 'trough': 'FTrough', None: 'FNone', 'bogus': 'FInvalid'}


def cases(rng, tier):
    out = []
    nsig = 160 if tier == 'quick' else 1600
    for _ in range(nsig):
        s = gen.signal(rng, max_len=700)
        n = len(s['sig'])
        r = rng.random()
        fk = None
        if r < 0.4:
            fk = {'n_cycles': rng.choice([1, 2, 3, 4])}
        elif r < 0.7:
            # including filters much SHORTER than one period of the band (they do not ring into the padding)
            fk = {'n_seconds': round(rng.choice([0.3, 0.45, 0.6, 0.9, 2.5, 3, 4]) * s['period'] / s['fs'] / 0.7, 6)}
        out.append({'kind': 'signal/' + s['kind'], 'sig': gen.hexlist(s['sig']), 'fs': s['fs'], 'f_range': list(s['f_range']),
                    'boundary': rng.choice([0, 0, 1, 5, n // 10]),
                    'first': rng.choice(['peak', 'peak', 'trough', 'trough', None, None, 'bogus'] if rng.random() < 0.15
                                        else ['peak', 'trough', None]),
                    'filter_kwargs': fk, 'pad': rng.random() < 0.8, 'negate': rng.random() < 0.3})
        exact_length(out[-1], s['period'])
    # filters shorter than one band period, padded: the outermost half-waves are closed only by the padding zeros
    for _ in range(60 if tier == 'quick' else 600):
        s = gen.signal(rng, kind=rng.choice(['sine', 'asym', 'quant', 'dc', 'sum']), max_len=400)
        out.append({'kind': 'shortfilter/' + s['kind'], 'sig': gen.hexlist(s['sig']), 'fs': s['fs'], 'f_range': list(s['f_range']),
                    'boundary': rng.choice([0, 0, 1]), 'first': rng.choice(['peak', 'trough', None]),
                    'filter_kwargs': {'n_seconds': round(rng.choice([0.3, 0.4, 0.5, 0.6]) * s['period'] / s['fs'] / 0.7, 6)},
                    'pad': True, 'negate': rng.random() < 0.5})
        exact_length(out[-1], s['period'], short=True)
    L = 8 if tier == 'quick' else 10
    per = 6 if tier == 'quick' else 10
    for ln in range(2, L + 1):
        for bits in itertools.product([0, 1], repeat=ln):
            for _ in range(per if ln > 4 else 2):
                out.append(_stub_case(rng, bits, None, [0, 0, 0, 1, 2, 3]))
    # the same with pad=True: the stubbed filter output covers the zero-padded signal
    cfgs = _pad_cfgs()
    for ln in range(4, L + 1):
        for bits in itertools.product([0, 1], repeat=ln):
            for _ in range(2 if ln > 5 else 1):
                ok = [g for g in cfgs if ln - 2 * g[3] >= 2]
                if ok:
                    out.append(_stub_case(rng, bits, rng.choice(ok), [0, 0, 1, 2]))
    # longer random sign patterns with short runs: several extrema left after boundary 2 / 3
    for _ in range(300 if tier == 'quick' else 3000):
        ln = rng.randint(9, 16)
        bits, b = [], rng.random() < 0.5
        while len(bits) < ln:
            bits.extend([b] * rng.choice([1, 1, 2, 2, 3]))
            b = not b
        bits = bits[:ln]
        ok = [g for g in cfgs if ln - 2 * g[3] >= 4]
        out.append(_stub_case(rng, bits, rng.choice(ok) if ok and rng.random() < 0.5 else None, [0, 1, 2, 3]))
    # padded stub with (fs, f_range, filter length) combinations of the +len class: 4-14 raw samples inside a padding of
    # half a 20-270-tap filter; what matters here is WHICH filter the implementation asks for (run_impl compares the tap
    # count its filter_signal arguments resolve to with the documented one) and the un-padding by that many samples
    for _ in range(150 if tier == 'quick' else 1500):
        cfg = _len_cfg(rng)
        if cfg is None:
            continue
        ln = 2 * cfg[3] + rng.randint(4, 14)
        bits, b = [], rng.random() < 0.5
        while len(bits) < ln:
            bits.extend([b] * rng.choice([1, 1, 2, 2, 3, 5, 9]))
            b = not b
        out.append(dict(_stub_case(rng, bits[:ln], cfg, [0, 0, 1, 2]), kind='stubpad+len'))
    return out


EXACT_SHARE = 0.3
ROUNDTRIP_SHARE = 0.4      # of the +len cases: the resolved tap count itself does not survive taps -> seconds -> samples
FRAGILE_SHARE = 0.8         # of the +len cases: signal replaced by a long broadband one with a weak rhythm
FRAGILE_LEN = (900, 1500)
FRAGILE_PER_TAP, FRAGILE_MAX = 25, 3500


def exact_length(c, period, short=False):
    """For EXACT_SHARE of the signal cases (drawn from a generator seeded with the case content: the main stream is not
    shifted, all other cases stay as they were) fs, the band and the filter length are replaced by a combination from
    gen.exact_cycle_table / gen.exact_seconds_pick: fs * n_cycles / f_lo (n_cycles given, or the default 3) or
    fs * n_seconds is exactly an odd / even integer or one ulp beside one, and (80 %) the mathematically equivalent ways
    of computing that length in binary64 disagree after the ceil; ROUNDTRIP_SHARE of them from the sub-table on which the
    resolved tap count T itself is not reproduced when expressed in seconds or cycles and turned back into samples
    (gen.taps_length_ways, e.g. fs * (T / fs) one ulp above T).  Band (f_lo, 2 f_lo), rhythm inside.  short: the
    shortfilter stream (n_seconds of 0.3-0.6 periods of the low cut-off).  An extrema-only statement sees another
    band-pass only where it moves a zero crossing across a raw extremum or adds / removes a half-wave, which two taps more
    on a 40-250-tap kernel rarely do on a clean rhythm of a few hundred samples: FRAGILE_SHARE of these cases get their
    samples replaced by gen.fragile (900-1500 samples of broadband noise with a weak, waxing and waning rhythm of the
    same period, amplitude 0 / 0.15 / 0.4 of the noise; a quarter coarsely rounded so that raw extrema tie), kind
    +fragile; of the others 60 % get broadband noise of 0.3 / 0.6 / 1 standard deviations added (gen.roughen, +rough).
    Kind tagged +len, choice recorded in `exact`."""
    r = random.Random(canon_hash(c) + '/exactlen')
    if r.random() >= EXACT_SHARE:
        return
    nsamp = len(c['sig'])
    frag = None
    if r.random() < FRAGILE_SHARE:
        frag = {'n': r.randint(*FRAGILE_LEN), 'amp': r.choice([0.0, 0.15, 0.4]), 'quant': r.choice([None, None, None, 2]),
                'seed': r.randrange(1 << 30)}
        nsamp = frag['n']     # (made longer below when the kernel is long)
    how = 'seconds' if short else r.choice(['default', 'cycles', 'cycles', 'seconds', 'seconds'])
    rt = r.random() < ROUNDTRIP_SHARE
    ncyc = None if how == 'cycles' else 3
    span = (0.25, 0.7) if short else (0.4, 4.0)
    e = sec = None
    if rt and how == 'seconds':
        for _ in range(8):
            e = gen.exact_cycles_pick(r, period, nsamp, n=3)
            sec = gen.seconds_roundtrip_pick(r, e['fs'], e['f_lo'], nsamp, *span) if e else None
            if sec:
                break
    elif rt:
        e = gen.exact_cycles_roundtrip_pick(r, period, nsamp, n=ncyc)
        if e is None:
            e = gen.exact_cycles_roundtrip_pick(r, period, nsamp)
            how = 'cycles' if e else how
    e = e or gen.exact_cycles_pick(r, period, nsamp, n=ncyc)
    if e is None:
        return
    x = {'how': how, 'n': e['n'], 'L': e['L'], 'rel': e['rel'], 'disc_taps': e['disc_taps'], 'roundtrip': e.get('roundtrip', 0)}
    fk = None
    if how == 'cycles':
        fk = {'n_cycles': e['n']}
    elif how == 'seconds':
        sec = sec or gen.exact_seconds_pick(r, e['fs'], e['f_lo'], nsamp, *span)
        if sec is None:
            x['how'] = 'default'
        else:
            fk = {'n_seconds': sec['n_seconds']}
            x.update(L=sec['L'], rel=sec['rel'], disc_taps=sec['disc_taps'], roundtrip=sec.get('roundtrip', 0))
    c.update(fs=e['fs'], f_range=[e['f_lo'], round(2 * e['f_lo'], 6)], filter_kwargs=fk, kind=c['kind'] + '+len', exact=x)
    if frag is not None:
        # the longer the kernel, the less two taps change it: FRAGILE_PER_TAP samples per tap, at most FRAGILE_MAX
        frag['n'] = max(frag['n'], min(FRAGILE_PER_TAP * x['L'], FRAGILE_MAX))
        x['fragile'] = frag
        c.update(sig=gen.hexlist(gen.fragile(frag['seed'], frag['n'], period, frag['amp'], frag['quant'])),
                 kind=c['kind'] + '+fragile')
        if c['boundary'] > 5:
            c['boundary'] = frag['n'] // 10
    elif r.random() < 0.6:
        # broadband noise on top (a kernel two taps longer moves no crossing of a clean rhythm)
        x['rough'] = r.choice([0.3, 0.6, 1.0])
        c.update(sig=gen.hexlist(gen.roughen(r.randrange(1 << 30), gen.unhexlist(c['sig']), x['rough'])), kind=c['kind'] + '+rough')


def _pad_cfgs():
    """(fs, f_range, filter_kwargs, pad width) with a pad width of 1..3 samples (filter lengths 1, 3, 5)."""
    out = []
    for fs, f_range, fk in [(100, [8, 12], {'n_seconds': 0.01}), (100, [40, 45], {'n_cycles': 1}),
                            (100, [8, 12], {'n_seconds': 0.03}), (50, [20, 24], {'n_cycles': 2}),
                            (64, [16, 30], {'n_seconds': 0.03125})]:
        try:
            k = ref.pad_len(fs, f_range, fk)
        except Exception:
            continue
        if 1 <= k <= 3:
            out.append((fs, f_range, fk, k))
    return out


def _len_cfg(rng):
    """(fs, f_range, filter_kwargs, pad width) of the +len class (see exact_length): filter length given as the default
    3 cycles, n_cycles or n_seconds, on an integer number of samples or one ulp beside it; half of them from the
    sub-tables on which the resolved tap count does not survive being re-expressed in seconds / cycles."""
    period = rng.choice([8, 10, 12, 16])
    how = rng.choice(['default', 'cycles', 'seconds'])
    rt = rng.random() < 0.5
    n = None if how == 'cycles' else 3
    e = (gen.exact_cycles_roundtrip_pick(rng, period, 400, n=n) if rt and how != 'seconds' else None) \
        or gen.exact_cycles_pick(rng, period, 400, n=n)
    if e is None:
        return None
    fk = None
    if how == 'cycles':
        fk = {'n_cycles': e['n']}
    elif how == 'seconds':
        sec = (gen.seconds_roundtrip_pick(rng, e['fs'], e['f_lo'], 400) if rt else None) \
            or gen.exact_seconds_pick(rng, e['fs'], e['f_lo'], 400)
        if sec:
            fk = {'n_seconds': sec['n_seconds']}
    f_range = [e['f_lo'], round(2 * e['f_lo'], 6)]
    try:
        return e['fs'], f_range, fk, ref.pad_len(e['fs'], f_range, fk)
    except Exception:
        return None


def documented_taps(c):
    """Tap count of the band-pass the documentation promises for the case: from n_seconds if given, else from n_cycles
    (default 3) cycles of the low cut-off (neurodsp compute_filter_length: ceil, made odd)."""
    from neurodsp.filt.fir import compute_filter_length
    fk = c['filter_kwargs'] or {}
    ns = fk.get('n_seconds', None)
    nc = None if ns is not None else fk.get('n_cycles', 3)
    return int(compute_filter_length(c['fs'], 'bandpass', c['f_range'][0], c['f_range'][1], n_seconds=ns, n_cycles=nc))


def asked_taps(args, kwargs):
    """Tap count that the arguments of one filter_signal(sig, fs, pass_type, f_range, **kwargs) call resolve to in
    neurodsp (n_cycles defaults to 3 only when neither length is given; both given is an error there)."""
    from neurodsp.filt.fir import compute_filter_length
    names = ['fs', 'pass_type', 'f_range']
    a = dict(zip(names, args))
    a.update({k: v for k, v in kwargs.items() if k in names})
    ns, nc = kwargs.get('n_seconds', None), kwargs.get('n_cycles', None)
    if ns is None and nc is None:
        nc = 3
    f_range = a['f_range']
    return int(compute_filter_length(a['fs'], a['pass_type'], f_range[0], f_range[1], n_cycles=nc, n_seconds=ns))


def _stub_case(rng, bits, cfg, boundaries):
    """Filter stubbed to a prescribed array with the sign pattern `bits` (non-positive entries are -1 or exactly 0);
    cfg = None: pad=False; else pad=True with the pad width of cfg."""
    ln = len(bits)
    filt = [(1.0 if b else rng.choice([-1.0, -1.0, 0.0])) for b in bits]
    if cfg is None:
        raw = [float(rng.choice([0, 1, 2])) for _ in range(ln)]
        return {'kind': 'stub', 'sig': gen.hexlist(raw), 'filt': filt, 'fs': 100, 'f_range': [8, 12],
                'boundary': rng.choice(boundaries), 'first': rng.choice(['peak', 'trough', None]),
                'filter_kwargs': None, 'pad': False, 'negate': False}
    fs, f_range, fk, k = cfg
    alpha = rng.choice([[0, 1, 2], [-1, 0, 1]])
    raw = [float(rng.choice(alpha)) for _ in range(ln - 2 * k)]
    return {'kind': 'stubpad', 'sig': gen.hexlist(raw), 'filt': filt, 'fs': fs, 'f_range': list(f_range), 'padn': k,
            'boundary': rng.choice(boundaries), 'first': rng.choice(['peak', 'trough', None]),
            'filter_kwargs': dict(fk) if fk is not None else None, 'pad': True, 'negate': False}


def run_impl(c):
    import bycycle.cyclepoints.extrema as ex
    sig = gen.unhexlist(c['sig'])
    if c.get('negate'):
        sig = -sig
    r = {}
    orig = getattr(ex, 'filter_signal', None)
    try:
        if c['kind'].startswith('stub'):
            if orig is None:
                return {'skip': 'no filter_signal name to stub'}
            filt = np.array(c['filt'], dtype=float)
            seen, asked = [], []

            def stub(s, *a, **k):
                seen.append(len(s))
                try:
                    asked.append(asked_taps(a, k))
                except Exception as e:
                    asked.append('unresolvable (%s: %s)' % (type(e).__name__, e))
                return filt.copy()
            ex.filter_signal = stub
            pos, padn = [bool(x > 0) for x in filt], c.get('padn', 0)
        else:
            try:
                pos, padn, nz = ref.ref_filter_pos(sig, c['fs'], tuple(c['f_range']), c['filter_kwargs'], c['pad'])
            except Exception as e:
                return {'skip': 'reference filter failed: %s' % e}
        r['ref'] = {'pos': coqio.mask_of(pos), 'npos': len(pos), 'padn': padn}
        kw = {}
        if c['filter_kwargs'] is not None:
            kw['filter_kwargs'] = dict(c['filter_kwargs'])
        try:
            p, t = ex.find_extrema(sig.copy(), c['fs'], tuple(c['f_range']), boundary=c['boundary'],
                                   first_extrema=c['first'], pad=c['pad'], **kw)
            r['peaks'] = [int(x) for x in p]
            r['troughs'] = [int(x) for x in t]
        except Exception as e:
            r['err'] = exc_kind(e)
        if c['kind'].startswith('stub') and seen != [len(filt)]:
            # the implementation filtered something else than the (padded) signal the stub stands for
            return {'skip': 'stubbed filter called with lengths %s, prescribed output has %d' % (seen, len(filt))}
        if c['kind'].startswith('stub'):
            # harness-level comparison (no property statement mentions the kernel's tap count by itself): the filter the
            # implementation asks for must be the documented one
            try:
                want = documented_taps(c)
            except Exception:
                want = None
            r['taps'] = {'asked': asked, 'documented': want}
            if want is not None and asked != [want]:
                r['harness_diff'] = 'filter_signal is asked for a %s-tap band-pass, the documented length is %d taps' % (asked, want)
    finally:
        if orig is not None:
            ex.filter_signal = orig
    return r


def spec_extrema(pos, sigp, padn, n, boundary, first):
    """Independent statement of the property: one extremum per half-wave closed by crossings on both
    sides, first arg-extremum of the raw samples over the window between the crossings."""
    cross = [(i, pos[i + 1]) for i in range(len(pos) - 1) if pos[i] != pos[i + 1]]
    if not any(k for _, k in cross) or not any(not k for _, k in cross):
        return 'degenerate'
    peaks, troughs = [], []
    for (a, k), (b, _) in zip(cross, cross[1:]):
        seg = list(sigp[a:b])
        if k:
            peaks.append(a + seg.index(max(seg)))
        else:
            troughs.append(a + seg.index(min(seg)))
    peaks = [p - padn for p in peaks if boundary < p - padn < n - boundary]
    troughs = [t - padn for t in troughs if boundary < t - padn < n - boundary]
    if first == 'bogus':
        return 'Value'
    if first is None:
        return peaks, troughs
    a, b = (peaks, troughs) if first == 'peak' else (troughs, peaks)
    if not a or not b:
        return 'Index'
    if a[0] > b[0]:
        b = b[1:]
    if not b:
        return 'Index'
    if a[-1] > b[-1]:
        a = a[:-1]
    return (a, b) if first == 'peak' else (b, a)


def oracle(c, o):
    if 'skip' in o:
        return None
    sig = gen.unhexlist(c['sig'])
    if c.get('negate'):
        sig = -sig
    padn = o['ref']['padn']
    pos = [bool((o['ref']['pos'] >> i) & 1) for i in range(o['ref']['npos'])]
    sigp = np.pad(sig, padn) if padn else sig
    want = spec_extrema(pos, sigp, padn, len(sig), c['boundary'], c['first'])
    if want == 'degenerate':
        return None
    if want == 'Value':
        return None   # invalid first_extrema: outside the quantifier (the model comparison pins the ValueError)
    if want == 'Index':
        # no peak/trough pair survives the trimming: the property forbids REPORTING extrema here (a sequence that starts
        # with the requested kind and has equally many of each would need an extremum that is not there); how the
        # implementation declines (which exception, or two empty arrays) is not stated -> model comparison only
        if 'err' in o or (not o['peaks'] and not o['troughs']):
            return None
        return 'extrema reported although no peak/trough pair survives: got peaks %s troughs %s' % (o['peaks'], o['troughs'])
    if 'err' in o:
        return 'raised %s where extrema %s were expected' % (o['err'], want)
    if (o['peaks'], o['troughs']) != (list(want[0]), list(want[1])):
        return 'extrema differ: got peaks %s troughs %s, want %s %s' % (o['peaks'], o['troughs'], want[0], want[1])
    return None


def nontrivial(c, o):
    return 'peaks' in o and len(o['peaks']) >= 2 and len(o['troughs']) >= 2


def kind_of(c, o):
    return c['kind'] + ('/skip' if 'skip' in o else '/err' if 'err' in o else '')


ERRMAP = {'Value': 'EValue', 'Index': 'EIndex', 'Key': 'EKey', 'Type': 'EType'}


def coq_case(c, o):
    if 'skip' in o:
        return None
    sig = gen.unhexlist(c['sig'])
    if c.get('negate'):
        sig = -sig
    inp = '(%s, %s, %d%%nat, %s%%Z, %s)' % (coqio.barr(o['ref']['npos'], o['ref']['pos']), coqio.flist(sig),
                                           o['ref']['padn'], coqio.Z(c['boundary']), FIRSTS[c['first']])
    if o.get('harness_diff'):
        # sent as an implementation result that no model result equals (the model never returns EOther, proved
        # unreachable): surfaces as a model / implementation mismatch, reported without a failing input for the property
        out = '(Err EOther)'
    elif 'err' in o:
        out = '(Err %s)' % ERRMAP.get(o['err'], 'EOther')
    else:
        out = '(Ok (%s, %s))' % (coqio.zlist(o['peaks']), coqio.zlist(o['troughs']))
    return inp, out


def shrink(c):
    if not c['kind'].startswith('stub'):
        return
    n = len(c['sig'])
    k = c.get('padn', 0)
    for i in range(n):
        yield dict(c, sig=c['sig'][:i] + c['sig'][i + 1:], filt=c['filt'][:i + k] + c['filt'][i + k + 1:])
