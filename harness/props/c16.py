"""C16 — recompute_edges touches only burst edges and only grows bursts.  Model/Edges.v."""
import json
import math
import numpy as np
from harness import coqio, gen, pipeline, tablelayout
from harness.core import exc_kind

PROP = 'C16'
PROPS_FILE = 'Props/C16.v'
COQ_HEADER = ('From Coq Require Import List ZArith NArith Floats.PrimFloat. Import ListNotations.\n'
              'From ByC Require Import Base.Result Harness.Compare Model.Edges.\nOpen Scope float_scope.')
COQ_RUNNER = 'bad_recompute_edges'
COQ_TYPES = ('bool * (float * float * float * float) * Z * list ed_in', 'result (list ed_out)')
SHARD = 40
RULE = ('recompute_edges (function and Bycycle.recompute_edges) on cycle tables produced by consistency burst detection on '
        'bursty / mixed generated signals of both centrings; stream A: the original thresholds with every *_threshold lowered by '
        'r in {0, .05, .1, .2, .3}; stream C (40 quick / 400 thorough, kind edges-noburst): the first detection with thresholds '
        'under which nothing is labelled (a threshold of 1, all of them 1, min_n_cycles longer than the table), then lowered by r or '
        'replaced by a lower / partial / identical dictionary; about 40 % of all tables are handed over with their columns sorted / '
        'reversed / shuffled, some with an unrelated extra column (function: the argument; object: its df_features); stream B (about 45 %): an INDEPENDENT threshold dictionary (single thresholds raised or lowered, '
        'the documented use "only amp_consistency_threshold = 0", fresh values, another min_n_cycles in 0..5, partial dictionaries '
        'whose missing keys take the documented defaults of detect_bursts_cycles, a few values outside [0,1]); amp_consistency, '
        'period_consistency and is_burst of the result compared with the model; oracle: frame condition on every other cell (column '
        'set and row labels, not column order), input untouched and result a new object (function: the argument; object: the table '
        'it held before the call), one-sided edge values with the direction towards the burst, '
        'labels = threshold-and-run rule on the edited table with the thresholds passed; growth only where the property promises it '
        '(every new threshold <= the old one and min_n_cycles not larger). Thresholds outside [0,1] / negative min_n_cycles are '
        'outside the property\'s domain: no oracle verdict, only the model comparison (ValueError). '
        'Stream G (14 groups quick / 110 thorough, kind edges-group/<mode>/<shape>, ONE CASE PER MEMBER TABLE): BycycleGroup fitted (n_jobs=1) on '
        'pairwise different signals (shifted, scaled, own noise) - 2-D arrays of 1..5 rows (axis 0), flattened epochs (axis None), '
        '3-D arrays of leading shape 1x2, 2x1, 2x3, 3x2, 1x3, 3x1, 2x4, 4x2, 2x2, 1x1 with axis (0,1) / 0 / 1 - then '
        'BycycleGroup.recompute_edges(r); the table bg.df_features holds at the member position and, where it is another table, '
        'bg.models[...].df_features are judged by the same oracle (input = the table the group held at that position before the call, '
        'thresholds = the group\'s lowered by r) and the member is compared with the model through the same runner; members whose '
        'table starts or ends inside a burst (epochs of a flattened fit) are outside the domain: skipped, counted (kind .../skip). '
        'non-trivial = the input table contains a burst and a non-burst cycle; stream C: no burst in the input and a label in the result')
ASSUMPTIONS = ['the input table comes from consistency burst detection (first and last cycle not bursting); group members that are '
               'epochs cut out of a flattened fit and start / end inside a burst are not judged',
               'a threshold dictionary that omits keys means the documented defaults of detect_bursts_cycles (0, .5, .5, .8, 3)']
CYC = pipeline.CYC_KEYS
COLS = ['amp_fraction', 'amp_consistency', 'period_consistency', 'monotonicity']


def cases(rng, tier):
    out = []
    n = 110 if tier == 'quick' else 1100
    for _ in range(n):
        s = gen.signal(rng, kind=rng.choice(['bursty', 'sparse', 'sum', 'sine', 'noise', 'chirp', 'asym', 'zeroed']), max_len=600)
        thr = {'amp_fraction_threshold': rng.choice([0.0, 0.1, 0.3]), 'amp_consistency_threshold': rng.choice([0.3, 0.5, 0.7]),
               'period_consistency_threshold': rng.choice([0.3, 0.5, 0.7]), 'monotonicity_threshold': rng.choice([0.5, 0.7, 0.8]),
               'min_n_cycles': rng.choice([1, 2, 3])}
        c = {'kind': 'edges/' + s['kind'], 'sig': gen.hexlist(s['sig']), 'fs': s['fs'], 'f_range': list(s['f_range']),
             'center': rng.choice(['peak', 'trough']), 'thr': thr, 'reduction': rng.choice([0, 0, 0.05, 0.1, 0.2, 0.3]),
             'via': rng.choice(['func', 'func', 'object'])}
        if rng.random() < 0.85:    # mostly reductions that keep every threshold inside [0, 1] (the property's domain)
            c['reduction'] = rng.choice([r for r in [0, 0.05, 0.1, 0.2, 0.3] if r <= min(thr[k] for k in CYC)])
        if rng.random() < 0.45:
            c['thr2'] = _independent(rng, thr)
            c['reduction'] = 0
        out.append(c)
    # tables WITHOUT any burst (nothing qualified at the first detection), recomputed with lowered thresholds: there is no
    # edge to edit, the labels are the rule on the unedited table - and the result is still a NEW table, the input untouched
    for _ in range(40 if tier == 'quick' else 400):
        out.append(_noburst_case(rng))
    # column layout of the table handed to recompute_edges (the user sorted / re-assembled it, added a column of their own)
    for c in out:
        c['cols'] = tablelayout.gen_layout(rng)
    # BycycleGroup.recompute_edges: one case PER MEMBER TABLE of a group fitted on pairwise different signals
    for _ in range(14 if tier == 'quick' else 110):
        out.extend(_group_cases(rng))
    return out


# ---------------------------------------------------------------------------------------------------------------
# group stream: the edge recomputation reached through BycycleGroup.recompute_edges

AXES = {'rows': 0, 'flat': None, 'g3': (0, 1), 'g3ax0': 0, 'g3ax1': 1}
SHAPES3 = [(1, 2), (2, 1), (2, 3), (3, 2), (1, 3), (3, 1), (2, 4), (4, 2), (2, 2), (1, 1)]      # mostly n0 != n1


def _group_cases(rng):
    """A group fit (2-D: every row / flattened epochs; 3-D: axis (0,1), 0, 1; leading shapes mostly not square) followed
    by recompute_edges(r): one case per member position (row-major), all with the same group description, so that EVERY
    member is judged by the single-table oracle and compared with the model through the single-table runner."""
    s = gen.signal(rng, kind=rng.choice(['bursty', 'bursty', 'sparse', 'sum', 'asym', 'chirp', 'sine']), max_len=420)
    thr = {'amp_fraction_threshold': rng.choice([0.0, 0.1, 0.3]), 'amp_consistency_threshold': rng.choice([0.3, 0.5, 0.7]),
           'period_consistency_threshold': rng.choice([0.3, 0.5, 0.7]), 'monotonicity_threshold': rng.choice([0.5, 0.7, 0.8]),
           'min_n_cycles': rng.choice([1, 2, 3])}
    mode = rng.choice(['rows', 'rows', 'flat', 'g3', 'g3', 'g3', 'g3ax0', 'g3ax1'])
    if mode == 'rows':
        n0, n1 = rng.choice([1, 2, 3, 4, 5]), None
    elif mode == 'flat':
        n0, n1 = rng.choice([2, 3]), None
    else:
        n0, n1 = rng.choice(SHAPES3)
    red = rng.choice([r for r in [0, 0.05, 0.1, 0.2, 0.3] if r <= min(thr[k] for k in CYC)])
    if rng.random() < 0.1:
        red = rng.choice([0.2, 0.3, 0.4])             # may leave [0, 1]: model comparison only
    shape = '2d' if n1 is None else ('n0<n1' if n0 < n1 else 'n0>n1' if n0 > n1 else 'square')
    base = {'kind': 'edges-group/%s/%s' % (mode, shape), 'sig': gen.hexlist(s['sig']), 'fs': s['fs'], 'f_range': list(s['f_range']),
            'center': rng.choice(['peak', 'trough']), 'thr': thr, 'reduction': red, 'via': 'group',
            'group': {'mode': mode, 'n0': n0, 'n1': n1, 'gseed': rng.randrange(10 ** 6)},
            'cols': tablelayout.gen_layout(rng)}
    return [dict(base, member=p) for p in range(n0 * (n1 or 1))]


def _group_array(base, g):
    """n0 (x n1) pairwise different signals of one length derived from the base signal (shifted, scaled, own noise)."""
    nr = np.random.default_rng(g['gseed'])
    m = g['n0'] * (g['n1'] or 1)
    rows = [np.roll(base, 11 * p) * (1 + 0.1 * p) + 0.01 * nr.standard_normal(len(base)) for p in range(m)]
    a = np.array(rows)
    return a if g['n1'] is None else a.reshape(g['n0'], g['n1'], -1)


_GCACHE = {}          # per worker process: the last group run (its member cases are neighbours in the case list)


def _run_group(c):
    key = json.dumps({k: v for k, v in c.items() if k != 'member'}, sort_keys=True)
    if key not in _GCACHE:
        _GCACHE.clear()
        _GCACHE[key] = _run_group_all(c)
    outs = _GCACHE[key]
    if isinstance(outs, dict):
        return outs
    return outs[c['member']] if c['member'] < len(outs) else {'group_problem': 'no table at member position %d' % c['member']}


def _get(x, p, width):
    return x[p] if width is None else x[p // width][p % width]


def _run_group_all(c):
    from bycycle import BycycleGroup
    from bycycle.burst import recompute_edges
    g = c['group']
    arr = _group_array(gen.unhexlist(c['sig']), g)
    three_d = g['n1'] is not None
    bg = BycycleGroup(center_extrema=c['center'], thresholds=dict(c['thr']))
    try:
        bg.fit(arr, c['fs'], tuple(c['f_range']), axis=AXES[g['mode']], n_jobs=1)
    except Exception as e:
        return {'skip': 'group fit raised %s' % exc_kind(e)}
    try:
        width = len(bg.df_features[0]) if three_d else None
        m = sum(len(x) for x in bg.df_features) if three_d else len(bg.df_features)
        lay = c.get('cols')
        held = []
        for p in range(m):
            df = _get(bg.df_features, p, width)
            if lay:
                df = tablelayout.apply_layout(df, lay)
                if three_d:
                    bg.df_features[p // width][p % width] = df
                else:
                    bg.df_features[p] = df
                _get(bg.models, p, width).df_features = df
            held.append(df)
    except Exception as e:
        return {'skip': 'group containers not position-wise (%s)' % exc_kind(e)}      # C11 / C12 judge the containers
    snaps = [df.copy() for df in held]
    red = {k: (v - c['reduction'] if k.endswith('threshold') else v) for k, v in c['thr'].items()}
    outside = [len(df) > 0 and bool(df['is_burst'].iloc[0] or df['is_burst'].iloc[-1]) for df in snaps]
    try:
        bg.recompute_edges(c['reduction'] if c['reduction'] else None)
    except Exception as e:
        # a member table on which the functional recomputation raises the same does not allow a recomputation (an epoch
        # of a flattened fit that starts / ends inside a burst): nothing is judged, counted as skipped
        for df, outd in zip(snaps, outside):
            if not outd:
                continue
            try:
                recompute_edges(df.copy(), dict(red))
            except Exception as e2:
                if exc_kind(e2) == exc_kind(e):
                    return {'skip': 'group recompute_edges and the functional recomputation of a member both raise %s' % exc_kind(e)}
        outs = []
        for df, outd in zip(snaps, outside):
            if outd:
                outs.append({'skip': 'member table starts / ends inside a burst (epoch of a flattened fit): outside the domain'})
                continue
            o = _rows_out(df, red)
            o['err'], o['msg'] = exc_kind(e), str(e)[:160]
            outs.append(o)
        return outs
    outs = []
    for p in range(m):
        if outside[p]:
            outs.append({'skip': 'member table starts / ends inside a burst (epoch of a flattened fit): outside the domain'})
            continue
        try:
            res = _get(bg.df_features, p, width)
            mres = _get(bg.models, p, width).df_features
        except Exception as e:
            outs.append({'group_problem': 'no table at member position %d after recompute_edges (%s)' % (p, exc_kind(e))})
            continue
        o = _member_out(held[p], snaps[p], res, red)
        if mres is not res:
            alt = _member_out(held[p], snaps[p], mres, red)
            if alt != o:
                o['alt'] = alt
        outs.append(o)
    return outs


def _rows_out(df, red):
    return {'rows': [{'rise': _f(float(df['volt_rise'].iloc[i])), 'decay': _f(float(df['volt_decay'].iloc[i])), 'period': int(df['period'].iloc[i]),
                      'f': [_f(float(df[col].iloc[i])) for col in COLS], 'lab': bool(df['is_burst'].iloc[i])} for i in range(len(df))],
            'red': dict(red)}


def _member_out(held, snap, res, red):
    o = _rows_out(snap, red)
    o['input_unchanged'] = bool(snap.equals(held))
    o['same_object'] = res is held
    try:
        o['res'] = [{'ac': _f(float(res['amp_consistency'].iloc[i])), 'pc': _f(float(res['period_consistency'].iloc[i])),
                     'lab': bool(res['is_burst'].iloc[i])} for i in range(len(res))]
        other = [col for col in snap.columns if col not in ('amp_consistency', 'period_consistency', 'is_burst')]
        o['others_unchanged'] = bool(len(res) == len(snap) and set(res.columns) == set(snap.columns) and
                                     list(res.index) == list(snap.index) and
                                     all(tablelayout.same_column(res[col], snap[col]) for col in other))
    except Exception as e:
        o['res'] = []
        o['others_unchanged'] = False
    return o


def _noburst_case(rng):
    s = gen.signal(rng, kind=rng.choice(['bursty', 'sparse', 'sum', 'sine', 'sine', 'asym', 'chirp', 'noise']), max_len=600)
    # first detection: high but valid thresholds under which no cycle can be labelled
    thr = {'amp_fraction_threshold': rng.choice([0.3, 0.4]), 'amp_consistency_threshold': rng.choice([0.5, 0.7]),
           'period_consistency_threshold': rng.choice([0.5, 0.7]), 'monotonicity_threshold': rng.choice([0.7, 0.8]),
           'min_n_cycles': rng.choice([1, 2, 3])}
    how = rng.choice(['one_threshold_1', 'one_threshold_1', 'all_1', 'run_longer_than_table'])
    if how == 'one_threshold_1':
        thr[rng.choice(CYC)] = 1.0                  # strict >: nothing exceeds 1
    elif how == 'all_1':
        for k in CYC:
            thr[k] = 1.0
    else:
        thr['min_n_cycles'] = 10000
    c = {'kind': 'edges-noburst/' + s['kind'], 'sig': gen.hexlist(s['sig']), 'fs': s['fs'], 'f_range': list(s['f_range']),
         'center': rng.choice(['peak', 'trough']), 'thr': thr, 'reduction': 0, 'via': rng.choice(['func', 'object']), 'noburst': how}
    r = rng.random()
    if how == 'run_longer_than_table' or r < 0.5:
        # an independent, lower dictionary (also partial ones: missing keys = documented defaults)
        t2 = {k: rng.choice([0.0, 0.1, 0.2, 0.3]) for k in CYC}
        t2['min_n_cycles'] = rng.choice([1, 2, 3])
        if rng.random() < 0.3:
            t2 = {k: v for k, v in t2.items() if rng.random() < 0.6}
        if rng.random() < 0.15:
            t2 = dict(thr)                          # unchanged thresholds: nothing changes, still a new table
        c['thr2'] = t2
    elif r < 0.9:
        c['reduction'] = rng.choice([x for x in [0.1, 0.2, 0.3] if x <= min(thr[k] for k in CYC)])
    # else: reduction 0 / None with the original thresholds (result equals the input in value)
    return c


def _independent(rng, thr):
    """A threshold dictionary for the recomputation that is NOT `thr - r`."""
    mode = rng.choice(['shift', 'shift', 'docstring', 'fresh', 'fresh', 'partial', 'partial', 'n_only'])
    t2 = dict(thr)
    if mode == 'shift':            # every threshold moved on its own: some raised, some lowered
        for k in CYC:
            t2[k] = min(1.0, max(0.0, thr[k] + rng.choice([-0.3, -0.1, 0.0, 0.0, 0.1, 0.2, 0.4])))
        t2['min_n_cycles'] = max(0, thr['min_n_cycles'] + rng.choice([-1, 0, 0, 1, 2]))
    elif mode == 'docstring':      # the documented use: relax one criterion completely
        t2[rng.choice(CYC[1:3])] = 0.0
    elif mode == 'fresh':
        t2 = {k: rng.choice([0.0, 0.1, 0.2, 0.4, 0.5, 0.6, 0.8, 0.9, 1.0]) for k in CYC}
        t2['min_n_cycles'] = rng.choice([0, 1, 2, 3, 4, 5])
    elif mode == 'partial':        # missing keys -> defaults of detect_bursts_cycles
        keys = [k for k in CYC + ['min_n_cycles'] if rng.random() < 0.5]
        t2 = {k: (rng.choice([0.0, 0.2, 0.4, 0.6, 0.9]) if k != 'min_n_cycles' else rng.choice([1, 2, 4])) for k in keys}
    else:
        t2['min_n_cycles'] = rng.choice([0, 1, 2, 3, 4, 5, 7])
    if rng.random() < 0.05:        # outside the domain: model comparison only
        t2[rng.choice(CYC)] = rng.choice([-0.1, 1.2])
    return t2


def _f(x):
    return None if (isinstance(x, float) and math.isnan(x)) else float(x)


def _uf(x):
    return float('nan') if x is None else x


def run_impl(c):
    from bycycle.features import compute_features
    from bycycle.burst import recompute_edges
    if c.get('via') == 'group':
        return _run_group(c)
    sig = gen.unhexlist(c['sig'])
    try:
        df = compute_features(sig, c['fs'], tuple(c['f_range']), center_extrema=c['center'], threshold_kwargs=dict(c['thr']))
    except Exception as e:
        return {'skip': 'compute_features raised %s' % exc_kind(e)}
    lay = c.get('cols')
    df = tablelayout.apply_layout(df, lay)      # columns in another order / with a column of the user's own; all reads by name
    before = df.copy()
    thr2 = c.get('thr2')
    passed = dict(thr2) if thr2 is not None else {k: (v - c['reduction'] if k.endswith('threshold') else v) for k, v in c['thr'].items()}
    red = {k: passed.get(k, pipeline.CYC_DEFAULTS[k]) for k in CYC + ['min_n_cycles']}      # effective thresholds
    out = {'rows': [{'rise': _f(float(df['volt_rise'].iloc[i])), 'decay': _f(float(df['volt_decay'].iloc[i])), 'period': int(df['period'].iloc[i]),
                     'f': [_f(float(df[col].iloc[i])) for col in COLS], 'lab': bool(df['is_burst'].iloc[i])} for i in range(len(df))],
           'red': red}
    try:
        if c['via'] == 'object':
            from bycycle import Bycycle
            bm = Bycycle(center_extrema=c['center'], thresholds=dict(c['thr']))
            bm.fit(sig, c['fs'], tuple(c['f_range']))
            if lay:
                bm.df_features = tablelayout.apply_layout(bm.df_features, lay)
            if thr2 is not None:
                bm.thresholds = dict(thr2)
            # the object's table before the call is "the input table": a user may hold a reference to it
            df = bm.df_features
            before_obj = df.copy()
            try:
                bm.recompute_edges(c['reduction'] if c['reduction'] else None)
            finally:
                out['obj_thresholds_unchanged'] = bm.thresholds == (thr2 if thr2 is not None else c['thr'])
            res = bm.df_features
            out['input_unchanged'] = bool(before_obj.equals(df))
        else:
            res = recompute_edges(df, dict(passed))
            out['input_unchanged'] = bool(before.equals(df))
    except Exception as e:
        out['err'] = exc_kind(e)
        out['msg'] = str(e)[:160]
        return out
    out['same_object'] = res is df
    out['res'] = [{'ac': _f(float(res['amp_consistency'].iloc[i])), 'pc': _f(float(res['period_consistency'].iloc[i])),
                   'lab': bool(res['is_burst'].iloc[i])} for i in range(len(res))]
    other = [col for col in before.columns if col not in ('amp_consistency', 'period_consistency', 'is_burst')]
    out['others_unchanged'] = bool(len(res) == len(before) and set(res.columns) == set(before.columns) and
                                   list(res.index) == list(before.index) and
                                   all(tablelayout.same_column(res[col], before[col]) for col in other))
    return out


def _ratio(a, b):
    if math.isnan(a) or math.isnan(b):
        return float('nan')
    with np.errstate(all='ignore'):
        return float(np.float64(min(a, b)) / np.float64(max(a, b)))


def oracle(c, o):
    """Group members: the table bg.df_features holds at the position and, where it is another table, the one the model
    bg.models holds there - both judged as the result of recomputing the table the group held there before the call."""
    if 'group_problem' in o:
        return 'BycycleGroup.recompute_edges: ' + o['group_problem']
    msg = _oracle1(c, o)
    if msg and c.get('via') == 'group':
        return 'group member %d (df_features): %s' % (c['member'], msg)
    if not msg and 'alt' in o:
        msg = _oracle1(c, o['alt'])
        if msg:
            return 'group member %d (models[...].df_features): %s' % (c['member'], msg)
    return msg


def _oracle1(c, o):
    if 'skip' in o:
        return None
    if any(not (0 <= o['red'][k] <= 1) for k in CYC) or o['red']['min_n_cycles'] < 0:
        return None                # outside C16's domain (validation is C19's business); the model comparison still runs
    if 'err' in o:
        return 'raised %s (%s)' % (o['err'], o.get('msg'))
    rows, res = o['rows'], o['res']
    n = len(rows)
    if len(res) != n or not o['others_unchanged']:
        return 'rows or other columns changed'
    # "returns a new table ... and the input table is untouched": for the function the table passed in, for the object
    # the table it held before the call (the rows / other-columns clauses above compare the result with a snapshot)
    if not o.get('input_unchanged', True):
        return 'input table modified' + (' (the table the object held before recompute_edges)' if c['via'] == 'object' else '')
    if o.get('same_object'):
        return 'the result is the input table itself, not a new table'
    if c['via'] == 'object' and not o.get('obj_thresholds_unchanged', True):
        return 'object thresholds modified by recompute_edges'
    lab = [r['lab'] for r in rows]
    peak = c['center'] == 'peak'
    R = [_uf(r['rise']) for r in rows]
    D = [_uf(r['decay']) for r in rows]
    P = [r['period'] for r in rows]
    first, second = (R, D) if peak else (D, R)       # flank before / after the centre
    edited = {}
    for i in range(n):
        if lab[i]:
            continue
        into_next = i + 1 < n and lab[i + 1]          # burst starts right after i: look at the next cycle
        into_last = i - 1 >= 0 and lab[i - 1]         # burst ended right before i: look at the previous cycle
        if not (into_next or into_last):
            continue
        # edge rows at either end of the table have a two-row window: the value is undefined (NaN)
        def one_sided(direction):
            if i == 0 or i == n - 1:
                return float('nan'), float('nan')
            cur = _ratio(first[i], second[i])
            oth = _ratio(second[i], first[i + 1]) if direction == 'next' else _ratio(second[i - 1], first[i])
            vals = [x for x in (cur, oth) if not math.isnan(x)]
            allnan = all(math.isnan(x) for x in (cur, _ratio(second[i], first[i + 1]), _ratio(second[i - 1], first[i])))
            ac = float('nan') if (allnan or not vals) else max(0.0, min(vals))
            pc = _ratio(P[i], P[i + 1]) if direction == 'next' else _ratio(P[i], P[i - 1])
            return ac, pc
        # bursts are processed in temporal order, each as (start, 'next') then (end, 'last'): a single non-burst
        # cycle between two bursts is the end of the first and the start of the second, so its final value looks 'next'
        edited[i] = one_sided('next') if into_next else one_sided('last')
    for i in range(n):
        got_ac, got_pc = _uf(res[i]['ac']), _uf(res[i]['pc'])
        if i in edited:
            want_ac, want_pc = edited[i]
        else:
            want_ac, want_pc = _uf(rows[i]['f'][1]), _uf(rows[i]['f'][2])
        if not pipeline.close(got_ac, want_ac) or not pipeline.close(got_pc, want_pc):
            return ('cycle %d (%s): consistencies (%r, %r), expected (%r, %r)' %
                    (i, 'burst edge' if i in edited else 'not an edge', got_ac, got_pc, want_ac, want_pc))
    thr = [o['red'][k] for k in CYC]
    q = []
    for i in range(n):
        f = [_uf(rows[i]['f'][0]), _uf(res[i]['ac']), _uf(res[i]['pc']), _uf(rows[i]['f'][3])]
        q.append(all(f[k] > thr[k] for k in range(4)))
    if q:
        q[0] = False
        q[-1] = False
    want = pipeline.spec_minrun(q, o['red']['min_n_cycles'])
    got = [r['lab'] for r in res]
    if got != want:
        return 'new labels differ from the threshold-and-run rule on the edited table'
    lowered = all(o['red'][k] <= c['thr'][k] for k in CYC) and o['red']['min_n_cycles'] <= c['thr']['min_n_cycles']
    if lowered and any(a and not b for a, b in zip(lab, got)):
        return 'a previously bursting cycle is no longer bursting although no threshold was raised'
    return None


def nontrivial(c, o):
    if 'res' not in o:
        return False
    if c.get('noburst'):
        # no burst in the input: non-trivial if the recomputation labels something (so that a write into the input shows)
        return len(o['rows']) >= 3 and not any(r['lab'] for r in o['rows']) and any(r['lab'] for r in o['res'])
    return any(r['lab'] for r in o['rows']) and not all(r['lab'] for r in o['rows'])


def kind_of(c, o):
    k = c['kind'] + '/' + c['via'] + ('/thr2' if c.get('thr2') is not None else '') + tablelayout.tag(c.get('cols'))
    if 'rows' in o and not any(r['lab'] for r in o['rows']):
        k += '/input-without-burst'
    if 'res' in o and any(b['lab'] and not a['lab'] for a, b in zip(o['rows'], o['res'])):
        k += '/grew'
    if 'res' in o and any(a['lab'] and not b['lab'] for a, b in zip(o['rows'], o['res'])):
        k += '/shrank'
    return k + ('/skip' if 'skip' in o else '/err' if 'err' in o else '')


def coq_case(c, o):
    if 'skip' in o or 'group_problem' in o:
        return None
    rows = o['rows']
    items = ['(%s, %s, %d%%Z, (%s), %s)' % (coqio.fl(_uf(r['rise'])), coqio.fl(_uf(r['decay'])), r['period'],
                                            ', '.join(coqio.fl(_uf(v)) for v in r['f']), coqio.B(r['lab'])) for r in rows]
    inp = '(%s, (%s), %d%%Z, %s)' % (coqio.B(c['center'] == 'peak'), ', '.join(coqio.fl(o['red'][k]) for k in CYC),
                                     o['red']['min_n_cycles'], coqio.lst(items) if items else 'nil')
    if 'err' in o:
        return inp, '(Err %s)' % pipeline.ERRMAP.get(o['err'], 'EOther')
    outs = ['(%s, %s, %s)' % (coqio.fl(_uf(r['ac'])), coqio.fl(_uf(r['pc'])), coqio.B(r['lab'])) for r in o['res']]
    return inp, '(Ok %s)' % (coqio.lst(outs) if outs else 'nil')
