"""C16 — recompute_edges touches only burst edges and only grows bursts.  Model/Edges.v."""
import math
import numpy as np
from harness import coqio, gen, pipeline, tablelayout
from harness.core import exc_kind

PROP = 'C16'
PROPS_FILE = 'Props/C16.v'
COQ_HEADER = ('From Coq Require Import List ZArith NArith Floats.PrimFloat. Import ListNotations.\n'
              'From ByC Require Import Base.Result Harness.Compare Model.Edges.\nOpen Scope float_scope.')
COQ_RUNNER = 'bad_recompute_edges'
COQ_TYPES = ('bool * (float * float * float * float) * Z * list ed_in', 'result (list ed_out)')
SHARD = 40
RULE = ('recompute_edges (function and Bycycle.recompute_edges) on cycle tables produced by consistency burst detection on '
        'bursty / mixed generated signals of both centrings; stream A: the original thresholds with every *_threshold lowered by '
        'r in {0, .05, .1, .2, .3}; stream C (40 quick / 400 thorough, kind edges-noburst): the first detection with thresholds '
        'under which nothing is labelled (a threshold of 1, all of them 1, min_n_cycles longer than the table), then lowered by r or '
        'replaced by a lower / partial / identical dictionary; about 40 % of all tables are handed over with their columns sorted / '
        'reversed / shuffled, some with an unrelated extra column (function: the argument; object: its df_features); stream B (about 45 %): an INDEPENDENT threshold dictionary (single thresholds raised or lowered, '
        'the documented use "only amp_consistency_threshold = 0", fresh values, another min_n_cycles in 0..5, partial dictionaries '
        'whose missing keys take the documented defaults of detect_bursts_cycles, a few values outside [0,1]); amp_consistency, '
        'period_consistency and is_burst of the result compared with the model; oracle: frame condition on every other cell (column '
        'set and row labels, not column order), input untouched and result a new object (function: the argument; object: the table '
        'it held before the call), one-sided edge values with the direction towards the burst, '
        'labels = threshold-and-run rule on the edited table with the thresholds passed; growth only where the property promises it '
        '(every new threshold <= the old one and min_n_cycles not larger). Thresholds outside [0,1] / negative min_n_cycles are '
        'outside the property\'s domain: no oracle verdict, only the model comparison (ValueError). '
        'non-trivial = the input table contains a burst and a non-burst cycle; stream C: no burst in the input and a label in the result')
ASSUMPTIONS = ['the input table comes from consistency burst detection (first and last cycle not bursting)',
               'a threshold dictionary that omits keys means the documented defaults of detect_bursts_cycles (0, .5, .5, .8, 3)']
CYC = pipeline.CYC_KEYS
COLS = ['amp_fraction', 'amp_consistency', 'period_consistency', 'monotonicity']


def cases(rng, tier):
    out = []
    n = 110 if tier == 'quick' else 1100
    for _ in range(n):
        s = gen.signal(rng, kind=rng.choice(['bursty', 'sparse', 'sum', 'sine', 'noise', 'chirp', 'asym', 'zeroed']), max_len=600)
        thr = {'amp_fraction_threshold': rng.choice([0.0, 0.1, 0.3]), 'amp_consistency_threshold': rng.choice([0.3, 0.5, 0.7]),
               'period_consistency_threshold': rng.choice([0.3, 0.5, 0.7]), 'monotonicity_threshold': rng.choice([0.5, 0.7, 0.8]),
               'min_n_cycles': rng.choice([1, 2, 3])}
        c = {'kind': 'edges/' + s['kind'], 'sig': gen.hexlist(s['sig']), 'fs': s['fs'], 'f_range': list(s['f_range']),
             'center': rng.choice(['peak', 'trough']), 'thr': thr, 'reduction': rng.choice([0, 0, 0.05, 0.1, 0.2, 0.3]),
             'via': rng.choice(['func', 'func', 'object'])}
        if rng.random() < 0.85:    # mostly reductions that keep every threshold inside [0, 1] (the property's domain)
            c['reduction'] = rng.choice([r for r in [0, 0.05, 0.1, 0.2, 0.3] if r <= min(thr[k] for k in CYC)])
        if rng.random() < 0.45:
            c['thr2'] = _independent(rng, thr)
            c['reduction'] = 0
        out.append(c)
    # tables WITHOUT any burst (nothing qualified at the first detection), recomputed with lowered thresholds: there is no
    # edge to edit, the labels are the rule on the unedited table - and the result is still a NEW table, the input untouched
    for _ in range(40 if tier == 'quick' else 400):
        out.append(_noburst_case(rng))
    # column layout of the table handed to recompute_edges (the user sorted / re-assembled it, added a column of their own)
    for c in out:
        c['cols'] = tablelayout.gen_layout(rng)
    return out


def _noburst_case(rng):
    s = gen.signal(rng, kind=rng.choice(['bursty', 'sparse', 'sum', 'sine', 'sine', 'asym', 'chirp', 'noise']), max_len=600)
    # first detection: high but valid thresholds under which no cycle can be labelled
    thr = {'amp_fraction_threshold': rng.choice([0.3, 0.4]), 'amp_consistency_threshold': rng.choice([0.5, 0.7]),
           'period_consistency_threshold': rng.choice([0.5, 0.7]), 'monotonicity_threshold': rng.choice([0.7, 0.8]),
           'min_n_cycles': rng.choice([1, 2, 3])}
    how = rng.choice(['one_threshold_1', 'one_threshold_1', 'all_1', 'run_longer_than_table'])
    if how == 'one_threshold_1':
        thr[rng.choice(CYC)] = 1.0                  # strict >: nothing exceeds 1
    elif how == 'all_1':
        for k in CYC:
            thr[k] = 1.0
    else:
        thr['min_n_cycles'] = 10000
    c = {'kind': 'edges-noburst/' + s['kind'], 'sig': gen.hexlist(s['sig']), 'fs': s['fs'], 'f_range': list(s['f_range']),
         'center': rng.choice(['peak', 'trough']), 'thr': thr, 'reduction': 0, 'via': rng.choice(['func', 'object']), 'noburst': how}
    r = rng.random()
    if how == 'run_longer_than_table' or r < 0.5:
        # an independent, lower dictionary (also partial ones: missing keys = documented defaults)
        t2 = {k: rng.choice([0.0, 0.1, 0.2, 0.3]) for k in CYC}
        t2['min_n_cycles'] = rng.choice([1, 2, 3])
        if rng.random() < 0.3:
            t2 = {k: v for k, v in t2.items() if rng.random() < 0.6}
        if rng.random() < 0.15:
            t2 = dict(thr)                          # unchanged thresholds: nothing changes, still a new table
        c['thr2'] = t2
    elif r < 0.9:
        c['reduction'] = rng.choice([x for x in [0.1, 0.2, 0.3] if x <= min(thr[k] for k in CYC)])
    # else: reduction 0 / None with the original thresholds (result equals the input in value)
    return c


def _independent(rng, thr):
    """A threshold dictionary for the recomputation that is NOT `thr - r`."""
    mode = rng.choice(['shift', 'shift', 'docstring', 'fresh', 'fresh', 'partial', 'partial', 'n_only'])
    t2 = dict(thr)
    if mode == 'shift':            # every threshold moved on its own: some raised, some lowered
        for k in CYC:
            t2[k] = min(1.0, max(0.0, thr[k] + rng.choice([-0.3, -0.1, 0.0, 0.0, 0.1, 0.2, 0.4])))
        t2['min_n_cycles'] = max(0, thr['min_n_cycles'] + rng.choice([-1, 0, 0, 1, 2]))
    elif mode == 'docstring':      # the documented use: relax one criterion completely
        t2[rng.choice(CYC[1:3])] = 0.0
    elif mode == 'fresh':
        t2 = {k: rng.choice([0.0, 0.1, 0.2, 0.4, 0.5, 0.6, 0.8, 0.9, 1.0]) for k in CYC}
        t2['min_n_cycles'] = rng.choice([0, 1, 2, 3, 4, 5])
    elif mode == 'partial':        # missing keys -> defaults of detect_bursts_cycles
        keys = [k for k in CYC + ['min_n_cycles'] if rng.random() < 0.5]
        t2 = {k: (rng.choice([0.0, 0.2, 0.4, 0.6, 0.9]) if k != 'min_n_cycles' else rng.choice([1, 2, 4])) for k in keys}
    else:
        t2['min_n_cycles'] = rng.choice([0, 1, 2, 3, 4, 5, 7])
    if rng.random() < 0.05:        # outside the domain: model comparison only
        t2[rng.choice(CYC)] = rng.choice([-0.1, 1.2])
    return t2


def _f(x):
    return None if (isinstance(x, float) and math.isnan(x)) else float(x)


def _uf(x):
    return float('nan') if x is None else x


def run_impl(c):
    from bycycle.features import compute_features
    from bycycle.burst import recompute_edges
    sig = gen.unhexlist(c['sig'])
    try:
        df = compute_features(sig, c['fs'], tuple(c['f_range']), center_extrema=c['center'], threshold_kwargs=dict(c['thr']))
    except Exception as e:
        return {'skip': 'compute_features raised %s' % exc_kind(e)}
    lay = c.get('cols')
    df = tablelayout.apply_layout(df, lay)      # columns in another order / with a column of the user's own; all reads by name
    before = df.copy()
    thr2 = c.get('thr2')
    passed = dict(thr2) if thr2 is not None else {k: (v - c['reduction'] if k.endswith('threshold') else v) for k, v in c['thr'].items()}
    red = {k: passed.get(k, pipeline.CYC_DEFAULTS[k]) for k in CYC + ['min_n_cycles']}      # effective thresholds
    out = {'rows': [{'rise': _f(float(df['volt_rise'].iloc[i])), 'decay': _f(float(df['volt_decay'].iloc[i])), 'period': int(df['period'].iloc[i]),
                     'f': [_f(float(df[col].iloc[i])) for col in COLS], 'lab': bool(df['is_burst'].iloc[i])} for i in range(len(df))],
           'red': red}
    try:
        if c['via'] == 'object':
            from bycycle import Bycycle
            bm = Bycycle(center_extrema=c['center'], thresholds=dict(c['thr']))
            bm.fit(sig, c['fs'], tuple(c['f_range']))
            if lay:
                bm.df_features = tablelayout.apply_layout(bm.df_features, lay)
            if thr2 is not None:
                bm.thresholds = dict(thr2)
            # the object's table before the call is "the input table": a user may hold a reference to it
            df = bm.df_features
            before_obj = df.copy()
            try:
                bm.recompute_edges(c['reduction'] if c['reduction'] else None)
            finally:
                out['obj_thresholds_unchanged'] = bm.thresholds == (thr2 if thr2 is not None else c['thr'])
            res = bm.df_features
            out['input_unchanged'] = bool(before_obj.equals(df))
        else:
            res = recompute_edges(df, dict(passed))
            out['input_unchanged'] = bool(before.equals(df))
    except Exception as e:
        out['err'] = exc_kind(e)
        out['msg'] = str(e)[:160]
        return out
    out['same_object'] = res is df
    out['res'] = [{'ac': _f(float(res['amp_consistency'].iloc[i])), 'pc': _f(float(res['period_consistency'].iloc[i])),
                   'lab': bool(res['is_burst'].iloc[i])} for i in range(len(res))]
    other = [col for col in before.columns if col not in ('amp_consistency', 'period_consistency', 'is_burst')]
    out['others_unchanged'] = bool(len(res) == len(before) and set(res.columns) == set(before.columns) and
                                   list(res.index) == list(before.index) and
                                   all(tablelayout.same_column(res[col], before[col]) for col in other))
    return out


def _ratio(a, b):
    if math.isnan(a) or math.isnan(b):
        return float('nan')
    with np.errstate(all='ignore'):
        return float(np.float64(min(a, b)) / np.float64(max(a, b)))


def oracle(c, o):
    if 'skip' in o:
        return None
    if any(not (0 <= o['red'][k] <= 1) for k in CYC) or o['red']['min_n_cycles'] < 0:
        return None                # outside C16's domain (validation is C19's business); the model comparison still runs
    if 'err' in o:
        return 'raised %s (%s)' % (o['err'], o.get('msg'))
    rows, res = o['rows'], o['res']
    n = len(rows)
    if len(res) != n or not o['others_unchanged']:
        return 'rows or other columns changed'
    # "returns a new table ... and the input table is untouched": for the function the table passed in, for the object
    # the table it held before the call (the rows / other-columns clauses above compare the result with a snapshot)
    if not o.get('input_unchanged', True):
        return 'input table modified' + (' (the table the object held before recompute_edges)' if c['via'] == 'object' else '')
    if o.get('same_object'):
        return 'the result is the input table itself, not a new table'
    if c['via'] == 'object' and not o.get('obj_thresholds_unchanged', True):
        return 'object thresholds modified by recompute_edges'
    lab = [r['lab'] for r in rows]
    peak = c['center'] == 'peak'
    R = [_uf(r['rise']) for r in rows]
    D = [_uf(r['decay']) for r in rows]
    P = [r['period'] for r in rows]
    first, second = (R, D) if peak else (D, R)       # flank before / after the centre
    edited = {}
    for i in range(n):
        if lab[i]:
            continue
        into_next = i + 1 < n and lab[i + 1]          # burst starts right after i: look at the next cycle
        into_last = i - 1 >= 0 and lab[i - 1]         # burst ended right before i: look at the previous cycle
        if not (into_next or into_last):
            continue
        # edge rows at either end of the table have a two-row window: the value is undefined (NaN)
        def one_sided(direction):
            if i == 0 or i == n - 1:
                return float('nan'), float('nan')
            cur = _ratio(first[i], second[i])
            oth = _ratio(second[i], first[i + 1]) if direction == 'next' else _ratio(second[i - 1], first[i])
            vals = [x for x in (cur, oth) if not math.isnan(x)]
            allnan = all(math.isnan(x) for x in (cur, _ratio(second[i], first[i + 1]), _ratio(second[i - 1], first[i])))
            ac = float('nan') if (allnan or not vals) else max(0.0, min(vals))
            pc = _ratio(P[i], P[i + 1]) if direction == 'next' else _ratio(P[i], P[i - 1])
            return ac, pc
        # bursts are processed in temporal order, each as (start, 'next') then (end, 'last'): a single non-burst
        # cycle between two bursts is the end of the first and the start of the second, so its final value looks 'next'
        edited[i] = one_sided('next') if into_next else one_sided('last')
    for i in range(n):
        got_ac, got_pc = _uf(res[i]['ac']), _uf(res[i]['pc'])
        if i in edited:
            want_ac, want_pc = edited[i]
        else:
            want_ac, want_pc = _uf(rows[i]['f'][1]), _uf(rows[i]['f'][2])
        if not pipeline.close(got_ac, want_ac) or not pipeline.close(got_pc, want_pc):
            return ('cycle %d (%s): consistencies (%r, %r), expected (%r, %r)' %
                    (i, 'burst edge' if i in edited else 'not an edge', got_ac, got_pc, want_ac, want_pc))
    thr = [o['red'][k] for k in CYC]
    q = []
    for i in range(n):
        f = [_uf(rows[i]['f'][0]), _uf(res[i]['ac']), _uf(res[i]['pc']), _uf(rows[i]['f'][3])]
        q.append(all(f[k] > thr[k] for k in range(4)))
    if q:
        q[0] = False
        q[-1] = False
    want = pipeline.spec_minrun(q, o['red']['min_n_cycles'])
    got = [r['lab'] for r in res]
    if got != want:
        return 'new labels differ from the threshold-and-run rule on the edited table'
    lowered = all(o['red'][k] <= c['thr'][k] for k in CYC) and o['red']['min_n_cycles'] <= c['thr']['min_n_cycles']
    if lowered and any(a and not b for a, b in zip(lab, got)):
        return 'a previously bursting cycle is no longer bursting although no threshold was raised'
    return None


def nontrivial(c, o):
    if 'res' not in o:
        return False
    if c.get('noburst'):
        # no burst in the input: non-trivial if the recomputation labels something (so that a write into the input shows)
        return len(o['rows']) >= 3 and not any(r['lab'] for r in o['rows']) and any(r['lab'] for r in o['res'])
    return any(r['lab'] for r in o['rows']) and not all(r['lab'] for r in o['rows'])


def kind_of(c, o):
    k = c['kind'] + '/' + c['via'] + ('/thr2' if c.get('thr2') is not None else '') + tablelayout.tag(c.get('cols'))
    if 'rows' in o and not any(r['lab'] for r in o['rows']):
        k += '/input-without-burst'
    if 'res' in o and any(b['lab'] and not a['lab'] for a, b in zip(o['rows'], o['res'])):
        k += '/grew'
    if 'res' in o and any(a['lab'] and not b['lab'] for a, b in zip(o['rows'], o['res'])):
        k += '/shrank'
    return k + ('/skip' if 'skip' in o else '/err' if 'err' in o else '')


def coq_case(c, o):
    if 'skip' in o:
        return None
    rows = o['rows']
    items = ['(%s, %s, %d%%Z, (%s), %s)' % (coqio.fl(_uf(r['rise'])), coqio.fl(_uf(r['decay'])), r['period'],
                                            ', '.join(coqio.fl(_uf(v)) for v in r['f']), coqio.B(r['lab'])) for r in rows]
    inp = '(%s, (%s), %d%%Z, %s)' % (coqio.B(c['center'] == 'peak'), ', '.join(coqio.fl(o['red'][k]) for k in CYC),
                                     o['red']['min_n_cycles'], coqio.lst(items) if items else 'nil')
    if 'err' in o:
        return inp, '(Err %s)' % pipeline.ERRMAP.get(o['err'], 'EOther')
    outs = ['(%s, %s, %s)' % (coqio.fl(_uf(r['ac'])), coqio.fl(_uf(r['pc'])), coqio.B(r['lab'])) for r in o['res']]
    return inp, '(Ok %s)' % (coqio.lst(outs) if outs else 'nil')
