"""C17 — extrema_interpolated_phase vs Model/Phase.v (exact rationals, quarter-turn units)."""
import itertools
import math
import numpy as np
from harness import coqio, gen
from harness.core import exc_kind

PROP = 'C17'
PROPS_FILE = 'Props/C17.v'
COQ_HEADER = ('From Coq Require Import List ZArith NArith QArith. Import ListNotations.\n'
              'From ByC Require Import Base.Result Harness.Compare Model.Phase.')
COQ_RUNNER = 'bad_phase'
COQ_TYPES = ('nat * list nat * list nat * option (list nat) * option (list nat)', 'result (list (option Z))')
SHARD = 150
RULE = ('(a) cyclepoints from find_extrema / find_zerox on generated signals, boundary in {0,1,5}, first_extrema in {peak, trough, '
        'None}, with both / only rise / only decay / no midpoints; (b) every placement of alternating extrema (>= 2 samples apart, either kind first, '
        'extrema allowed on the first/last samples) on arrays up to length 9 (quick) / 11 (thorough), without midpoints and with '
        'midpoints anywhere in their flank (coinciding with extrema included), optionally a midpoint before the first / after the last extremum, both or only one midpoint kind supplied. non-trivial = >= 3 extrema')
EXHAUSTIVE = {'quick': True, 'thorough': True}
ASSUMPTIONS = ['consecutive extrema at least two samples apart; peaks and troughs alternate',
               'model is exact rational arithmetic in units of pi/2; implementation values compared within 1e-6 of a quarter turn, '
               'NaN pattern exactly']
TRUST = ['np.interp is modelled as piecewise-linear interpolation with constant extension']


def _placements(n):
    def rec(start, acc):
        if len(acc) >= 2:
            yield list(acc)
        for i in range(start, n):
            yield from rec(i + 2, acc + [i])
    yield from rec(0, [])


def cases(rng, tier):
    out = []
    L = 9 if tier == 'quick' else 11
    for n in range(3, L + 1):
        for ext in _placements(n):
            for first_peak in (True, False):
                peaks = [e for k, e in enumerate(ext) if (k % 2 == 0) == first_peak]
                troughs = [e for k, e in enumerate(ext) if (k % 2 == 0) != first_peak]
                out.append({'kind': 'exhaustive/nomid', 'n': n, 'peaks': peaks, 'troughs': troughs, 'rises': None, 'decays': None})
                for _ in range(2):
                    rises, decays = [], []
                    for k, (a, b) in enumerate(zip(ext, ext[1:])):
                        m = rng.randint(a, b)
                        a_is_peak = (k % 2 == 0) == first_peak
                        (decays if a_is_peak else rises).append(m)
                    # a midpoint may also precede the first / follow the last extremum (the flank to an extremum outside)
                    if ext[0] > 0 and rng.random() < 0.5:
                        m = rng.randint(0, ext[0] - 1)
                        (rises if first_peak else decays).insert(0, m)
                    if ext[-1] < n - 1 and rng.random() < 0.5:
                        m = rng.randint(ext[-1] + 1, n - 1)
                        last_is_peak = ((len(ext) - 1) % 2 == 0) == first_peak
                        (decays if last_is_peak else rises).append(m)
                    mode = rng.choice(['both', 'both', 'rises_only', 'decays_only'])
                    out.append({'kind': 'exhaustive/mid/' + mode, 'n': n, 'peaks': peaks, 'troughs': troughs,
                                'rises': None if mode == 'decays_only' else rises, 'decays': None if mode == 'rises_only' else decays})
    nsig = 70 if tier == 'quick' else 700
    for _ in range(nsig):
        s = gen.signal(rng, max_len=260)
        out.append({'kind': 'signal/' + s['kind'], 'sig': gen.hexlist(s['sig']), 'fs': s['fs'], 'f_range': list(s['f_range']),
                    'boundary': rng.choice([0, 0, 1, 5]), 'first': rng.choice(['peak', 'trough', None]),
                    'mid': rng.choice(['both', 'both', 'none', 'rises_only', 'decays_only'])})
    return out


def _cps(c):
    if not c['kind'].startswith('signal'):
        return c['n'], c['peaks'], c['troughs'], c['rises'], c['decays'], None
    from bycycle.cyclepoints import find_extrema, find_zerox
    sig = gen.unhexlist(c['sig'])
    p, t = find_extrema(sig, c['fs'], tuple(c['f_range']), boundary=c['boundary'], first_extrema=c['first'])
    r = d = None
    if c['mid'] != 'none':
        r, d = find_zerox(sig, p, t)
        r, d = [int(x) for x in r], [int(x) for x in d]
        if c['mid'] == 'rises_only':
            d = None
        elif c['mid'] == 'decays_only':
            r = None
    return len(sig), [int(x) for x in p], [int(x) for x in t], r, d, sig


def run_impl(c):
    from bycycle.cyclepoints import extrema_interpolated_phase
    try:
        n, p, t, r, d, sig = _cps(c)
    except Exception as e:
        return {'skip': 'cyclepoints raised %s' % exc_kind(e)}
    if len(p) == 0 or len(t) == 0:
        return {'skip': 'no extrema'}
    ext = sorted(p + t)
    if any(b - a < 2 for a, b in zip(ext, ext[1:])):
        return {'skip': 'extrema closer than two samples'}
    out = {'n': n, 'peaks': p, 'troughs': t, 'rises': r, 'decays': d}
    x = np.zeros(n) if sig is None else sig
    try:
        pha = extrema_interpolated_phase(x, np.array(p, dtype=int), np.array(t, dtype=int),
                                         None if r is None else np.array(r, dtype=int),
                                         None if d is None else np.array(d, dtype=int))
        out['pha'] = [None if math.isnan(v) else float(v) for v in pha]
    except Exception as e:
        out['err'] = exc_kind(e)
        out['msg'] = str(e)[:120]
    return out


def oracle(c, o):
    if 'skip' in o:
        return None
    if 'err' in o:
        return 'raised %s (%s)' % (o['err'], o.get('msg'))
    pha = o['pha']
    n = o['n']
    if len(pha) != n:
        return 'one value per sample expected'
    p, t = o['peaks'], o['troughs']
    r, d = o['rises'] or [], o['decays'] or []
    allc = sorted(set(p + t + r + d))
    F, Lx = allc[0], allc[-1]
    for i, v in enumerate(pha):
        if i < F or i > Lx:
            if v is not None:
                return 'sample %d outside the span [%d, %d] of the cyclepoints is finite (%r)' % (i, F, Lx, v)
        elif v is None:
            return 'sample %d inside the span [%d, %d] of the cyclepoints is NaN' % (i, F, Lx)
    tol = 1e-9
    for i in p:
        if abs(pha[i]) > tol:
            return 'phase at peak %d is %r, expected 0' % (i, pha[i])
    for i in t:
        if abs(abs(pha[i]) - math.pi) > tol:
            return 'phase at trough %d is %r, expected +-pi' % (i, pha[i])
    ext = set(p + t)
    for i in r:
        if i not in ext and abs(pha[i] + math.pi / 2) > tol:
            return 'phase at rise midpoint %d is %r, expected -pi/2' % (i, pha[i])
    for i in d:
        if i not in ext and abs(pha[i] - math.pi / 2) > tol:
            return 'phase at decay midpoint %d is %r, expected +pi/2' % (i, pha[i])
    ts = set(t)
    for i in range(F, Lx):
        a, b = pha[i], pha[i + 1]
        if not (-math.pi - tol <= a <= math.pi + tol):
            return 'phase %r outside [-pi, pi] at sample %d' % (a, i)
        if b < a - tol and (i + 1) not in ts:
            return 'phase decreases from sample %d to %d (%r -> %r) away from a trough' % (i, i + 1, a, b)
    return None


def nontrivial(c, o):
    return 'pha' in o and len(o['peaks']) + len(o['troughs']) >= 3


def kind_of(c, o):
    return c['kind'] + ('/skip' if 'skip' in o else '/err' if 'err' in o else '')


def _nl(xs):
    return coqio.lst([str(int(x)) for x in xs], 'nat') if xs else '(@nil nat)'


def coq_case(c, o):
    if 'skip' in o:
        return None
    inp = '(%d%%nat, %s, %s, %s, %s)' % (o['n'], _nl(o['peaks']), _nl(o['troughs']),
                                        'None' if o['rises'] is None else '(Some %s)' % _nl(o['rises']),
                                        'None' if o['decays'] is None else '(Some %s)' % _nl(o['decays']))
    if 'err' in o:
        em = {'Value': 'EValue', 'Index': 'EIndex', 'Stop': 'EOther'}
        return inp, '(Err %s)' % em.get(o['err'], 'EKey')
    items = ['None' if v is None else '(Some %s%%Z)' % coqio.Z(int(round(v / (math.pi / 2) * 1e9))) for v in o['pha']]
    return inp, '(Ok %s)' % coqio.lst(items)


def shrink(c):
    return []
