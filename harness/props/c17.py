"""C17 — extrema_interpolated_phase vs Model/Phase.v (exact rationals, quarter-turn units).

The Coq runner `bad_phase` reports a case when the model's phase differs from the implementation's OR when the case
does not satisfy `wf_cpsb` (the boolean form of the precondition wf_cps of every C17 theorem).  Only cases inside the
class the property quantifies over (`out_of_domain` below; Coq: cps_domain, with cps_domain_wf : cps_domain c -> wf_cps c)
are sent to Coq, so the second kind of report means the theorems do not cover a generated input.  To tell the two apart
on a reported case, evaluate the shard with `bad_phase_values` / `bad_phase_wf` (Model/Phase.v) instead of `bad_phase`."""
import bisect
import itertools
import math
import numpy as np
from harness import coqio, gen
from harness.core import exc_kind

PROP = 'C17'
PROPS_FILE = 'Props/C17.v'
COQ_HEADER = ('From Coq Require Import List ZArith NArith QArith. Import ListNotations.\n'
              'From ByC Require Import Base.Result Harness.Compare Model.Phase.')
COQ_RUNNER = 'bad_phase'
COQ_TYPES = ('nat * list nat * list nat * option (list nat) * option (list nat)', 'result (list (option Z))')
SHARD = 150
ENUM_N = {'quick': 7, 'thorough': 8}      # arrays up to this length: every midpoint placement is enumerated
MAX_N = {'quick': 9, 'thorough': 11}      # arrays up to this length: every extrema placement is enumerated
RULE = ('(a) cyclepoints from find_extrema / find_zerox on generated signals, boundary in {0,1,5}, first_extrema in {peak, trough, '
        'None}, with both / only rise / only decay / no midpoints; (b) every placement of alternating extrema (>= 2 samples apart, either kind first, '
        'extrema allowed on the first/last samples) on arrays up to length 9 (quick) / 11 (thorough) without midpoints; (c) on arrays up to '
        'length 7 (quick) / 8 (thorough) additionally EVERY midpoint placement: one midpoint per flank anywhere in its flank (coinciding with '
        'either extremum included), no / every possible midpoint before the first and after the last extremum, with both kinds, only the '
        'rises or only the decays supplied (duplicates removed); (d) on the longer arrays of (b) two random midpoint placements of that '
        'kind per extrema placement (sampled, not enumerated). In every stream about 45 % of the cases pass another kind of `sig` array than '
        'float64 zeros / the generated recording (the function documents `sig` as the time series and uses only its length): float32, '
        'float16, int16, int64, bool, a read-only array, a non-contiguous view, non-zero content, NaN edge samples; a fifth of the cases '
        'pass the cyclepoints as int32 or read-only index arrays (what pandas `to_numpy()` returns). The statement oracle and the model '
        'input (length + cyclepoints) are the same for every storage type. Cases outside the quantified class (extrema closer than two samples or not '
        'alternating, a midpoint outside its flank, two midpoints of a kind on one flank) are counted as skip. non-trivial = >= 3 extrema')
EXHAUSTIVE = {'quick': True, 'thorough': True}   # streams (b) and (c); (a) and (d) are sampled
ASSUMPTIONS = ['consecutive extrema at least two samples apart; peaks and troughs alternate; a supplied midpoint that does not coincide '
               'with an extremum lies on a flank of its kind (rise: after a trough / before a peak), at most one of a kind per flank',
               'model is exact rational arithmetic in units of pi/2; implementation values compared within 1e-6 of a quarter turn, '
               'NaN pattern exactly',
               'every case evaluated in Coq is also tested against the precondition of the theorems (wf_cpsb, proved sound for wf_cps): a '
               'generated in-domain case outside wf_cps is reported by the runner like a model mismatch; C17_quantified_inputs_are_wellformed '
               'proves that the class above implies wf_cps',
               'statement oracle: strict advance on every step inside the span except the wrap (from a phase >= 0 to -pi, landing on a '
               'trough); linearity between cyclepoints is not in the statement and is checked by the model comparison only']
TRUST = ['np.interp is modelled as piecewise-linear interpolation with constant extension']


def _placements(n):
    def rec(start, acc):
        if len(acc) >= 2:
            yield list(acc)
        for i in range(start, n):
            yield from rec(i + 2, acc + [i])
    yield from rec(0, [])


def _kinds(ext, first_peak):
    peaks = [e for k, e in enumerate(ext) if (k % 2 == 0) == first_peak]
    troughs = [e for k, e in enumerate(ext) if (k % 2 == 0) != first_peak]
    return peaks, troughs


def _mid_lists(ext, first_peak, mids, lead, trail):
    """One midpoint per flank (mids), optionally one before the first (lead) / after the last (trail) extremum."""
    rises, decays = [], []
    for k, m in enumerate(mids):
        a_is_peak = (k % 2 == 0) == first_peak
        (decays if a_is_peak else rises).append(m)
    if lead is not None:        # the flank coming from an extremum outside the array
        (rises if first_peak else decays).insert(0, lead)
    if trail is not None:
        last_is_peak = ((len(ext) - 1) % 2 == 0) == first_peak
        (decays if last_is_peak else rises).append(trail)
    return rises, decays


# how the `sig` argument is stored (the property quantifies over cyclepoint sets; `sig` is "the time series" they were found on and
# only its length can matter): dtype, content, flags.  None = float64 (zeros for placements, the recording for generated signals)
SIG_STORE = ['float32', 'float32', 'float16', 'int16', 'int64', 'int32', 'bool', 'readonly', 'strided', 'ones', 'ramp', 'nan_edges',
             'float32_readonly', 'uint8']
CP_STORE = [None] * 8 + ['int32', 'readonly']


def _store(rng, c):
    """draw the storage variants of one case: 45 % a non-default `sig`, independently 20 % int32 / read-only index arrays"""
    if rng.random() < 0.45:
        c['sigv'] = rng.choice(SIG_STORE)
    cp = rng.choice(CP_STORE)
    if cp:
        c['cpv'] = cp
    return c


def _sig_arg(n, sig, v):
    """the array handed over as `sig`: n samples, stored as the variant says"""
    base = np.zeros(n) if sig is None else np.array(sig, dtype=float)
    if v is None:
        return base
    if sig is None and v in ('ones', 'ramp'):
        base = np.ones(n) if v == 'ones' else np.linspace(-3.0, 3.0, n)
    scaled = base if sig is None else base / (np.max(np.abs(base)) + 1e-300)
    if v in ('float32', 'float16'):
        return base.astype(v) if sig is None else scaled.astype(v)
    if v in ('int16', 'int64', 'int32'):
        return np.round(scaled * 1000).astype(v)
    if v == 'uint8':
        return np.round(scaled * 100 + 128).astype(np.uint8)
    if v == 'bool':
        return base > 0
    if v == 'readonly' or v == 'float32_readonly':
        x = base.astype(np.float32) if v == 'float32_readonly' else base.copy()
        x.setflags(write=False)
        return x
    if v == 'strided':
        x = np.zeros(2 * n)
        x[::2] = base
        return x[::2]
    if v == 'nan_edges':
        x = base.copy()
        x[:1] = np.nan
        x[-1:] = np.nan
        return x
    return base            # ones / ramp


def _idx(xs, v):
    if xs is None:
        return None
    a = np.array(xs, dtype=np.int32 if v == 'int32' else int)
    if v == 'readonly':
        a.setflags(write=False)
    return a


def _case(n, peaks, troughs, rises, decays, mode, tag):
    return {'kind': 'exhaustive/%s/%s' % (tag, mode), 'n': n, 'peaks': peaks, 'troughs': troughs,
            'rises': None if mode == 'decays_only' else rises, 'decays': None if mode == 'rises_only' else decays}


def _long_case(rng):
    """Slow rhythms at a high sampling rate: hand-placed cyclepoints on arrays of 15 000 - 40 000 samples whose half-cycles
    are a mix of very short (3 samples) and very long (up to 12 000 samples) ones.  The rational phase model is
    quadratic in the array length, so these cases are judged by the statement oracle alone (kind long/...)."""
    n = rng.choice([15000, 24000, 40000])
    ext = [rng.randint(0, 60)]
    while True:
        nxt = ext[-1] + rng.choice([3, 10, 200, 3000, 6500, 6500, 9000, 12000])
        if nxt > n - 1:
            break
        ext.append(nxt)
    if len(ext) < 2:
        ext.append(n - 1)
    first_peak = rng.random() < 0.5
    peaks, troughs = _kinds(ext, first_peak)
    mids = [rng.randint(a, b) for a, b in zip(ext, ext[1:])]
    lead = rng.randint(0, ext[0] - 1) if ext[0] > 0 and rng.random() < 0.5 else None
    trail = rng.randint(ext[-1] + 1, n - 1) if ext[-1] < n - 1 and rng.random() < 0.5 else None
    rises, decays = _mid_lists(ext, first_peak, mids, lead, trail)
    mode = rng.choice(['both', 'none', 'none', 'rises_only', 'decays_only'])
    c = _case(n, peaks, troughs, rises, decays, 'both' if mode == 'none' else mode, 'long')
    if mode == 'none':
        c['rises'] = c['decays'] = None
    c['kind'] = 'long/' + mode
    return c


def cases(rng, tier):
    out = []
    L, E = MAX_N[tier], ENUM_N[tier]
    for n in range(3, L + 1):
        for ext in _placements(n):
            for first_peak in (True, False):
                peaks, troughs = _kinds(ext, first_peak)
                out.append(_store(rng, {'kind': 'exhaustive/nomid', 'n': n, 'peaks': peaks, 'troughs': troughs, 'rises': None, 'decays': None}))
                if n <= E:
                    # every midpoint placement; 'rises_only' / 'decays_only' projections are deduplicated
                    seen = set()
                    leads = [None] + list(range(0, ext[0]))
                    trails = [None] + list(range(ext[-1] + 1, n))
                    for mids in itertools.product(*[range(a, b + 1) for a, b in zip(ext, ext[1:])]):
                        for lead in leads:
                            for trail in trails:
                                rises, decays = _mid_lists(ext, first_peak, mids, lead, trail)
                                for mode in ('both', 'rises_only', 'decays_only'):
                                    c = _case(n, peaks, troughs, rises, decays, mode, 'allmid')
                                    key = (None if c['rises'] is None else tuple(c['rises']), None if c['decays'] is None else tuple(c['decays']))
                                    if key not in seen:
                                        seen.add(key)
                                        out.append(_store(rng, c))
                    continue
                for _ in range(2):
                    mids = [rng.randint(a, b) for a, b in zip(ext, ext[1:])]
                    lead = rng.randint(0, ext[0] - 1) if ext[0] > 0 and rng.random() < 0.5 else None
                    trail = rng.randint(ext[-1] + 1, n - 1) if ext[-1] < n - 1 and rng.random() < 0.5 else None
                    rises, decays = _mid_lists(ext, first_peak, mids, lead, trail)
                    mode = rng.choice(['both', 'both', 'rises_only', 'decays_only'])
                    out.append(_store(rng, _case(n, peaks, troughs, rises, decays, mode, 'mid')))
    for _ in range(6 if tier == 'quick' else 40):
        out.append(_store(rng, _long_case(rng)))
    nsig = 70 if tier == 'quick' else 700
    for _ in range(nsig):
        s = gen.signal(rng, max_len=260)
        out.append(_store(rng, {'kind': 'signal/' + s['kind'], 'sig': gen.hexlist(s['sig']), 'fs': s['fs'], 'f_range': list(s['f_range']),
                                'boundary': rng.choice([0, 0, 1, 5]), 'first': rng.choice(['peak', 'trough', None]),
                                'mid': rng.choice(['both', 'both', 'none', 'rises_only', 'decays_only'])}))
    return out


def out_of_domain(n, p, t, r, d):
    """Reason why a cyclepoint set is outside the class the property quantifies over (None = inside).
    The class: >= 1 peak and >= 1 trough, alternating, consecutive extrema >= 2 samples apart, all indices inside the
    array; every supplied midpoint that does not coincide with an extremum lies on a flank of its kind (rise: the
    nearest extremum before it, if any, is a trough and the nearest after it, if any, is a peak; decay: mirrored), and
    there is at most one such midpoint of a kind per flank.  (Proofs/Phase.v: cps_domain, cps_domain_wf.)"""
    if len(p) == 0 or len(t) == 0:
        return 'no extrema'
    allp = list(p) + list(t) + list(r or []) + list(d or [])
    if any(i < 0 or i >= n for i in allp):
        return 'cyclepoint outside the array'
    ext = sorted([(i, 'p') for i in p] + [(i, 't') for i in t])
    if any(b[0] - a[0] < 2 for a, b in zip(ext, ext[1:])):
        return 'extrema closer than two samples'
    if any(a[1] == b[1] for a, b in zip(ext, ext[1:])):
        return 'extrema do not alternate'
    pos = [e[0] for e in ext]
    eset = set(pos)
    for ms, before, after in ((r, 't', 'p'), (d, 'p', 't')):
        gaps = set()
        for m in sorted(set(ms or [])):
            if m in eset:
                continue
            j = bisect.bisect_left(pos, m)
            if (j > 0 and ext[j - 1][1] != before) or (j < len(ext) and ext[j][1] != after):
                return 'midpoint outside its flank'
            if j in gaps:
                return 'two midpoints of a kind on one flank'
            gaps.add(j)
    return None


def _cps(c):
    if not c['kind'].startswith('signal'):
        return c['n'], c['peaks'], c['troughs'], c['rises'], c['decays'], None
    from bycycle.cyclepoints import find_extrema, find_zerox
    sig = gen.unhexlist(c['sig'])
    p, t = find_extrema(sig, c['fs'], tuple(c['f_range']), boundary=c['boundary'], first_extrema=c['first'])
    r = d = None
    if c['mid'] != 'none':
        r, d = find_zerox(sig, p, t)
        r, d = [int(x) for x in r], [int(x) for x in d]
        if c['mid'] == 'rises_only':
            d = None
        elif c['mid'] == 'decays_only':
            r = None
    return len(sig), [int(x) for x in p], [int(x) for x in t], r, d, sig


def run_impl(c):
    from bycycle.cyclepoints import extrema_interpolated_phase
    try:
        n, p, t, r, d, sig = _cps(c)
    except Exception as e:
        return {'skip': 'cyclepoints raised %s' % exc_kind(e)}
    why = out_of_domain(n, p, t, r, d)
    if why:
        return {'skip': why}
    out = {'n': n, 'peaks': p, 'troughs': t, 'rises': r, 'decays': d}
    x = _sig_arg(n, sig, c.get('sigv'))
    cpv = c.get('cpv')
    try:
        pha = extrema_interpolated_phase(x, _idx(p, cpv), _idx(t, cpv), _idx(r, cpv), _idx(d, cpv))
        out['pha'] = [None if math.isnan(v) else float(v) for v in np.asarray(pha, dtype=float)]
    except Exception as e:
        out['err'] = exc_kind(e)
        out['msg'] = str(e)[:120]
    return out


def oracle(c, o):
    if 'skip' in o:
        return None
    if 'err' in o:
        return 'raised %s (%s)' % (o['err'], o.get('msg'))
    pha = o['pha']
    n = o['n']
    if len(pha) != n:
        return 'one value per sample expected'
    p, t = o['peaks'], o['troughs']
    r, d = o['rises'] or [], o['decays'] or []
    allc = sorted(set(p + t + r + d))
    F, Lx = allc[0], allc[-1]
    for i, v in enumerate(pha):
        if i < F or i > Lx:
            if v is not None:
                return 'sample %d outside the span [%d, %d] of the cyclepoints is finite (%r)' % (i, F, Lx, v)
        elif v is None:
            return 'sample %d inside the span [%d, %d] of the cyclepoints is NaN' % (i, F, Lx)
    tol = 1e-9
    for i in p:
        if abs(pha[i]) > tol:
            return 'phase at peak %d is %r, expected 0' % (i, pha[i])
    for i in t:
        if abs(abs(pha[i]) - math.pi) > tol:
            return 'phase at trough %d is %r, expected +-pi' % (i, pha[i])
    ext = set(p + t)
    for i in r:
        if i not in ext and abs(pha[i] + math.pi / 2) > tol:
            return 'phase at rise midpoint %d is %r, expected -pi/2' % (i, pha[i])
    for i in d:
        if i not in ext and abs(pha[i] - math.pi / 2) > tol:
            return 'phase at decay midpoint %d is %r, expected +pi/2' % (i, pha[i])
    for i in range(F, Lx + 1):
        if not (-math.pi - tol <= pha[i] <= math.pi + tol):
            return 'phase %r outside [-pi, pi] at sample %d' % (pha[i], i)
    # "between consecutive cyclepoints advances monotonically, the only decreases being the +pi to -pi wrap at
    # troughs": every step inside the span is a (strict) advance, except a step that lands on a trough, takes the
    # value -pi there and comes from a phase that had advanced past the peak (>= 0).  Linearity is not in the statement.
    ts = set(t)
    for i in range(F, Lx):
        a, b = pha[i], pha[i + 1]
        if b > a:
            continue
        if (i + 1) in ts and abs(b + math.pi) <= tol and a >= -tol:
            continue
        if (i + 1) in ts:
            return 'step into trough %d is neither an advance nor the wrap from a phase >= 0 to -pi (%r -> %r)' % (i + 1, a, b)
        return 'phase does not advance from sample %d to %d (%r -> %r) away from a trough' % (i, i + 1, a, b)
    return None


def nontrivial(c, o):
    return 'pha' in o and len(o['peaks']) + len(o['troughs']) >= 3


_STORAGE = {}


def kind_of(c, o):
    if 'pha' in o or 'err' in o:
        k = 'sig:%s' % (c.get('sigv') or 'float64')
        _STORAGE[k] = _STORAGE.get(k, 0) + 1
        k = 'cyclepoints:%s' % (c.get('cpv') or 'int64')
        _STORAGE[k] = _STORAGE.get(k, 0) + 1
    return c['kind'] + ('/skip: ' + o['skip'] if 'skip' in o else '/err' if 'err' in o else '')


def extra_evidence():
    return {'argument_storage_of_judged_cases': dict(sorted(_STORAGE.items()))}


def _nl(xs):
    return coqio.lst([str(int(x)) for x in xs], 'nat') if xs else '(@nil nat)'


def coq_case(c, o):
    if 'skip' in o or c['kind'].startswith('long/'):
        return None
    inp = '(%d%%nat, %s, %s, %s, %s)' % (o['n'], _nl(o['peaks']), _nl(o['troughs']),
                                        'None' if o['rises'] is None else '(Some %s)' % _nl(o['rises']),
                                        'None' if o['decays'] is None else '(Some %s)' % _nl(o['decays']))
    if 'err' in o:
        em = {'Value': 'EValue', 'Index': 'EIndex', 'Stop': 'EOther'}
        return inp, '(Err %s)' % em.get(o['err'], 'EKey')
    items = ['None' if v is None else '(Some %s%%Z)' % coqio.Z(int(round(v / (math.pi / 2) * 1e9))) for v in o['pha']]
    return inp, '(Ok %s)' % coqio.lst(items)


def shrink(c):
    return []
