"""C10 — covariance with amplitude and sampling-rate units (pipeline model + metamorphic search)."""
from harness import pipeline
from harness.pipeline import COQ_HEADER, COQ_RUNNER, COQ_TYPES, SHARD, coq_case, kind_of, extra_evidence, TRUST

PROP = 'C10'
PROPS_FILE = 'Props/C10.v'
RULE = ('compute_features on generated signals at 8 sampling rates (the wide C01 stream: off-band / narrow / wide bands, '
        'non-integer fs, int64 samples, empty option dictionaries, option keys in random order, detector filter_kwargs); '
        'metamorphic replays sig*2^k (k in -100..100, so that absolute tolerances hidden in the code show), in half of the '
        'cases on the SAME ndarray object rescaled in place (sig *= 2^k, restored afterwards), and (c*fs, c*f_range) for c '
        'in {2, 4, 1/2} with every setting given in seconds (n_seconds of either filter, min_burst_duration) divided by c; '
        '35 % of the cases are preceded (and some interleaved) in the same process by 1-4 calls of the public helpers of '
        'bycycle.utils.dataframes with every documented flag value on scratch tables (`history`). Column sets of the base, '
        'Independently of everything else ~30 % of the cases make the judged analysis on an ndarray object that was '
        'first filled with another signal of the same length and analysed once with the same option objects, then '
        'refilled in place (`prebuffer`); ~20 % pass every array of the case read-only (WRITEABLE flag cleared); ~20 % '
        "make 1-2 rejected calls (mis-spelt key put into the caller's own find_extrema_kwargs / threshold_kwargs and "
        "taken out again, invalid f_range, centre or burst method) on the case's own array and option objects directly "
        'before the judged analysis; a read-only case passes the rescaled array read-only as well (an in-place '
        'rescaling unlocks the array for the edit only); all oracles and the model comparison apply to the judged '
        'analysis unchanged (counters in the evidence). '
        '~15 % of the cases (kind +len, drawn from a generator seeded with the case content; all other cases are '
        'unchanged) have fs, the band (f_lo, 2 f_lo, rhythm inside) and one length option re-chosen from a table '
        'derived by search, so that a length the analysis converts to samples with a ceil -- fs * n_cycles / '
        'f_lo or fs * n_seconds of the extrema filter, of the band_amp envelope (3 cycles; n_cycles of a direct '
        "compute_shape_features call) or of the detector's filter, min_n_cycles * fs / f_lo or "
        'min_burst_duration * fs of the detector -- is exactly an odd / even integer or one ulp beside one, in '
        '80 % where the mathematically equivalent binary64 computations of it disagree after the ceil; half of '
        "these cases with broadband noise added to the samples (+rough); reference kernels get the caller's "
        'arguments as they are.  '
        'rescaled and fs-replayed tables compared; each base table compared with the Coq pipeline model (which has no fs '
        'argument at all); non-trivial = >= 3 rows and a label of each value')
ASSUMPTIONS = ['power-of-two amplitude factors (exact in binary64 absent over/underflow)',
               'known finding (known_findings.txt): cases whose filters neurodsp accepts at (fs, f_range) but rejects at '
               '(c*fs, c*f_range) (its frequency-response check has a fixed 0.25 Hz resolution) are tagged '
               'kernel_rejects_fs_replay; the replay raising there is reported as KNOWN-FINDING',
               'fs replay: filter lengths given in cycles as they are; lengths / durations given in seconds are divided by '
               'the same constant (same number of samples)',
               'band_amp and the filter taps may differ in the last bits under fs scaling: tables compared at 1e-7']


def cases(rng, tier):
    n = 135 if tier == 'quick' else 1350
    out = []
    for _ in range(n):
        c = pipeline.gen_case(rng, tier, wide=True, amp_wide=True,
                              extra={'scale_pow': rng.choice([-100, -60, -40, -30, -20, -7, -1, 1, 3, 10, 20, 40, 100]),
                                     'fs_mult': rng.choice([2, 4, 0.5])})
        c['scale_inplace'] = rng.random() < 0.5
        if rng.random() < 0.35:
            c['history'] = pipeline.gen_history(rng)
        # KNOWN FINDING (known_findings.txt, DESIGN section 5): neurodsp checks a filter's frequency response at a fixed
        # resolution of 0.25 Hz, so a band with a very low edge is accepted at (fs, f_range) and rejected with
        # "Invalid transition band" at (c*fs, c*f_range); compute_features then raises on the replay only.  Exactly the
        # cases in which the reference kernel accepts every filter of the analysis at the base rate and rejects one at
        # the replay rate are tagged; their fs replay is still run and judged.
        if not fs_replay_accepted(c):
            c['kernel_rejects_fs_replay'] = True
        out.append(c)
    # cases that carry their own history first: a failure caused by state that a history leaves behind is then reported
    # (lowest index first) on a case that reproduces it when replayed alone in a fresh process
    out.sort(key=lambda c: 0 if c.get('history') else 1)
    return out


def fs_replay_accepted(c):
    from harness import ref
    rs = pipeline.resolved(c)
    m, n = c['fs_mult'], len(c['sig'])
    filters = [rs['fk'], {'n_cycles': 3}]                       # extrema filter, envelope of band_amp
    if c['method'] == 'amp':
        filters.append(rs['bk_filter_kwargs'] or {'n_cycles': 3})
    for fk in filters:
        fk2 = dict(fk, n_seconds=fk['n_seconds'] / m) if 'n_seconds' in fk else fk
        base = ref.filter_accepts(n, c['fs'], c['f_range'], fk)
        repl = ref.filter_accepts(n, c['fs'] * m, [c['f_range'][0] * m, c['f_range'][1] * m], fk2)
        if base and not repl:
            return False
    return True


run_impl = pipeline.run_pipe


def oracle(c, o):
    return pipeline.with_context(c, pipeline.oracle_scale(c, o))


def nontrivial(c, o):
    return pipeline.nontrivial_table(c, o, need_labels=True)
