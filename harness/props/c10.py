"""C10 — covariance with amplitude and sampling-rate units (pipeline model + metamorphic search)."""
from harness import pipeline
from harness.pipeline import COQ_HEADER, COQ_RUNNER, COQ_TYPES, SHARD, coq_case, kind_of, TRUST

PROP = 'C10'
PROPS_FILE = 'Props/C10.v'
RULE = ('compute_features on generated signals at 8 sampling rates; metamorphic replays sig*2^k (k in -100..100, so that absolute tolerances hidden in the code show) and '
        '(c*fs, c*f_range) for c in {2, 4, 1/2}; each base table compared with the Coq pipeline model (which has no fs '
        'argument at all); non-trivial = >= 3 rows and a label of each value')
ASSUMPTIONS = ['power-of-two amplitude factors (exact in binary64 absent over/underflow)',
               'filter length given in cycles for the fs replay (n_seconds cases skip it)',
               'band_amp and the filter taps may differ in the last bits under fs scaling: tables compared at 1e-7']


def cases(rng, tier):
    n = 90 if tier == 'quick' else 900
    out = []
    for _ in range(n):
        out.append(pipeline.gen_case(rng, tier, extra={'scale_pow': rng.choice([-100, -60, -40, -30, -20, -7, -1, 1, 3, 10, 20, 40, 100]),
                                                        'fs_mult': rng.choice([2, 4, 0.5])}))
    return out


run_impl = pipeline.run_pipe
oracle = pipeline.oracle_scale


def nontrivial(c, o):
    return pipeline.nontrivial_table(c, o, need_labels=True)
