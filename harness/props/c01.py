"""C01 — compute_features returns a complete, ordered, gap-free segmentation (pipeline model Model/Features.v)."""
from harness import pipeline
from harness.pipeline import COQ_HEADER, COQ_RUNNER, COQ_TYPES, SHARD, coq_case, kind_of, TRUST

PROP = 'C01'
PROPS_FILE = 'Props/C01.v'
RULE = ('compute_features on generated signals (11 kinds x 8 sampling rates, 150-480 samples, >= 7 cycles) over the option '
        'grid centre x burst method x return_samples x find_extrema_kwargs {None, boundary, n_cycles, n_seconds, pad} x '
        'threshold / burst options; every sample column, feature column, label and the row count compared with the Coq '
        'pipeline model; statement oracle checks ordering, bounds, tiling. non-trivial = table with >= 3 rows')
ASSUMPTIONS = ['signals finite, longer than the filter, >= 3 oscillations in band',
               'library-level exceptions cannot be exhibited by the model: "returns a table instead of raising" is '
               'established for the real code only on the explored grid']


def cases(rng, tier):
    n = 140 if tier == 'quick' else 1400
    return [pipeline.gen_case(rng, tier) for _ in range(n)]


run_impl = pipeline.run_pipe
oracle = pipeline.oracle_structure


def nontrivial(c, o):
    return pipeline.nontrivial_table(c, o)
