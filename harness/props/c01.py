"""C01 — compute_features / Bycycle.fit return a complete, ordered, gap-free segmentation (pipeline model Model/Features.v)."""
from harness import pipeline
from harness.pipeline import COQ_HEADER, COQ_RUNNER, COQ_TYPES, SHARD, coq_case, kind_of, extra_evidence, TRUST

PROP = 'C01'
PROPS_FILE = 'Props/C01.v'
RULE = ('compute_features on generated signals (12 kinds x 8 sampling rates, 150-480 samples, >= 7 cycles; ~20 % with a band '
        'that misses the rhythm / a narrow / a wide band, ~15 % non-integer or float fs, f_range as list or tuple, ~10 % int64 '
        'and ~6 % float32 samples) over the option grid centre x burst method x return_samples x find_extrema_kwargs {None, '
        'boundary, n_cycles, n_seconds, pad} x threshold / burst options (including empty dictionaries); every 4th case '
        'also through Bycycle(...).fit / df_features with the same option objects. Every sample column, feature column, label '
        'and the row count compared with the Coq pipeline model (float32 cases: statement oracle only; kind suffix /model-void '
        '= model answers EDegenerate, comparison void); the column set, the return_samples=False table and the Bycycle.fit '
        'table are compared with the documented set / the compute_features table at harness level (reported through the '
        'model comparison). Statement oracle: table instead of raising when the reference band-pass has >= 3 full '
        'oscillations beyond the boundary; one row per cycle of the reference band-pass (closed half-waves whose raw '
        'extremum survives the boundary) with every row inside its own half-waves; ordering, bounds, tiling; the same on '
        'the Bycycle.fit table. '
        'Independently of everything else ~30 % of the cases make the judged analysis on an ndarray object that was '
        'first filled with another signal of the same length and analysed once with the same option objects, then '
        'refilled in place (`prebuffer`); ~20 % pass every array of the case read-only (WRITEABLE flag cleared); ~20 % '
        "make 1-2 rejected calls (mis-spelt key put into the caller's own find_extrema_kwargs / threshold_kwargs and "
        "taken out again, invalid f_range, centre or burst method) on the case's own array and option objects directly "
        'before the judged analysis; all oracles and the model comparison apply to the judged analysis unchanged '
        '(counters in the evidence). '
        '~15 % of the cases (kind +len, drawn from a generator seeded with the case content; all other cases are '
        'unchanged) have fs, the band (f_lo, 2 f_lo, rhythm inside) and one length option re-chosen from a table '
        'derived by search, so that a length the analysis converts to samples with a ceil -- fs * n_cycles / '
        'f_lo or fs * n_seconds of the extrema filter, of the band_amp envelope (3 cycles; n_cycles of a direct '
        "compute_shape_features call) or of the detector's filter, min_n_cycles * fs / f_lo or "
        'min_burst_duration * fs of the detector -- is exactly an odd / even integer or one ulp beside one, in '
        '80 % where the mathematically equivalent binary64 computations of it disagree after the ceil; half of '
        "these cases with broadband noise added to the samples (+rough); reference kernels get the caller's "
        'arguments as they are.  '
        'non-trivial = table with >= 3 rows')
ASSUMPTIONS = ['signals finite, longer than the filter, >= 3 oscillations in band',
               'library-level exceptions cannot be exhibited by the model: "returns a table instead of raising" is '
               'established for the real code only on the explored grid',
               'row-count clause skipped when survival of an extremum at the boundary depends on tie resolution']


def cases(rng, tier):
    n = 150 if tier == 'quick' else 1500
    out = [pipeline.gen_case(rng, tier, wide=True, f32=True, extra={'fit': i % 4 == 0}) for i in range(n)]
    # the smallest tables: recordings 1-3 samples longer than the 3-cycle kernel of a band whose low edge is close to the rhythm
    out += [pipeline.gen_case(rng, tier, methods=('cycles', 'cycles', 'amp'), fek_prob=0.0, extra={'fit': i % 2 == 0}, short='force', exact_k=None, other=False)
            for i in range(10 if tier == 'quick' else 60)]
    return out


run_impl = pipeline.run_pipe


def oracle(c, o):
    return pipeline.with_context(c, pipeline.oracle_structure(c, o))


def nontrivial(c, o):
    return pipeline.nontrivial_table(c, o)
