"""C08 — check_min_burst_cycles vs Model/Runs.v (minrun and the code-shaped minrun_code)."""
import numpy as np
from harness import coqio
from harness.core import exc_kind

PROP = 'C08'
PROPS_FILE = 'Props/C08.v'
COQ_HEADER = 'From Coq Require Import List NArith. Import ListNotations.\nFrom ByC Require Import Harness.Compare Model.Runs.'
COQ_RUNNER = 'bad_minrun'
SHARD = 4000
RULE = ('every boolean array of length <= L (quick L=10, thorough L=13) x every min_n_cycles in 0..len+2, '
        'plus run-length-biased random arrays up to 1500 cycles; non-trivial = the array contains both a run '
        'that is kept and a run that is cleared, or a run touching an end of the array')
EXHAUSTIVE = {'quick': True, 'thorough': True}
ASSUMPTIONS = ['min_n_cycles is a non-negative integer and the input is a boolean numpy array (other inputs '
               'are only checked to raise ValueError)']


def cases(rng, tier):
    L = 10 if tier == 'quick' else 13
    out = []
    for ln in range(0, L + 1):
        for m in range(1 << ln):
            for n in range(0, ln + 3):
                out.append({'kind': 'exhaustive', 'len': ln, 'mask': m, 'n': n})
    nrand = 300 if tier == 'quick' else 3000
    for _ in range(nrand):
        ln = rng.choice([20, 50, 100, 400, 1500])
        bits, cur = [], rng.random() < 0.5
        mean = rng.choice([1, 2, 3, 5, 9])
        while len(bits) < ln:
            k = 1 + int(rng.expovariate(1.0 / mean))
            bits.extend([cur] * k)
            cur = not cur
        bits = bits[:ln]
        out.append({'kind': 'random', 'len': ln, 'mask': coqio.mask_of(bits), 'n': rng.choice([0, 1, 2, 3, 4, 5, 7, 12])})
    out.append({'kind': 'invalid', 'len': 4, 'mask': 6, 'n': -1})
    out.append({'kind': 'invalid_list', 'len': 4, 'mask': 6, 'n': 2})
    return out


def _bits(c):
    return [bool((c['mask'] >> i) & 1) for i in range(c['len'])]


def run_impl(c):
    from bycycle.burst.utils import check_min_burst_cycles
    arr = np.array(_bits(c), dtype=bool)
    try:
        if c['kind'] == 'invalid_list':
            r = check_min_burst_cycles(list(arr), min_n_cycles=c['n'])
        else:
            r = check_min_burst_cycles(arr.copy(), min_n_cycles=c['n'])
            r2 = check_min_burst_cycles(np.array(r, dtype=bool).copy(), min_n_cycles=c['n'])
    except Exception as e:
        return {'err': exc_kind(e)}
    r = np.asarray(r)
    return {'len': int(r.shape[0]) if r.ndim == 1 else -1, 'mask': coqio.mask_of([bool(x) for x in r]),
            'twice': coqio.mask_of([bool(x) for x in np.asarray(r2)])}


def _spec(bits, n):
    out, i = [False] * len(bits), 0
    while i < len(bits):
        if bits[i]:
            j = i
            while j < len(bits) and bits[j]:
                j += 1
            if j - i >= n:
                for k in range(i, j):
                    out[k] = True
            i = j
        else:
            i += 1
    return out


def oracle(c, o):
    if c['kind'].startswith('invalid'):
        return None if o.get('err') == 'Value' else 'invalid input accepted or wrong error: %s' % o
    if 'err' in o:
        return 'raised %s on a valid input' % o['err']
    if o['len'] != c['len']:
        return 'length changed: %d -> %d' % (c['len'], o['len'])
    want = coqio.mask_of(_spec(_bits(c), c['n']))
    if o['mask'] != want:
        if o['mask'] & ~c['mask']:
            return 'a False became True'
        return 'runs not kept/cleared as a whole: got %s want %s' % (bin(o['mask']), bin(want))
    if o['twice'] != o['mask']:
        return 'not idempotent'
    return None


def nontrivial(c, o):
    if c['kind'].startswith('invalid') or 'err' in o:
        return False
    m, ln = c['mask'], c['len']
    edge = ln > 0 and ((m & 1) or (m >> (ln - 1)) & 1)
    return bool((o['mask'] != 0 and o['mask'] != m) or (edge and m != 0 and c['n'] >= 2))


def coq_case(c, o):
    if c['kind'].startswith('invalid') or 'err' in o:
        return None
    return ('(%s, %d%%nat)' % (coqio.barr(c['len'], c['mask']), c['n']), coqio.barr(max(o['len'], 0), o['mask']))


def shrink(c):
    bits = _bits(c)
    for i in range(len(bits)):
        b = bits[:i] + bits[i + 1:]
        yield {'kind': 'shrunk', 'len': len(b), 'mask': coqio.mask_of(b), 'n': c['n']}
    if c['n'] > 0:
        yield dict(c, n=c['n'] - 1, kind='shrunk')
