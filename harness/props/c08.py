"""C08 — check_min_burst_cycles vs Model/Runs.v (minrun and the code-shaped minrun_code), through the entry point
`check_min_burst_cycles` of Model/TableRuns.v (argument checks and result dtype are pinned there, not in the oracle)."""
import numpy as np
from harness import coqio
from harness.core import exc_kind

PROP = 'C08'
PROPS_FILE = 'Props/C08.v'
COQ_HEADER = ('From Coq Require Import List NArith ZArith. Import ListNotations.\n'
              'From ByC Require Import Base.Result Harness.Compare Model.Runs Model.TableRuns.')
COQ_RUNNER = 'bad_check_min'
COQ_TYPES = ('cm_in', 'lab_obs')
SHARD = 4000
RULE = ('every boolean array of length <= L (quick L=10, thorough L=13) x every min_n_cycles in 0..len+2, '
        'plus run-length-biased random arrays up to 1500 cycles (a quarter of them passed as strided views of a '
        'larger array); non-trivial = the array contains both a run that is kept and a run that is cleared, or a '
        'run touching an end of the array. Inputs outside the quantifier (negative min_n_cycles, Python lists, '
        'negative count with an empty array) are generated too but judged by the model comparison only')
EXHAUSTIVE = {'quick': True, 'thorough': True}
ASSUMPTIONS = ['the statement oracle judges boolean numpy arrays with an integer min_n_cycles >= 0 (the quantifier of '
               'the property); for negative counts and list arguments, and for the dtype of the returned array '
               '(boolean), only the model comparison applies (Model/TableRuns.v check_min_burst_cycles: ValueError, '
               'early return of an empty array, bool dtype); float-valued counts are not generated (min_n_cycles is '
               'documented as an int)',
               'label values are read through bool(); an idempotence failure is judged on those values']
ERRMAP = {'Value': 'EValue', 'Index': 'EIndex', 'Key': 'EKey', 'Type': 'EType'}


def cases(rng, tier):
    L = 10 if tier == 'quick' else 13
    out = []
    for ln in range(0, L + 1):
        for m in range(1 << ln):
            for n in range(0, ln + 3):
                out.append({'kind': 'exhaustive', 'len': ln, 'mask': m, 'n': n})
    nrand = 300 if tier == 'quick' else 3000
    for _ in range(nrand):
        ln = rng.choice([20, 50, 100, 400, 1500])
        bits, cur = [], rng.random() < 0.5
        mean = rng.choice([1, 2, 3, 5, 9])
        while len(bits) < ln:
            k = 1 + int(rng.expovariate(1.0 / mean))
            bits.extend([cur] * k)
            cur = not cur
        bits = bits[:ln]
        out.append({'kind': 'random', 'len': ln, 'mask': coqio.mask_of(bits), 'n': rng.choice([0, 1, 2, 3, 4, 5, 7, 12])})
    for c in out:
        if c['kind'] == 'random':
            c['view'] = rng.random() < 0.25      # passed as a strided view of a larger array
    # outside the property's quantifier: kept for the model comparison, never judged by the oracle
    out.append({'kind': 'invalid', 'len': 4, 'mask': 6, 'n': -1})
    out.append({'kind': 'invalid', 'len': 0, 'mask': 0, 'n': -1})
    out.append({'kind': 'invalid_list', 'len': 4, 'mask': 6, 'n': 2})
    out.append({'kind': 'invalid_list', 'len': 0, 'mask': 0, 'n': 0})
    for _ in range(8 if tier == 'quick' else 40):
        ln = rng.choice([0, 1, 2, 3, 6, 9])
        out.append({'kind': rng.choice(['invalid', 'invalid', 'invalid_list']), 'len': ln, 'mask': rng.getrandbits(ln) if ln else 0,
                    'n': rng.choice([-1, -2, -7])})
    return out


def _bits(c):
    return [bool((c['mask'] >> i) & 1) for i in range(c['len'])]


def run_impl(c):
    from bycycle.burst.utils import check_min_burst_cycles
    arr = np.array(_bits(c), dtype=bool)
    if c.get('view'):
        # the same values as a non-contiguous view (every second element of a larger array)
        big = np.zeros(2 * len(arr), dtype=bool)
        big[::2] = arr
        arr = big[::2]
    else:
        arr = arr.copy()
    try:
        r = check_min_burst_cycles([bool(x) for x in arr] if c['kind'] == 'invalid_list' else arr, min_n_cycles=c['n'])
        isbool = bool(getattr(r, 'dtype', None) == np.bool_)
        r = np.asarray(r)
        r2 = check_min_burst_cycles(np.array(r, dtype=bool).copy(), min_n_cycles=c['n'])
    except Exception as e:
        return {'err': exc_kind(e)}
    return {'len': int(r.shape[0]) if r.ndim == 1 else -1, 'mask': coqio.mask_of([bool(x) for x in r.ravel()]),
            'twice': coqio.mask_of([bool(x) for x in np.asarray(r2).ravel()]), 'dtype_bool': isbool}


def _spec(bits, n):
    out, i = [False] * len(bits), 0
    while i < len(bits):
        if bits[i]:
            j = i
            while j < len(bits) and bits[j]:
                j += 1
            if j - i >= n:
                for k in range(i, j):
                    out[k] = True
            i = j
        else:
            i += 1
    return out


def oracle(c, o):
    if c['kind'].startswith('invalid'):
        return None      # outside the quantifier (boolean arrays, min_n_cycles >= 0): model comparison only
    if 'err' in o:
        return 'raised %s on a valid input' % o['err']
    if o['len'] != c['len']:
        return 'length changed: %d -> %d' % (c['len'], o['len'])
    want = coqio.mask_of(_spec(_bits(c), c['n']))
    if o['mask'] != want:
        if o['mask'] & ~c['mask']:
            return 'a False became True'
        return 'runs not kept/cleared as a whole: got %s want %s' % (bin(o['mask']), bin(want))
    if o['twice'] != o['mask']:
        return 'not idempotent'
    return None


def nontrivial(c, o):
    if c['kind'].startswith('invalid') or 'err' in o:
        return False
    m, ln = c['mask'], c['len']
    edge = ln > 0 and ((m & 1) or (m >> (ln - 1)) & 1)
    return bool((o['mask'] != 0 and o['mask'] != m) or (edge and m != 0 and c['n'] >= 2))


def coq_case(c, o):
    inp = '(%s, %s, %s%%Z)' % ('PyList' if c['kind'] == 'invalid_list' else 'NdArray', coqio.barr(c['len'], c['mask']), coqio.Z(c['n']))
    if 'err' in o:
        return inp, '(Err %s)' % ERRMAP.get(o['err'], 'EOther')
    return inp, '(Ok (%s, %s))' % (coqio.B(o.get('dtype_bool', True)), coqio.barr(max(o['len'], 0), o['mask']))


def shrink(c):
    bits = _bits(c)
    for i in range(len(bits)):
        b = bits[:i] + bits[i + 1:]
        yield {'kind': 'shrunk', 'len': len(b), 'mask': coqio.mask_of(b), 'n': c['n']}
    if c['n'] > 0:
        yield dict(c, n=c['n'] - 1, kind='shrunk')
