"""C08 — check_min_burst_cycles vs Model/Runs.v (minrun and the code-shaped minrun_code), through the entry point
`check_min_burst_cycles` of Model/TableRuns.v (argument checks and result dtype are pinned there, not in the oracle)."""
import numpy as np
from harness import coqio
from harness.core import exc_kind

PROP = 'C08'
PROPS_FILE = 'Props/C08.v'
COQ_HEADER = ('From Coq Require Import List NArith ZArith. Import ListNotations.\n'
              'From ByC Require Import Base.Result Harness.Compare Model.Runs Model.TableRuns.')
COQ_RUNNER = 'bad_check_min'
COQ_TYPES = ('cm_in', 'lab_obs')
SHARD = 4000
RULE = ('every boolean array of length <= L (quick L=10, thorough L=13) x every min_n_cycles in 0..len+2, '
        'plus run-length-biased random arrays up to 1500 cycles (a quarter of them passed as strided views of a '
        'larger array); non-trivial = the array contains both a run that is kept and a run that is cleared, or a '
        'run touching an end of the array. Inputs outside the quantifier (negative min_n_cycles, Python lists, '
        'negative count with an empty array) are generated too but judged by the model comparison only. About half of '
        'the counts are handed over as numpy integer scalars of every width and signedness (int8 .. int64, uint8 .. '
        'uint64, intp, uintp, longlong) instead of a Python int, about 6 % as a float (Python float, float64, float32) '
        'with a value v in (n-1, n], where the rule is applied literally (a run of length L is kept iff L >= v)')
EXHAUSTIVE = {'quick': True, 'thorough': True}
ASSUMPTIONS = ['the statement oracle judges boolean numpy arrays with an integer min_n_cycles >= 0 (the quantifier of '
               'the property); for negative counts and list arguments, and for the dtype of the returned array '
               '(boolean), only the model comparison applies (Model/TableRuns.v check_min_burst_cycles: ValueError, '
               'early return of an empty array, bool dtype)',
               'the statement says "every min_n_cycles >= 0" and nothing about integrality: where the function '
               'accepts a float-valued count v the oracle applies "length >= v is kept, shorter is cleared" literally '
               '(a run of 2 is shorter than 2.5); a float count that is REJECTED gets no oracle verdict (the parameter '
               'is documented as int) and is left to the model comparison. The Coq model is over Z: it is evaluated at '
               'ceil(v), which gives the same set of kept runs because run lengths are integers',
               'the type of the count (Python int, any numpy integer scalar) is not an input of the model: the '
               'result must not depend on it',
               'label values are read through bool(); an idempotence failure is judged on those values']
ERRMAP = {'Value': 'EValue', 'Index': 'EIndex', 'Key': 'EKey', 'Type': 'EType'}


def cases(rng, tier):
    L = 10 if tier == 'quick' else 13
    out = []
    for ln in range(0, L + 1):
        for m in range(1 << ln):
            for n in range(0, ln + 3):
                out.append({'kind': 'exhaustive', 'len': ln, 'mask': m, 'n': n})
    nrand = 300 if tier == 'quick' else 3000
    for _ in range(nrand):
        ln = rng.choice([20, 50, 100, 400, 1500])
        bits, cur = [], rng.random() < 0.5
        mean = rng.choice([1, 2, 3, 5, 9])
        while len(bits) < ln:
            k = 1 + int(rng.expovariate(1.0 / mean))
            bits.extend([cur] * k)
            cur = not cur
        bits = bits[:ln]
        out.append({'kind': 'random', 'len': ln, 'mask': coqio.mask_of(bits), 'n': rng.choice([0, 1, 2, 3, 4, 5, 7, 12])})
    for c in out:
        if c['kind'] == 'random':
            c['view'] = rng.random() < 0.25      # passed as a strided view of a larger array
    nvalid = len(out)
    # outside the property's quantifier: kept for the model comparison, never judged by the oracle
    out.append({'kind': 'invalid', 'len': 4, 'mask': 6, 'n': -1})
    out.append({'kind': 'invalid', 'len': 0, 'mask': 0, 'n': -1})
    out.append({'kind': 'invalid_list', 'len': 4, 'mask': 6, 'n': 2})
    out.append({'kind': 'invalid_list', 'len': 0, 'mask': 0, 'n': 0})
    for _ in range(8 if tier == 'quick' else 40):
        ln = rng.choice([0, 1, 2, 3, 6, 9])
        out.append({'kind': rng.choice(['invalid', 'invalid', 'invalid_list']), 'len': ln, 'mask': rng.getrandbits(ln) if ln else 0,
                    'n': rng.choice([-1, -2, -7])})
    # how the count is handed over (drawn last: arrays and counts are those of earlier runs).  The property quantifies
    # over every min_n_cycles >= 0 and says nothing about its Python type.
    for i, c in enumerate(out):
        r = rng.random()
        if i >= nvalid:
            if c['kind'] == 'invalid' and r < 0.5:
                c['ntype'] = rng.choice(SIGNED)
            continue
        if r < 0.06:
            c['ntype'] = rng.choice(FLOATS)
            # a value v with ceil(v) == n (exactly representable in float32): n, n-1/4, n-1/2, n-3/4
            c['nval'] = float(c['n']) - (rng.choice([0.0, 0.25, 0.5, 0.5, 0.75]) if c['n'] >= 1 else 0.0)
        elif r < 0.55:
            c['ntype'] = rng.choice(SIGNED + UNSIGNED)
    return out


SIGNED = ['int8', 'int16', 'int32', 'int64', 'intp', 'longlong']
UNSIGNED = ['uint8', 'uint16', 'uint32', 'uint64', 'uintp']
FLOATS = ['float', 'float', 'float64', 'float32']


def _count(c):
    """The min_n_cycles object handed to the implementation."""
    t = c.get('ntype', 'int')
    v = c['nval'] if 'nval' in c else c['n']
    if t == 'int':
        return int(v)
    if t == 'float':
        return float(v)
    return getattr(np, t)(v)


def _bits(c):
    return [bool((c['mask'] >> i) & 1) for i in range(c['len'])]


def run_impl(c):
    from bycycle.burst.utils import check_min_burst_cycles
    arr = np.array(_bits(c), dtype=bool)
    if c.get('view'):
        # the same values as a non-contiguous view (every second element of a larger array)
        big = np.zeros(2 * len(arr), dtype=bool)
        big[::2] = arr
        arr = big[::2]
    else:
        arr = arr.copy()
    try:
        r = check_min_burst_cycles([bool(x) for x in arr] if c['kind'] == 'invalid_list' else arr, min_n_cycles=_count(c))
        isbool = bool(getattr(r, 'dtype', None) == np.bool_)
        r = np.asarray(r)
        r2 = check_min_burst_cycles(np.array(r, dtype=bool).copy(), min_n_cycles=_count(c))
    except Exception as e:
        return {'err': exc_kind(e)}
    return {'len': int(r.shape[0]) if r.ndim == 1 else -1, 'mask': coqio.mask_of([bool(x) for x in r.ravel()]),
            'twice': coqio.mask_of([bool(x) for x in np.asarray(r2).ravel()]), 'dtype_bool': isbool}


def _spec(bits, n):
    out, i = [False] * len(bits), 0
    while i < len(bits):
        if bits[i]:
            j = i
            while j < len(bits) and bits[j]:
                j += 1
            if j - i >= n:
                for k in range(i, j):
                    out[k] = True
            i = j
        else:
            i += 1
    return out


def oracle(c, o):
    if c['kind'].startswith('invalid'):
        return None      # outside the quantifier (boolean arrays, min_n_cycles >= 0): model comparison only
    if 'err' in o:
        if 'nval' in c:
            return None      # a float-valued count that is rejected: documented as int, model comparison only
        return 'raised %s on a valid input%s' % (o['err'], _how(c))
    if o['len'] != c['len']:
        return 'length changed: %d -> %d' % (c['len'], o['len'])
    want = coqio.mask_of(_spec(_bits(c), c.get('nval', c['n'])))      # literally: kept iff length >= min_n_cycles
    if o['mask'] != want:
        if o['mask'] & ~c['mask']:
            return 'a False became True' + _how(c)
        return 'runs not kept/cleared as a whole: got %s want %s%s' % (bin(o['mask']), bin(want), _how(c))
    if o['twice'] != o['mask']:
        return 'not idempotent' + _how(c)
    return None


def _how(c):
    if 'ntype' not in c:
        return ''
    return ' (min_n_cycles = %s(%r))' % (c['ntype'], c.get('nval', c['n']))


def kind_of(c, o):
    t = c.get('ntype')
    return c['kind'] + ('' if t is None else '/count-float' if 'nval' in c else '/count-np-unsigned' if t in UNSIGNED
                        else '/count-np-signed')


def nontrivial(c, o):
    if c['kind'].startswith('invalid') or 'err' in o:
        return False
    m, ln = c['mask'], c['len']
    edge = ln > 0 and ((m & 1) or (m >> (ln - 1)) & 1)
    return bool((o['mask'] != 0 and o['mask'] != m) or (edge and m != 0 and c['n'] >= 2))


def coq_case(c, o):
    inp = '(%s, %s, %s%%Z)' % ('PyList' if c['kind'] == 'invalid_list' else 'NdArray', coqio.barr(c['len'], c['mask']), coqio.Z(c['n']))
    if 'err' in o:
        return inp, '(Err %s)' % ERRMAP.get(o['err'], 'EOther')
    return inp, '(Ok (%s, %s))' % (coqio.B(o.get('dtype_bool', True)), coqio.barr(max(o['len'], 0), o['mask']))


def shrink(c):
    bits = _bits(c)
    for i in range(len(bits)):
        b = bits[:i] + bits[i + 1:]
        yield dict({k: c[k] for k in ('ntype', 'nval') if k in c}, kind='shrunk', len=len(b), mask=coqio.mask_of(b), n=c['n'])
    if c['n'] > 0 and c.get('nval', 1) >= 1:
        d = dict(c, n=c['n'] - 1, kind='shrunk')
        if 'nval' in c:
            d['nval'] = c['nval'] - 1
        yield d
    if 'ntype' in c and 'nval' not in c:
        yield {k: v for k, v in dict(c, kind='shrunk').items() if k != 'ntype'}
