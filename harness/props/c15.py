"""C15 — analysis functions are pure: no input mutation, no call-history dependence.  Model/Objects.v (Section Purity)."""
import copy
import hashlib
import numpy as np
from harness import coqio, gen
from harness.core import exc_kind

PROP = 'C15'
PROPS_FILE = 'Props/C15.v'
COQ_HEADER = ('From Coq Require Import List ZArith NArith. Import ListNotations.\n'
              'From ByC Require Import Base.Result Harness.Compare Model.Objects Model.Purity.')
COQ_RUNNER = 'bad_purity'
COQ_TYPES = ('list Z * list nat', 'list Z * list nat')
SHARD = 200
RULE = ('random sequences (4-8 calls quick, 6-16 thorough) over the listed public API — compute_features (both methods, both '
        'centrings), compute_shape_features, compute_burst_features (both methods), compute_cyclepoints, compute_features_2d '
        '(axis 0 / None, dict and list options), compute_features_3d, recompute_edges, limit_df, epoch_df, drop_samples_df and '
        'the plotting functions — all sharing ONE set of argument objects (signal array, option dictionaries, tables); deep '
        'snapshots of every argument object before / after every call; equal calls must return identical results wherever '
        'they occur. non-trivial = a sequence containing a repeated call separated by a different call')
ASSUMPTIONS = ['per-call frame conditions of the real code are established only on the explored sequences (partial)',
               'the model lifts per-call purity to all sequences (proved)']
NCALLS = 25
CALL_NAMES = ['cf_cycles', 'cf_amp', 'cf_trough', 'shape', 'burst_cycles', 'burst_amp', 'cyclepoints', 'g2d_dict', 'g2d_list',
              'g2d_none', 'g3d', 'rc_edges', 'limit_df', 'epoch_df', 'drop_samples', 'plot_summary', 'plot_cp_df', 'plot_cp_array',
              'plot_param', 'plot_feature', 'cf_amp_empty_thr', 'cf_cycles_empty_thr', 'cf_amp_empty_bk', 'rc_edges_no_bursts', 'limit_df_no_bursts']


def cases(rng, tier):
    out = []
    n = 60 if tier == 'quick' else 500
    lo, hi = (4, 8) if tier == 'quick' else (6, 16)
    for _ in range(n):
        k = rng.randint(lo, hi)
        seq = [rng.randrange(NCALLS) for _ in range(k)]
        a = rng.randrange(NCALLS)
        seq[0] = a
        seq[-1] = a
        out.append({'kind': 'sequence', 'calls': seq, 'sig_kind': rng.choice(['sparse', 'bursty', 'sum']), 'seed': rng.randrange(1000)})
    for a in range(NCALLS):
        out.append({'kind': 'pair', 'calls': [a, (a + 7) % NCALLS, a], 'sig_kind': 'sparse', 'seed': 5})
    return out


def _h(obj):
    import pandas as pd
    m = hashlib.sha256()

    def rec(o):
        if isinstance(o, np.ndarray):
            m.update(str(o.dtype).encode() + str(o.shape).encode() + np.ascontiguousarray(o).tobytes())
        elif isinstance(o, pd.DataFrame):
            m.update(repr(list(o.columns)).encode() + repr(list(o.index)).encode())
            for c in o.columns:
                rec(np.asarray(o[c]))
        elif isinstance(o, dict):
            for k in sorted(o, key=repr):
                m.update(repr(k).encode())
                rec(o[k])
        elif isinstance(o, (list, tuple)):
            m.update(b'[')
            for x in o:
                rec(x)
            m.update(b']')
        else:
            m.update(repr(o).encode())
    rec(obj)
    return int(m.hexdigest()[:12], 16)


def _env(c):
    import random
    from bycycle.features import compute_features, compute_shape_features
    s = gen.signal(random.Random(c['seed']), kind=c['sig_kind'], max_len=400)
    sig, fs, fr = s['sig'], s['fs'], tuple(s['f_range'])
    thr = {'amp_fraction_threshold': 0.1, 'amp_consistency_threshold': 0.4, 'period_consistency_threshold': 0.4,
           'monotonicity_threshold': 0.6, 'min_n_cycles': 2}
    env = {
        'sig': sig, 'thr': thr, 'thr_amp': {'burst_fraction_threshold': 0.5, 'min_n_cycles': 2},
        'bk': {'amp_threshes': (0.5, 1.5)}, 'bk_feat': {'fs': fs, 'f_range': fr, 'amp_threshes': (0.5, 1.5)},
        'fek': {'filter_kwargs': {'n_cycles': 3}, 'boundary': 2},
        'e_thr': {}, 'e_bk': {}, 'bk_min': {'min_n_cycles': 8},
        'sigs2': np.array([sig, sig[::-1].copy()]),
        'cfk': {'threshold_kwargs': dict(thr), 'center_extrema': 'peak'},
        'cfk_list': [{'threshold_kwargs': dict(thr)}, {'threshold_kwargs': dict(thr, monotonicity_threshold=0.2), 'center_extrema': 'peak'}],
    }
    env['sigs3'] = np.array([env['sigs2'], env['sigs2'][::-1]])
    env['df'] = compute_features(sig, fs, fr, threshold_kwargs=copy.deepcopy(thr))
    env['df_shape'] = compute_shape_features(sig, fs, fr)
    # a table without any burst (strict thresholds): shortcut paths must not write into it either
    env['df_quiet'] = compute_features(sig, fs, fr, threshold_kwargs={'amp_fraction_threshold': 0.99, 'amp_consistency_threshold': 0.99,
                                                                       'period_consistency_threshold': 0.99, 'monotonicity_threshold': 1.0,
                                                                       'min_n_cycles': 3})
    env['peaks'] = env['df']['sample_peak'].values.copy()
    env['troughs'] = env['df']['sample_last_trough'].values.copy()
    return env, fs, fr


def _call(i, env, fs, fr):
    import matplotlib.pyplot as plt
    from bycycle.features import (compute_features, compute_shape_features, compute_burst_features, compute_cyclepoints)
    from bycycle.group import compute_features_2d, compute_features_3d
    from bycycle.burst import recompute_edges
    from bycycle.utils.dataframes import limit_df, epoch_df, drop_samples_df
    sig = env['sig']
    n = len(sig)
    if i == 0:
        return compute_features(sig, fs, fr, threshold_kwargs=env['thr'], find_extrema_kwargs=env['fek'])
    if i == 1:
        return compute_features(sig, fs, fr, burst_method='amp', burst_kwargs=env['bk'], threshold_kwargs=env['thr_amp'])
    if i == 2:
        return compute_features(sig, fs, fr, center_extrema='trough', threshold_kwargs=env['thr'], find_extrema_kwargs=env['fek'])
    if i == 3:
        return compute_shape_features(sig, fs, fr, find_extrema_kwargs=env['fek'])
    if i == 4:
        return compute_burst_features(env['df_shape'], sig)
    if i == 5:
        return compute_burst_features(env['df_shape'], sig, burst_method='amp', burst_kwargs=env['bk_feat'])
    if i == 6:
        return compute_cyclepoints(sig, fs, fr, **env['fek'])
    if i == 7:
        return compute_features_2d(env['sigs2'], fs, fr, compute_features_kwargs=env['cfk'], axis=0, n_jobs=1)
    if i == 8:
        return compute_features_2d(env['sigs2'], fs, fr, compute_features_kwargs=env['cfk_list'], axis=0, n_jobs=2)
    if i == 9:
        return compute_features_2d(env['sigs2'], fs, fr, compute_features_kwargs=env['cfk_list'], axis=None)
    if i == 10:
        return compute_features_3d(env['sigs3'], fs, fr, compute_features_kwargs=env['cfk'], axis=(0, 1), n_jobs=1)
    if i == 11:
        return recompute_edges(env['df'], env['thr'])
    if i == 12:
        return limit_df(env['df'], fs, start=0.2 * n / fs, stop=0.8 * n / fs)
    if i == 13:
        return epoch_df(env['df'], n, max(20, n // 4))
    if i == 14:
        return drop_samples_df(env['df'])
    if i == 23:
        return recompute_edges(env['df_quiet'], env['thr'])
    if i == 24:
        return limit_df(env['df_quiet'], fs, start=0.2 * n / fs, stop=0.8 * n / fs)
    if i == 20:
        return compute_features(sig, fs, fr, burst_method='amp', burst_kwargs=env['bk_min'], threshold_kwargs=env['e_thr'])
    if i == 21:
        return compute_features(sig, fs, fr, threshold_kwargs=env['e_thr'])
    if i == 22:
        return compute_features(sig, fs, fr, burst_method='amp', burst_kwargs=env['e_bk'], threshold_kwargs=env['thr_amp'])
    from bycycle.plts import (plot_burst_detect_summary, plot_cyclepoints_df, plot_cyclepoints_array, plot_burst_detect_param,
                              plot_feature_hist)
    try:
        if i == 15:
            plot_burst_detect_summary(env['df'], sig, fs, env['thr'], xlim=(0.1 * n / fs, 0.9 * n / fs))
        elif i == 16:
            plot_cyclepoints_df(env['df'], sig, fs, xlim=(0.1 * n / fs, 0.9 * n / fs))
        elif i == 17:
            plot_cyclepoints_array(sig, fs, peaks=env['peaks'], troughs=env['troughs'])
        elif i == 18:
            plot_burst_detect_param(env['df'], sig, fs, 'monotonicity', env['thr']['monotonicity_threshold'])
        elif i == 19:
            plot_feature_hist(env['df'], 'volt_amp')
    finally:
        plt.close('all')
    return None


def _res_hash(r):
    return _h(r) if r is not None else 0


def run_impl(c):
    try:
        env, fs, fr = _env(c)
    except Exception as e:
        return {'skip': 'environment: %s %s' % (exc_kind(e), str(e)[:100])}
    keys = sorted(env)
    before = [_h(env[k]) for k in keys]
    out = {'env_before': before, 'keys': keys, 'mutations': [], 'results': [], 'errors': []}
    cur = list(before)
    for pos, i in enumerate(c['calls']):
        try:
            r = _call(i, env, fs, fr)
            out['results'].append(_res_hash(r))
        except Exception as e:
            out['results'].append(-1)
            out['errors'].append([pos, CALL_NAMES[i], exc_kind(e), str(e)[:100]])
        now = [_h(env[k]) for k in keys]
        for k, a, b in zip(keys, cur, now):
            if a != b:
                out['mutations'].append([pos, CALL_NAMES[i], k])
        cur = now
    out['env_after'] = cur
    return out


def oracle(c, o):
    if 'skip' in o:
        return None
    if o['mutations']:
        pos, name, k = o['mutations'][0]
        return 'call %d (%s) modified the caller\'s argument object %r' % (pos, name, k)
    first = {}
    for pos, (i, r) in enumerate(zip(c['calls'], o['results'])):
        if i in first and first[i][1] != r:
            return 'call %s returned a different result at position %d than at position %d%s' % (
                CALL_NAMES[i], pos, first[i][0], ' (%s)' % o['errors'] if o['errors'] else '')
        first.setdefault(i, (pos, r))
    return None


def nontrivial(c, o):
    calls = c['calls']
    return 'results' in o and any(calls[i] == calls[j] and any(calls[k] != calls[i] for k in range(i + 1, j))
                                  for i in range(len(calls)) for j in range(i + 2, len(calls)))


def kind_of(c, o):
    return c['kind']


def coq_case(c, o):
    if 'skip' in o:
        return None
    # classes: index of the first position with an identical result among equal calls
    classes = []
    for pos, (i, r) in enumerate(zip(c['calls'], o['results'])):
        cls = pos
        for q in range(pos):
            if c['calls'][q] == i and o['results'][q] == r:
                cls = q
                break
        classes.append(cls)
    zl = lambda xs: coqio.lst(['%d%%Z' % x for x in xs]) if xs else 'nil'
    nl = lambda xs: coqio.lst(['%d' % x for x in xs], 'nat') if xs else 'nil'
    return '(%s, %s)' % (zl(o['env_before']), nl(c['calls'])), '(%s, %s)' % (zl(o['env_after']), nl(classes))
