"""C15 — analysis functions are pure: no input mutation, no call-history dependence.  Model/Objects.v (Section Purity)."""
import copy
import hashlib
import numpy as np
from harness import coqio, gen
from harness.core import exc_kind

PROP = 'C15'
PROPS_FILE = 'Props/C15.v'
COQ_HEADER = ('From Coq Require Import List ZArith NArith. Import ListNotations.\n'
              'From ByC Require Import Base.Result Harness.Compare Model.Objects Model.Purity.')
COQ_RUNNER = 'bad_purity'
COQ_TYPES = ('list Z * list nat', 'list Z * list nat')
SHARD = 200
RULE = ('random sequences (4-8 calls quick, 6-16 thorough) over the listed public API, %d call kinds: compute_features (both methods, '
        'both centrings, empty option dictionaries), compute_shape_features / compute_burst_features (both methods, both centrings), '
        'compute_cyclepoints, the individual shape functions (compute_durations, compute_extrema_voltage, compute_symmetry, '
        'compute_band_amp), burst-feature functions (compute_amp_fraction, compute_amp_consistency, compute_period_consistency, '
        'compute_monotonicity, compute_burst_fraction) and cyclepoint functions (find_extrema, find_zerox, '
        'extrema_interpolated_phase) called directly with shared tables / arrays; compute_features_2d (axis 0 / None; dict, list, '
        'amp-method and return_samples-carrying options), compute_features_3d (axis (0,1) / 0 / 1; dict, 1-D list, 2-D list, amp); '
        'recompute_edges (peak, trough and burst-free tables), limit_df (both limits, start=None, stop=None, reset_indices=False), '
        'epoch_df (short epochs, epoch_len >= signal length), drop_samples_df and the plotting functions (summary with / without '
        'xlim, plot_only_result, interp=False, trough-centred and burst-free tables; cyclepoints from table and arrays; parameter, '
        'histogram and categorical plots; Bycycle.plot) — all sharing ONE set of argument objects (signal array, option '
        'dictionaries, tables, cyclepoint arrays); deep snapshots of every argument object before / after every call; equal calls '
        'must return identical results wherever they occur. non-trivial = a sequence containing a repeated call separated by a '
        'different call')
ASSUMPTIONS = ['per-call frame conditions of the real code are established only on the explored sequences (partial)',
               'the model lifts per-call purity to all sequences (proved)']
CALL_NAMES = ['cf_cycles', 'cf_amp', 'cf_trough', 'shape', 'burst_cycles', 'burst_amp', 'cyclepoints', 'g2d_dict', 'g2d_list',
              'g2d_none', 'g3d', 'rc_edges', 'limit_df', 'epoch_df', 'drop_samples', 'plot_summary', 'plot_cp_df', 'plot_cp_array',
              'plot_param', 'plot_feature', 'cf_amp_empty_thr', 'cf_cycles_empty_thr', 'cf_amp_empty_bk', 'rc_edges_no_bursts',
              'limit_df_no_bursts',
              # widened (clause audit D, rank 11)
              'g3d_ax0', 'g3d_ax1_list', 'g3d_ax0_list', 'g3d_grid', 'g2d_none_dict', 'g2d_amp', 'g2d_none_amp', 'g3d_amp', 'g2d_rs',
              'g2d_list_rs', 'g2d_none_rs', 'durations', 'extrema_voltage', 'symmetry', 'band_amp', 'amp_fraction',
              'amp_consistency', 'amp_consistency_next', 'period_consistency', 'monotonicity', 'burst_fraction', 'find_extrema',
              'find_zerox', 'phase', 'shape_trough', 'burst_trough', 'burst_trough_amp', 'plot_categorical',
              'plot_categorical_group', 'bm_plot', 'bm_plot_nolim', 'plot_summary_nolim', 'plot_summary_only', 'plot_summary_step',
              'plot_summary_trough', 'plot_summary_quiet', 'plot_cp_df_nolim', 'plot_cp_df_trough', 'plot_param_nolim_step',
              'plot_hist_all', 'limit_df_start_none', 'limit_df_stop_none', 'limit_df_noreset', 'epoch_df_all', 'epoch_df_longer',
              'rc_edges_trough']
NCALLS = len(CALL_NAMES)
PLOTS = {n for n in CALL_NAMES if n.startswith(('plot_', 'bm_plot'))}
RULE = RULE % NCALLS


def cases(rng, tier):
    out = []
    n = 70 if tier == 'quick' else 600
    lo, hi = (4, 8) if tier == 'quick' else (6, 16)
    for _ in range(n):
        k = rng.randint(lo, hi)
        seq = [rng.randrange(NCALLS) for _ in range(k)]
        a = rng.randrange(NCALLS)
        seq[0] = a
        seq[-1] = a
        out.append({'kind': 'sequence', 'calls': seq, 'sig_kind': rng.choice(['sparse', 'bursty', 'sum']), 'seed': rng.randrange(1000)})
    for a in range(NCALLS):
        out.append({'kind': 'pair', 'calls': [a, (a + 7) % NCALLS, a], 'sig_kind': 'sparse', 'seed': 5})
    return out


def _h(obj):
    import pandas as pd
    m = hashlib.sha256()

    def rec(o):
        if isinstance(o, np.ndarray):
            m.update(str(o.dtype).encode() + str(o.shape).encode() + np.ascontiguousarray(o).tobytes())
        elif isinstance(o, pd.DataFrame):
            m.update(repr(list(o.columns)).encode() + repr(list(o.index)).encode())
            for c in o.columns:
                rec(np.asarray(o[c]))
        elif isinstance(o, dict):
            for k in sorted(o, key=repr):
                m.update(repr(k).encode())
                rec(o[k])
        elif isinstance(o, (list, tuple)):
            m.update(b'[')
            for x in o:
                rec(x)
            m.update(b']')
        else:
            m.update(repr(o).encode())
    rec(obj)
    return int(m.hexdigest()[:12], 16)


def _env(c):
    import random
    from bycycle.features import compute_features, compute_shape_features
    s = gen.signal(random.Random(c['seed']), kind=c['sig_kind'], max_len=400)
    sig, fs, fr = s['sig'], s['fs'], tuple(s['f_range'])
    thr = {'amp_fraction_threshold': 0.1, 'amp_consistency_threshold': 0.4, 'period_consistency_threshold': 0.4,
           'monotonicity_threshold': 0.6, 'min_n_cycles': 2}
    env = {
        'sig': sig, 'thr': thr, 'thr_amp': {'burst_fraction_threshold': 0.5, 'min_n_cycles': 2},
        'bk': {'amp_threshes': (0.5, 1.5)}, 'bk_feat': {'fs': fs, 'f_range': fr, 'amp_threshes': (0.5, 1.5)},
        'fek': {'filter_kwargs': {'n_cycles': 3}, 'boundary': 2},
        'e_thr': {}, 'e_bk': {}, 'bk_min': {'min_n_cycles': 8},
        'sigs2': np.array([sig, sig[::-1].copy()]),
        'cfk': {'threshold_kwargs': dict(thr), 'center_extrema': 'peak'},
        'cfk_list': [{'threshold_kwargs': dict(thr)}, {'threshold_kwargs': dict(thr, monotonicity_threshold=0.2), 'center_extrema': 'peak'}],
    }
    env['sigs3'] = np.array([env['sigs2'], env['sigs2'][::-1]])
    env['df'] = compute_features(sig, fs, fr, threshold_kwargs=copy.deepcopy(thr))
    env['df_shape'] = compute_shape_features(sig, fs, fr)
    # a table without any burst (strict thresholds): shortcut paths must not write into it either
    env['df_quiet'] = compute_features(sig, fs, fr, threshold_kwargs={'amp_fraction_threshold': 0.99, 'amp_consistency_threshold': 0.99,
                                                                       'period_consistency_threshold': 0.99, 'monotonicity_threshold': 1.0,
                                                                       'min_n_cycles': 3})
    env['peaks'] = env['df']['sample_peak'].values.copy()
    env['troughs'] = env['df']['sample_last_trough'].values.copy()
    # objects for the widened call list: cyclepoint table, trough-centred tables, extrema arrays, more option dictionaries
    from bycycle.features import compute_cyclepoints
    from bycycle.cyclepoints import find_extrema
    from bycycle import Bycycle
    env['df_samples'] = compute_cyclepoints(sig, fs, fr)
    env['df_trough'] = compute_features(sig, fs, fr, center_extrema='trough', threshold_kwargs=copy.deepcopy(thr))
    env['df_shape_trough'] = compute_shape_features(sig, fs, fr, center_extrema='trough')
    env['pk'], env['tr'] = find_extrema(sig, fs, fr)
    env['cfk_amp'] = {'burst_method': 'amp', 'burst_kwargs': {'amp_threshes': (0.5, 1.5)},
                      'threshold_kwargs': {'burst_fraction_threshold': 0.5, 'min_n_cycles': 2}}
    env['cfk_rs'] = {'threshold_kwargs': dict(thr), 'return_samples': False, 'center_extrema': 'trough'}
    env['cfk_list_rs'] = [{'threshold_kwargs': dict(thr), 'return_samples': True}, {'threshold_kwargs': dict(thr), 'return_samples': False}]
    env['cfk_grid'] = [[{'threshold_kwargs': dict(thr)}, {'threshold_kwargs': dict(thr, min_n_cycles=3)}],
                       [{'center_extrema': 'trough'}, {'threshold_kwargs': dict(thr)}]]
    # a fitted object sharing the caller's signal and threshold dictionary (for Bycycle.plot); its table is watched too
    bm = Bycycle(thresholds=env['thr'])
    bm.fit(sig, fs, fr)
    env['bm_df'] = bm.df_features
    OBJ['bm'] = bm
    return env, fs, fr


OBJ = {}


def _call(i, env, fs, fr):
    import matplotlib.pyplot as plt
    name = CALL_NAMES[i]
    try:
        return _dispatch(name, env, fs, fr)
    finally:
        if name in PLOTS:
            plt.close('all')


def _dispatch(name, env, fs, fr):
    from bycycle.features import (compute_features, compute_shape_features, compute_burst_features, compute_cyclepoints)
    from bycycle.features.shape import compute_durations, compute_extrema_voltage, compute_symmetry, compute_band_amp
    from bycycle.features.burst import (compute_amp_fraction, compute_amp_consistency, compute_period_consistency,
                                        compute_monotonicity, compute_burst_fraction)
    from bycycle.cyclepoints import find_extrema, find_zerox, extrema_interpolated_phase
    from bycycle.group import compute_features_2d, compute_features_3d
    from bycycle.burst import recompute_edges
    from bycycle.utils.dataframes import limit_df, epoch_df, drop_samples_df
    from bycycle.plts import (plot_burst_detect_summary, plot_cyclepoints_df, plot_cyclepoints_array, plot_burst_detect_param,
                              plot_feature_hist, plot_feature_categorical)
    sig = env['sig']
    n = len(sig)
    thr = env['thr']
    lo, hi = 0.1 * n / fs, 0.9 * n / fs
    g2 = lambda k, **kw: compute_features_2d(env['sigs2'], fs, fr, compute_features_kwargs=env[k], **kw)
    g3 = lambda k, **kw: compute_features_3d(env['sigs3'], fs, fr, compute_features_kwargs=env[k], **kw)
    table = {
        'cf_cycles': lambda: compute_features(sig, fs, fr, threshold_kwargs=thr, find_extrema_kwargs=env['fek']),
        'cf_amp': lambda: compute_features(sig, fs, fr, burst_method='amp', burst_kwargs=env['bk'], threshold_kwargs=env['thr_amp']),
        'cf_trough': lambda: compute_features(sig, fs, fr, center_extrema='trough', threshold_kwargs=thr, find_extrema_kwargs=env['fek']),
        'shape': lambda: compute_shape_features(sig, fs, fr, find_extrema_kwargs=env['fek']),
        'burst_cycles': lambda: compute_burst_features(env['df_shape'], sig),
        'burst_amp': lambda: compute_burst_features(env['df_shape'], sig, burst_method='amp', burst_kwargs=env['bk_feat']),
        'cyclepoints': lambda: compute_cyclepoints(sig, fs, fr, **env['fek']),
        'g2d_dict': lambda: g2('cfk', axis=0, n_jobs=1),
        'g2d_list': lambda: g2('cfk_list', axis=0, n_jobs=2),
        'g2d_none': lambda: g2('cfk_list', axis=None),
        'g3d': lambda: g3('cfk', axis=(0, 1), n_jobs=1),
        'rc_edges': lambda: recompute_edges(env['df'], thr),
        'limit_df': lambda: limit_df(env['df'], fs, start=0.2 * n / fs, stop=0.8 * n / fs),
        'epoch_df': lambda: epoch_df(env['df'], n, max(20, n // 4)),
        'drop_samples': lambda: drop_samples_df(env['df']),
        'plot_summary': lambda: plot_burst_detect_summary(env['df'], sig, fs, thr, xlim=(lo, hi)),
        'plot_cp_df': lambda: plot_cyclepoints_df(env['df'], sig, fs, xlim=(lo, hi)),
        'plot_cp_array': lambda: plot_cyclepoints_array(sig, fs, peaks=env['peaks'], troughs=env['troughs']),
        'plot_param': lambda: plot_burst_detect_param(env['df'], sig, fs, 'monotonicity', thr['monotonicity_threshold']),
        'plot_feature': lambda: plot_feature_hist(env['df'], 'volt_amp'),
        'cf_amp_empty_thr': lambda: compute_features(sig, fs, fr, burst_method='amp', burst_kwargs=env['bk_min'], threshold_kwargs=env['e_thr']),
        'cf_cycles_empty_thr': lambda: compute_features(sig, fs, fr, threshold_kwargs=env['e_thr']),
        'cf_amp_empty_bk': lambda: compute_features(sig, fs, fr, burst_method='amp', burst_kwargs=env['e_bk'], threshold_kwargs=env['thr_amp']),
        'rc_edges_no_bursts': lambda: recompute_edges(env['df_quiet'], thr),
        'limit_df_no_bursts': lambda: limit_df(env['df_quiet'], fs, start=0.2 * n / fs, stop=0.8 * n / fs),
        # group functions: 3-D along one axis (the _proxy_3d -> compute_features_2d(axis=None) path), list options, amp method,
        # option dictionaries that carry 'return_samples' (the key the group functions pop)
        'g3d_ax0': lambda: g3('cfk', axis=0, n_jobs=1),
        'g3d_ax1_list': lambda: g3('cfk_list', axis=1, n_jobs=2),
        'g3d_ax0_list': lambda: g3('cfk_list', axis=0, n_jobs=1),
        'g3d_grid': lambda: g3('cfk_grid', axis=(0, 1), n_jobs=1),
        'g2d_none_dict': lambda: g2('cfk', axis=None),
        'g2d_amp': lambda: g2('cfk_amp', axis=0, n_jobs=1),
        'g2d_none_amp': lambda: g2('cfk_amp', axis=None),
        'g3d_amp': lambda: g3('cfk_amp', axis=(0, 1), n_jobs=1),
        'g2d_rs': lambda: g2('cfk_rs', axis=0, n_jobs=1),
        'g2d_list_rs': lambda: g2('cfk_list_rs', axis=0, n_jobs=1),
        'g2d_none_rs': lambda: g2('cfk_rs', axis=None, return_samples=False),
        # the individual shape / burst-feature / cyclepoint functions on caller-owned tables and arrays
        'durations': lambda: compute_durations(env['df_samples']),
        'extrema_voltage': lambda: compute_extrema_voltage(env['df_samples'], sig),
        'symmetry': lambda: compute_symmetry(env['df_samples'], sig),
        'band_amp': lambda: compute_band_amp(env['df_samples'], sig, fs, fr),
        'amp_fraction': lambda: compute_amp_fraction(env['df_shape']),
        'amp_consistency': lambda: compute_amp_consistency(env['df_shape']),
        'amp_consistency_next': lambda: compute_amp_consistency(env['df_shape_trough'], direction='next'),
        'period_consistency': lambda: compute_period_consistency(env['df_shape'], direction='last'),
        'monotonicity': lambda: compute_monotonicity(env['df_samples'], sig),
        'burst_fraction': lambda: compute_burst_fraction(env['df_samples'], sig, fs, fr, amp_threshes=env['bk']['amp_threshes']),
        'find_extrema': lambda: find_extrema(sig, fs, fr, **env['fek']),
        'find_zerox': lambda: find_zerox(sig, env['pk'], env['tr']),
        'phase': lambda: extrema_interpolated_phase(sig, env['pk'], env['tr']),
        'shape_trough': lambda: compute_shape_features(sig, fs, fr, center_extrema='trough', find_extrema_kwargs=env['fek']),
        'burst_trough': lambda: compute_burst_features(env['df_shape_trough'], sig),
        'burst_trough_amp': lambda: compute_burst_features(env['df_shape_trough'], sig, burst_method='amp', burst_kwargs=env['bk_feat']),
        # plots: no xlim (the caller's table reaches the drawing code unsliced), result-only, step-wise, trough / burst-free tables
        'plot_categorical': lambda: plot_feature_categorical(env['df'], 'volt_amp'),
        'plot_categorical_group': lambda: plot_feature_categorical(env['df'], 'time_rdsym', group_by='is_burst'),
        'bm_plot': lambda: OBJ['bm'].plot(xlim=(lo, hi)),
        'bm_plot_nolim': lambda: OBJ['bm'].plot(),
        'plot_summary_nolim': lambda: plot_burst_detect_summary(env['df'], sig, fs, thr),
        'plot_summary_only': lambda: plot_burst_detect_summary(env['df'], sig, fs, thr, plot_only_result=True),
        'plot_summary_step': lambda: plot_burst_detect_summary(env['df'], sig, fs, thr, xlim=(lo, hi), interp=False),
        'plot_summary_trough': lambda: plot_burst_detect_summary(env['df_trough'], sig, fs, thr, xlim=(lo, hi)),
        'plot_summary_quiet': lambda: plot_burst_detect_summary(env['df_quiet'], sig, fs, thr),
        'plot_cp_df_nolim': lambda: plot_cyclepoints_df(env['df'], sig, fs),
        'plot_cp_df_trough': lambda: plot_cyclepoints_df(env['df_trough'], sig, fs, xlim=(lo, hi)),
        'plot_param_nolim_step': lambda: plot_burst_detect_param(env['df_trough'], sig, fs, 'amp_consistency',
                                                                 thr['amp_consistency_threshold'], interp=False),
        'plot_hist_all': lambda: plot_feature_hist(env['df_quiet'], 'band_amp', only_bursts=False),
        'limit_df_start_none': lambda: limit_df(env['df'], fs, stop=0.8 * n / fs),
        'limit_df_stop_none': lambda: limit_df(env['df'], fs, start=0.2 * n / fs),
        'limit_df_noreset': lambda: limit_df(env['df_trough'], fs, start=0.2 * n / fs, stop=0.8 * n / fs, reset_indices=False),
        'epoch_df_all': lambda: epoch_df(env['df'], n, n),
        'epoch_df_longer': lambda: epoch_df(env['df_trough'], n, n + 50),
        'rc_edges_trough': lambda: recompute_edges(env['df_trough'], thr),
    }
    r = table[name]()
    return None if name in PLOTS else r


def _res_hash(r):
    return _h(r) if r is not None else 0


def run_impl(c):
    try:
        env, fs, fr = _env(c)
    except Exception as e:
        return {'skip': 'environment: %s %s' % (exc_kind(e), str(e)[:100])}
    keys = sorted(env)
    before = [_h(env[k]) for k in keys]
    out = {'env_before': before, 'keys': keys, 'mutations': [], 'results': [], 'errors': []}
    cur = list(before)
    for pos, i in enumerate(c['calls']):
        try:
            r = _call(i, env, fs, fr)
            out['results'].append(_res_hash(r))
        except Exception as e:
            out['results'].append(-1)
            out['errors'].append([pos, CALL_NAMES[i], exc_kind(e), str(e)[:100]])
        now = [_h(env[k]) for k in keys]
        for k, a, b in zip(keys, cur, now):
            if a != b:
                out['mutations'].append([pos, CALL_NAMES[i], k])
        cur = now
    out['env_after'] = cur
    return out


def oracle(c, o):
    if 'skip' in o:
        return None
    if o['mutations']:
        pos, name, k = o['mutations'][0]
        return 'call %d (%s) modified the caller\'s argument object %r' % (pos, name, k)
    first = {}
    for pos, (i, r) in enumerate(zip(c['calls'], o['results'])):
        if i in first and first[i][1] != r:
            return 'call %s returned a different result at position %d than at position %d%s' % (
                CALL_NAMES[i], pos, first[i][0], ' (%s)' % o['errors'] if o['errors'] else '')
        first.setdefault(i, (pos, r))
    return None


def nontrivial(c, o):
    calls = c['calls']
    return 'results' in o and any(calls[i] == calls[j] and any(calls[k] != calls[i] for k in range(i + 1, j))
                                  for i in range(len(calls)) for j in range(i + 2, len(calls)))


def kind_of(c, o):
    return c['kind'] + ('/skip' if 'skip' in o else '/some-call-raised' if o.get('errors') else '')


def coq_case(c, o):
    if 'skip' in o:
        return None
    # classes: index of the first position with an identical result among equal calls
    classes = []
    for pos, (i, r) in enumerate(zip(c['calls'], o['results'])):
        cls = pos
        for q in range(pos):
            if c['calls'][q] == i and o['results'][q] == r:
                cls = q
                break
        classes.append(cls)
    zl = lambda xs: coqio.lst(['%d%%Z' % x for x in xs]) if xs else 'nil'
    nl = lambda xs: coqio.lst(['%d' % x for x in xs], 'nat') if xs else 'nil'
    return '(%s, %s)' % (zl(o['env_before']), nl(c['calls'])), '(%s, %s)' % (zl(o['env_after']), nl(classes))
