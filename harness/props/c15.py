"""C15 — analysis functions are pure: no input mutation, no call-history dependence.  Model/Purity.v (Section CleanRoom).

Process layout (clean-room design).  The process that calls `run_impl` (a pool worker of harness.core, or the main
process when shrinking / replaying) only IMPORTS the analysis library and never calls it (`_guard` trips otherwise).  For
every case it forks
  H — the history process: builds the shared argument objects and executes the whole history (calls and user edits) on them;
  R — for every call of the history, a fresh child of the same pristine parent: it receives a pickle (= deep copy by value)
      of the CURRENT argument objects, taken immediately before H makes the call, executes that one call and sends the
      result back.  R has seen no other call: its result is the history-free reference.
H compares its own result with R's; the parent only moves bytes between the two."""
import copy
import hashlib
import json
import os
import pickle
import select
import struct
import time
import zlib
import numpy as np
from harness import coqio, gen
from harness.core import exc_kind

PROP = 'C15'
PROPS_FILE = 'Props/C15.v'
COQ_HEADER = ('From Coq Require Import List ZArith NArith. Import ListNotations.\n'
              'From ByC Require Import Base.Result Harness.Compare Model.Objects Model.Purity.')
COQ_RUNNER = 'bad_cleanroom'
COQ_TYPES = ('list Z * list (@hstep nat (list Z))', 'list Z * list (nat * bool * bool)')
SHARD = 40
RULE = ('histories (3-8 steps quick, 3-17 thorough) of public API calls and USER EDITS on ONE shared set of argument objects '
        '(signal buffer, 2-D / 3-D arrays, option dictionaries, tables, cyclepoint arrays, a Bycycle and a BycycleGroup object). '
        'Each history runs in its own freshly forked process; for EVERY call a clean-room reference is computed: the same call on '
        'a by-value copy of the current argument objects in a fresh child of a parent that has never called the library; the two '
        'results are compared cell by cell (column set, values, NaN pattern; arrays element-wise; plots and other documented '
        'helpers: read-back line / patch / scatter data resp. return values, in the model comparison only). '
        'Calls: %d fixed kinds (compute_features both methods / centrings / empty option dictionaries, '
        'compute_shape_features, compute_burst_features, compute_cyclepoints, the individual shape / burst-feature / cyclepoint '
        'functions, compute_features_2d / _3d on every axis with dict / list / grid options, recompute_edges, limit_df, epoch_df, '
        'drop_samples_df, all plotting functions) plus %d parametrised kinds called repeatedly on the SAME objects with different '
        'non-default settings (n_cycles 2/3/5/7, other fs / f_range, four find_extrema_kwargs, both centrings, both burst '
        'methods, return_samples, directions, thresholds, axes, job counts), Bycycle.fit / recompute_edges / fresh Bycycle, '
        'BycycleGroup.fit / recompute_edges, and documented helpers with non-default flags (rename_extrema_df('
        'return_samples=False), split_samples_df, get_extrema_df, flatten_dfs, limit_signal, check_min_burst_cycles, '
        'detect_bursts_cycles / _amp, find_flank_zerox, reduce_thresholds). User edits between calls (legitimate; the next call '
        'must equal the clean-room result for the CURRENT values): sig *= c, sig += c, np.negative(sig, out=sig), refilling / '
        'reversing / rolling the buffer in place, editing / deleting option dictionary entries at any depth, replacing table '
        'columns, editing the 2-D / 3-D arrays, recomputing the tables, changing object settings. Streams: random sequences, '
        '[a, b, a] for every fixed kind, one function with 3 settings interleaved, call / edit / call, helpers then peak- and '
        'trough-centred analyses, object histories, group histories. Deep content hashes of every argument object before / '
        'after every call (an object call may only change its own object; arrays are hashed bytewise, so a NaN sample equals itself). '
        'Storage of the shared signal objects (signal buffer, refill buffer, 2-D / 3-D arrays), drawn per history: float64 (half), NaN edge '
        'samples as left by a pre-filter with remove_edges=True (2 / 5 / 12 / a filter half-length on each side), int64 / int16 counts, float32, '
        'read-only arrays (the clean-room copy is writable: a call that tries to write into the caller\'s array raises in the history and '
        'returns in the clean room); the find_extrema_kwargs dictionaries include non-default `pad` (False / explicit True), `boundary` and '
        '`first_extrema` entries, and the dictionary used by the fixed call kinds gets `pad` / `boundary` variants per history. '
        'Values of the recording, drawn per history (about 45 %% of the histories; the refill buffer and the 2-D / 3-D arrays follow): '
        'plateaus (the value held for 3 - 6 band periods, at the start / the end / inside), blanked segments (exactly 0.0 for as long), '
        'clipped tops and bottoms (flat at a quantile) and signals quantised to 4 / 8 / 16 levels, so that branches for constant '
        'stretches (no extremum, no crossing, empty half-wave) are reached. Allocation history: before every call the history '
        'process, and before its one call every clean-room child, allocates, fills with random numbers (different seeds) and '
        'frees ~250 float arrays of every size class up to the signal length (and a few longer ones), so that memory the '
        'library obtains without initialising it holds different values in the two processes. non-trivial = a history in which a call the property '
        'speaks about is compared with its clean-room reference after at least one different call or user edit')
ASSUMPTIONS = ['per-call frame conditions and history independence of the real code are established only on the explored '
               'histories (partial)',
               'the model lifts per-call purity to all histories with user edits, from any hidden state (proved); the clean-room '
               'comparison over all histories is complete for the hidden states histories can reach (proved)',
               'a by-value copy is a pickle round trip: object identity, memory layout of non-contiguous views and the '
               'read-only flag of arrays are not part of an argument\'s value; histories on read-only signal arrays use this: the '
               'clean-room copy is writable, so a call that writes into the caller\'s array (even if it restores the values '
               'afterwards) raises in the history and returns in the clean room, which the oracle reports as a difference',
               'the tables of the shared environment are themselves built by library calls on the shared signal object; its bytes '
               'are compared before / after that construction (oracle), the other objects are watched from the first step on',
               'NaN edge samples: the 2-D / 3-D arrays carry them only where every flattened slice keeps them at its two ends '
               '(the library refuses interior NaN runs with an IndexError; a refusal inside its process pool can dead-lock the pool)',
               'a result that depends on uninitialised memory (np.empty never completely written) is a dependence on the call '
               'history of the process; it is visible only when the generated recording reaches the unwritten branch AND the '
               'recycled memory differs between the history process and the clean-room child - the allocation churn makes the '
               'second likely, not certain (the allocator decides which freed block is handed out)',
               'the clean-room oracle is applied to the calls C15 lists and to the object / group entry points that wrap them; '
               'results of other documented helpers are compared in the model comparison only']
TRUST = ['harness: fork / pipe protocol of harness/props/c15.py (the parent never calls the library: guarded by pid check)',
         'harness: the allocation churn of harness/props/c15.py (_churn) only allocates and frees numpy arrays of its own; it '
         'touches no argument object (the content hashes taken before / after every call enclose it)']

FIXED = ['cf_cycles', 'cf_amp', 'cf_trough', 'shape', 'burst_cycles', 'burst_amp', 'cyclepoints', 'g2d_dict', 'g2d_list',
         'g2d_none', 'g3d', 'rc_edges', 'limit_df', 'epoch_df', 'drop_samples', 'plot_summary', 'plot_cp_df', 'plot_cp_array',
         'plot_param', 'plot_feature', 'cf_amp_empty_thr', 'cf_cycles_empty_thr', 'cf_amp_empty_bk', 'rc_edges_no_bursts',
         'limit_df_no_bursts',
         'g3d_ax0', 'g3d_ax1_list', 'g3d_ax0_list', 'g3d_grid', 'g2d_none_dict', 'g2d_amp', 'g2d_none_amp', 'g3d_amp', 'g2d_rs',
         'g2d_list_rs', 'g2d_none_rs', 'durations', 'extrema_voltage', 'symmetry', 'band_amp', 'amp_fraction',
         'amp_consistency', 'amp_consistency_next', 'period_consistency', 'monotonicity', 'burst_fraction', 'find_extrema',
         'find_zerox', 'phase', 'shape_trough', 'burst_trough', 'burst_trough_amp', 'plot_categorical',
         'plot_categorical_group', 'bm_plot', 'bm_plot_nolim', 'plot_summary_nolim', 'plot_summary_only', 'plot_summary_step',
         'plot_summary_trough', 'plot_summary_quiet', 'plot_cp_df_nolim', 'plot_cp_df_trough', 'plot_param_nolim_step',
         'plot_hist_all', 'limit_df_start_none', 'limit_df_stop_none', 'limit_df_noreset', 'epoch_df_all', 'epoch_df_longer',
         'rc_edges_trough']
NFIXED = len(FIXED)
PLOTS = {n for n in FIXED if n.startswith(('plot_', 'bm_plot'))}
GROUPS = {n for n in FIXED if n.startswith(('g2d', 'g3d'))}
CHEAP = [n for n in FIXED if n not in PLOTS and n not in GROUPS]
SELF = {'bm_fit': 'bm', 'bm_rc': 'bm', 'bg_fit': 'bg', 'bg_rc': 'bg'}      # object calls: may change their own object only


# ---------------------------------------------------------------------------------------------------------------------------
# generators (every choice from the rng handed to `cases`)

FSX = [1, 1, 1, 2, 0.5]
BAND = ['std', 'std', 'narrow', 'wide', 'hi']
FEK = [None, 'fek', 'fek2', 'fek_ns', 'fek_nopad', 'fek_nopad', 'fek_first']
# entry points that refuse a dictionary naming `first_extrema` get it less often
FEK_CF = [None, 'fek', 'fek2', 'fek_ns', 'fek_nopad', 'fek', 'fek2', 'fek_ns', 'fek_nopad', 'fek_nopad', 'fek_first']
# per-history variants of env['fek'] (the dictionary the fixed call kinds pass): entries merged into it
FEKV = [None, None, None, {'pad': False}, {'pad': False}, {'pad': False, 'boundary': 0}, {'pad': True, 'boundary': 6}]
# per-history storage of the shared signal objects
# values of the recording (case field `sigshape`): exactly constant stretches and tie-rich recordings
SHAPES = ['plateau', 'plateau', 'blank', 'blank', 'clip', 'quant']
SIGV = [None] * 6 + ['nan_edges', 'nan_edges', 'nan_edges', 'int64', 'int16', 'float32', 'readonly', 'readonly']
PEAK_TABLES = ['df_samples', 'df_shape', 'df']
SHAPE_TABLES = ['df_shape', 'df_shape_trough', 'df', 'df_trough']
BURST_TABLES = ['df', 'df_trough', 'df_quiet']
ALL_TABLES = ['df', 'df_trough', 'df_quiet', 'df_shape', 'df_shape_trough', 'df_amp']


FSO = [1, 1, 1, 0.8, 1.25]


def _fsband(r):
    """fsx rescales the time axis (fs and f_range together: same digital filter), fso changes the sampling rate alone,
    band changes the frequency range alone"""
    return {'fsx': r.choice(FSX), 'fso': r.choice(FSO), 'band': r.choice(BAND)}


def _bg_fit(r):
    dim = r.choice([2, 2, 3])
    return dict(dim=dim, axis=r.choice([0, 0, None] if dim == 2 else [0, 1, [0, 1]]), n_jobs=r.choice([1, 2]), **_fsband(r))


def _g3d(r):
    axis = r.choice([0, 1, [0, 1]])
    return dict(cfk=r.choice(['cfk', 'cfk_grid', 'cfk_amp'] if axis == [0, 1] else ['cfk', 'cfk_list', 'cfk_amp']), axis=axis,
                n_jobs=r.choice([1, 2]), **_fsband(r))


def _family(name):
    """the parametrised kind that calls the same library function as a fixed kind"""
    for pre, fam in (('cf_', 'cf_p'), ('shape', 'shape_p'), ('burst_fraction', 'burst_fraction_p'), ('burst_', 'burst_p'),
                     ('cyclepoints', 'cyclepoints_p'), ('g2d', 'g2d_p'), ('g3d', 'g3d_p'), ('rc_edges', 'rc_edges_p'), ('limit_df', 'limit_p'),
                     ('epoch_df', 'epoch_p'), ('drop_samples', 'drop_p'), ('band_amp', 'band_amp_p'), ('amp_consistency', 'amp_cons_p'),
                     ('period_consistency', 'per_cons_p'), ('find_extrema', 'find_extrema_p'), ('bm_plot', 'bm_fit')):
        if name.startswith(pre):
            return fam
    return None


PGEN = {
    'cf_p': lambda r: dict(center=r.choice(['peak', 'trough']), method=r.choice(['cycles', 'cycles', 'amp']), fek=r.choice(FEK_CF),
                           bk=r.choice(['bk', 'bk2']), rs=r.random() < 0.8, **_fsband(r)),
    'shape_p': lambda r: dict(center=r.choice(['peak', 'trough']), fek=r.choice(FEK_CF), n_cycles=r.choice([2, 3, 5, 7]), **_fsband(r)),
    'band_amp_p': lambda r: dict(table=r.choice(PEAK_TABLES), n_cycles=r.choice([2, 3, 5, 7]), **_fsband(r)),
    'cyclepoints_p': lambda r: dict(fek=r.choice(FEK), **_fsband(r)),
    'find_extrema_p': lambda r: dict(fek=r.choice(FEK), first=r.choice(['peak', 'trough', None]), **_fsband(r)),
    'burst_p': lambda r: dict(table=r.choice(SHAPE_TABLES), method=r.choice(['cycles', 'amp']), bk=r.choice(['bk_feat', 'bk_feat2'])),
    'burst_fraction_p': lambda r: dict(table=r.choice(PEAK_TABLES + ['df_trough']), at=r.choice([[0.5, 1.5], [1, 2], [0.3, 1.0]]),
                                       mnc=r.choice([1, 2, 3, 5]), n_cycles=r.choice([2, 3, 5, 7]), **_fsband(r)),
    'amp_cons_p': lambda r: dict(table=r.choice(SHAPE_TABLES), direction=r.choice(['both', 'next', 'last'])),
    'per_cons_p': lambda r: dict(table=r.choice(SHAPE_TABLES), direction=r.choice(['both', 'next', 'last'])),
    'rc_edges_p': lambda r: dict(table=r.choice(BURST_TABLES), thr=r.choice(['thr', 'thr_lo'])),
    'limit_p': lambda r: dict(table=r.choice(ALL_TABLES), a=r.choice([None, 0.0, 0.1, 0.3]), b=r.choice([None, 0.6, 0.85, 1.0]),
                              reset=r.random() < 0.6),
    'epoch_p': lambda r: dict(table=r.choice(ALL_TABLES), frac=r.choice([0.2, 0.34, 0.5, 1.0])),
    'drop_p': lambda r: dict(table=r.choice(ALL_TABLES)),
    'g2d_p': lambda r: dict(cfk=r.choice(['cfk', 'cfk_list', 'cfk_amp', 'cfk_rs']), axis=r.choice([0, 0, None]),
                            n_jobs=r.choice([1, 2]), rs=r.random() < 0.7, **_fsband(r)),
    'g3d_p': lambda r: _g3d(r),
    'bm_fit': lambda r: _fsband(r),
    'bm_rc': lambda r: dict(red=r.choice([None, 0, 0.05, 0.1])),
    'bm_new': lambda r: dict(center=r.choice(['peak', 'trough']), method=r.choice(['cycles', 'amp']), fek=r.choice(FEK_CF)),
    'bg_fit': lambda r: _bg_fit(r),
    'bg_rc': lambda r: dict(red=r.choice([None, 0, 0.05])),
}
# documented helpers (their own results: model comparison only); the full grid of flag values is enumerated by `cases`
HGRID = {
    'h_rename': {'center': ['trough', 'peak'], 'table': ['df_shape', 'df', 'df_shape_trough'], 'rs': [True, False]},
    'h_split': {'table': ALL_TABLES},
    'h_extrema_df': {'table': ALL_TABLES},
    'h_flatten': {'col': ['Label', 'epoch']},
    'h_limit_signal': {'a': [None, 0.1, 0.3], 'b': [None, 0.7, 0.9]},
    'h_minburst': {'n': [0, 1, 2, 4, 6]},
    'h_detect': {'table': BURST_TABLES, 'thr': ['thr', 'thr_lo', 'e_thr']},
    'h_detect_amp': {'thr': ['thr_amp', 'e_thr']},
    'h_flank': {'flank': ['rise', 'decay'], 'mid': [None, 0.1]},
    'h_reduce': {'red': [None, 0.1]},
}
for _h_name, _h_grid in HGRID.items():
    PGEN[_h_name] = (lambda g: (lambda r: {k: r.choice(v) for k, v in g.items()}))(_h_grid)


def _helper_grid():
    import itertools
    out = []
    for name in sorted(HGRID):
        ks = sorted(HGRID[name])
        for vals in itertools.product(*[HGRID[name][k] for k in ks]):
            out.append(['c', name, dict(zip(ks, vals))])
    return out


PNAMES = sorted(PGEN)
HELPERS = [n for n in PNAMES if n.startswith('h_')]
SETTINGS = ['cf_p', 'shape_p', 'band_amp_p', 'cyclepoints_p', 'find_extrema_p', 'burst_p', 'burst_fraction_p', 'amp_cons_p',
            'per_cons_p', 'rc_edges_p', 'limit_p', 'epoch_p', 'g2d_p', 'bm_new']
RULE = RULE % (NFIXED, len(PNAMES) - len(HELPERS))

OPT_EDITS = [
    ('thr', [], 'monotonicity_threshold', [0.3, 0.9]), ('thr', [], 'min_n_cycles', [1, 3, 4]), ('thr', [], 'amp_fraction_threshold', [0.0, 0.3]),
    ('thr', [], 'amp_consistency_threshold', [0.1, 0.7]), ('thr', [], 'period_consistency_threshold', [0.2, 0.6]),
    ('thr_lo', [], 'monotonicity_threshold', [0.1, 0.5]), ('thr_amp', [], 'burst_fraction_threshold', [0.3, 0.8]),
    ('thr_amp', [], 'min_n_cycles', [1, 4]), ('bk', [], 'amp_threshes', [[0.3, 1.0], [1, 2]]), ('bk', [], 'min_n_cycles', [1, 4]),
    ('bk2', [], 'amp_threshes', [[0.4, 1.1]]), ('bk_feat', [], 'amp_threshes', [[0.3, 1.0], [1, 2]]), ('bk_feat', [], 'min_n_cycles', [2, 4]),
    ('bk_feat2', ['filter_kwargs'], 'n_cycles', [2, 7]), ('bk_feat2', ['filter_kwargs'], 'magnitude_type', ['amplitude', 'power']),
    ('bk2', ['filter_kwargs'], 'avg_type', ['median', 'mean']), ('fek', [], 'boundary', [0, 5, 10]), ('fek', ['filter_kwargs'], 'n_cycles', [2, 5, 7]),
    ('fek2', [], 'boundary', [3]), ('fek2', ['filter_kwargs'], 'n_cycles', [3, 7]), ('cfk', [], 'center_extrema', ['trough', 'peak']),
    ('cfk', ['threshold_kwargs'], 'min_n_cycles', [3, 1]), ('cfk', [], 'find_extrema_kwargs', [{'filter_kwargs': {'n_cycles': 5}}]),
    ('cfk_list', [1, 'threshold_kwargs'], 'monotonicity_threshold', [0.5, 0.0]), ('cfk_list', [0], 'center_extrema', ['trough']),
    ('cfk_amp', ['burst_kwargs'], 'amp_threshes', [[0.3, 1.0]]), ('cfk_amp', ['threshold_kwargs'], 'burst_fraction_threshold', [0.2]),
    ('cfk_rs', [], 'return_samples', [True]), ('e_thr', [], 'min_n_cycles', [2]), ('e_bk', [], 'amp_threshes', [[0.6, 1.4]]),
    ('thr_g', [], 'monotonicity_threshold', [0.3, 0.8]), ('thr_g', [], 'min_n_cycles', [1, 3]),
    ('fek', [], 'pad', [False, True]), ('fek_nopad', [], 'pad', [True, False]), ('fek_nopad', [], 'boundary', [0, 4]),
    ('fek_first', [], 'first_extrema', ['peak', None, 'trough']), ('fek_first', [], 'pad', [False]), ('fek2', [], 'pad', [False]),
]
OPT_DELETES = [('fek_nopad', [], 'pad'), ('fek_first', [], 'first_extrema'), ('fek', [], 'boundary'), ('thr', [], 'amp_fraction_threshold'), ('bk', [], 'min_n_cycles'), ('e_thr', [], 'min_n_cycles'),
               ('cfk', [], 'find_extrema_kwargs'), ('cfk_list', [0], 'center_extrema')]
COL_EDITS = [('df', 'is_burst', 'flip'), ('df', 'volt_amp', 'reverse'), ('df', 'amp_consistency', 'reverse'), ('df', 'monotonicity', 'scale'),
             ('df_shape', 'volt_rise', 'scale'), ('df_shape', 'period', 'scale'), ('df_shape', 'volt_amp', 'reverse'),
             ('df_trough', 'is_burst', 'flip'), ('df_trough', 'period_consistency', 'reverse'), ('df_shape_trough', 'volt_decay', 'scale'),
             ('df_shape_trough', 'period', 'reverse'), ('df_quiet', 'is_burst', 'flip'), ('df_amp', 'burst_fraction', 'reverse'),
             ('df_samples', 'sample_zerox_rise', 'minus1')]


def _gen_mut(r, what=None):
    k = what or r.choice(['scale', 'scale', 'shift', 'neg', 'refill', 'reverse', 'roll', 'opt', 'opt', 'opt', 'del', 'col', 'col', 'sigs',
                          'retable', 'bm', 'bg', 'extrema'])
    if k == 'scale':
        return ['m', 'scale', {'c': r.choice([2.0, 0.5, 3.0, -1.0, 0.1, 1000.0])}]
    if k == 'shift':
        return ['m', 'shift', {'c': r.choice([0.25, -0.5, 1.0])}]
    if k == 'roll':
        return ['m', 'roll', {'k': r.choice([3, 7, 20])}]
    if k == 'opt':
        d, path, key, vals = r.choice(OPT_EDITS)
        return ['m', 'opt', {'dict': d, 'path': path, 'key': key, 'value': r.choice(vals)}]
    if k == 'del':
        d, path, key = r.choice(OPT_DELETES)
        return ['m', 'del', {'dict': d, 'path': path, 'key': key}]
    if k == 'col':
        t, c, op = r.choice(COL_EDITS)
        return ['m', 'col', {'table': t, 'col': c, 'op': op, 'c': r.choice([2.0, 0.5])}]
    if k == 'sigs':
        return ['m', 'sigs', {'which': r.choice(['sigs2', 'sigs3']), 'op': r.choice(['scale', 'row', 'neg']), 'c': r.choice([2.0, 0.5])}]
    if k == 'bm':
        return ['m', 'bm', {'edit': r.choice(['amp', 'cycles', 'trough', 'peak', 'fek2', 'fek', 'fek_nopad', 'rs_false', 'rs_true', 'own_thr', 'thr_item'])}]
    if k == 'bg':
        return ['m', 'bg', {'edit': r.choice(['amp', 'cycles', 'trough', 'peak', 'fek2', 'fek_nopad', 'thr_item'])}]
    return ['m', k, {}]        # neg, refill, reverse, retable, extrema


def _gen_call(r, name=None, pool=None):
    if name is None:
        name = r.choice(pool)
    if name in PGEN:
        return ['c', name, PGEN[name](r)]
    return ['c', name, {}]


def _key(st):
    return st[1] + ' ' + json.dumps(st[2], sort_keys=True)


def _distinct(r, name, n):
    out, seen = [], set()
    for _ in range(60):
        st = _gen_call(r, name)
        if _key(st) not in seen:
            seen.add(_key(st))
            out.append(st)
        if len(out) == n:
            break
    return out


SIG_EDITS = ['scale', 'scale', 'shift', 'neg', 'refill', 'reverse', 'roll']


def _vary_one(r, st):
    """the same call with exactly ONE setting changed (None if the kind has a single setting value)"""
    name, a = st[1], st[2]
    for _ in range(40):
        b = PGEN[name](r)
        diff = [f for f in a if b.get(f) != a[f]]
        diff = [f for f in diff if _valid(name, dict(a, **{f: b[f]}))]
        if diff:
            f = r.choice(sorted(diff))
            return ['c', name, dict(a, **{f: b[f]})], f
    return None, None


def _valid(name, a):
    """argument combinations the documentation allows (the others only raise)"""
    if name == 'bg_fit':
        return a['axis'] in ([0, None] if a['dim'] == 2 else [0, 1, [0, 1]])
    if name == 'g3d_p':
        return a['cfk'] in (['cfk', 'cfk_grid', 'cfk_amp'] if a['axis'] == [0, 1] else ['cfk', 'cfk_list', 'cfk_amp'])
    return True


def _vary_field(r, st, f):
    name, a = st[1], st[2]
    for _ in range(60):
        b = PGEN[name](r)
        if f in b and b[f] != a.get(f) and _valid(name, dict(a, **{f: b[f]})):
            return ['c', name, dict(a, **{f: b[f]})]
    return None


def _fields(r, name):
    fs = set()
    for _ in range(12):
        fs |= set(PGEN[name](r))
    return sorted(fs)


def _relevant_edit(r, st):
    """a user edit of an object the call reads: its signal, its table, its option dictionary"""
    a = st[2]
    cands = []
    if a.get('table'):
        cands += [['m', 'col', {'table': t, 'col': c, 'op': op, 'c': 2.0}] for t, c, op in COL_EDITS if t == a['table']]
    dicts = [a[k] for k in ('fek', 'cfk', 'bk', 'thr') if a.get(k)]
    if st[1] in ('cf_p', 'bm_new', 'bm_fit') or st[1].startswith(('cf_', 'rc_edges', 'plot_summary', 'plot_param')):
        dicts += ['thr', 'thr_amp', 'bk']
    if st[1] in ('bg_fit', 'bg_rc'):
        dicts += ['thr_g', 'fek']
    if st[1].startswith(('g2d', 'g3d')) and not a.get('cfk'):
        dicts += ['cfk', 'cfk_list', 'cfk_amp', 'cfk_rs']
    for d, path, key, vals in OPT_EDITS:
        if d in dicts:
            cands.append(['m', 'opt', {'dict': d, 'path': path, 'key': key, 'value': r.choice(vals)}])
    if st[1].startswith(('g2d', 'g3d', 'bg_')):
        cands += [_gen_mut(r, 'sigs') for _ in range(3)]
    if st[1].startswith(('bm_', 'plot_summary')):
        cands += [_gen_mut(r, 'bm')]
    if st[1] in ('find_zerox', 'phase'):
        cands += [_gen_mut(r, 'extrema')]
    if cands and r.random() < 0.6:
        return copy.deepcopy(r.choice(cands))
    return _gen_mut(r, r.choice(SIG_EDITS))


def cases(rng, tier):
    q = tier == 'quick'
    out = []

    def add(kind, steps):
        c = {'kind': kind, 'steps': copy.deepcopy(steps), 'sig_kind': rng.choice(['sparse', 'bursty', 'sum']), 'seed': rng.randrange(1000)}
        sigv, nan_k, fekv = rng.choice(SIGV), rng.choice([2, 5, 12, 'filter']), rng.choice(FEKV)
        if sigv:
            c['sigv'] = sigv
            if sigv == 'nan_edges':
                c['nan_k'] = nan_k
        if fekv:
            c['fekv'] = fekv
        out.append(c)

    mixed = CHEAP * 2 + sorted(PLOTS) + sorted(GROUPS) + [n for n in PNAMES if n not in HELPERS] * 3 + HELPERS
    # random sequences over everything; first call = last call
    for _ in range(30 if q else 200):
        k = rng.randint(4, 8) if q else rng.randint(6, 15)
        steps = [_gen_mut(rng) if rng.random() < 0.22 else _gen_call(rng, pool=mixed) for _ in range(k)]
        a = _gen_call(rng, pool=mixed)
        add('sequence', [a] + steps[1:-1] + [a])
    # every fixed kind: [a, b, a] with b the same library function with other settings (else another fixed kind), and
    # [a, user edit of something a reads, a]
    for rep in range(1 if q else 2):
        for i, a in enumerate(FIXED):
            st = ['c', a, {}]
            fam = _family(a)
            mid = _gen_call(rng, fam) if fam and rng.random() < 0.6 else ['c', FIXED[(i + 7 + 5 * rep) % NFIXED], {}]
            add('pair', [st, mid, st])
            if a not in PLOTS or rng.random() < 0.2:
                add('pair-edit', [st, _relevant_edit(rng, st), st])
    # one-factor variation: every parametrised kind x every one of its settings: [p, p with that setting changed, p, ...]
    for rep in range(2 if q else 5):
        for name in PNAMES:
            if name in HELPERS:
                continue
            for f in _fields(rng, name):
                p = _gen_call(rng, name)
                p2 = _vary_field(rng, p, f)
                if p2 is None:
                    continue
                steps = [p, p2, p]
                if not q:
                    p3, _ = _vary_one(rng, p)
                    steps += [x for x in (p3, p2, p) if x][:rng.randint(0, 3)]
                add('one-setting', steps)
    # three unrelated settings of one function on the same objects
    for _ in range(10 if q else 80):
        name = rng.choice(SETTINGS)
        ps = _distinct(rng, name, 3)
        order = [0, 1, 0, 2, 1] if len(ps) == 3 else [0, 0]
        if not q and rng.random() < 0.5:
            order += [rng.randrange(len(ps)) for _ in range(rng.randint(1, 6))]
        add('settings', [ps[i] for i in order])
    # every parametrised kind: call / user edit / call / user edit / call
    for rep in range(2 if q else 7):
        for name in PNAMES:
            if name in HELPERS:
                continue
            a = _gen_call(rng, name)
            steps = [a]
            for _ in range(2 if q else rng.randint(2, 5)):
                steps.append(_relevant_edit(rng, a))
                if rng.random() < 0.25:
                    steps.append(_gen_mut(rng))
                steps.append(a)
            add('edits', steps)
    # every documented helper with every combination of its flags (grid, three per history), then the same analysis
    # peak- and trough-centred, then other analyses
    for rep in range(1 if q else 4):
        hs = _helper_grid()
        rng.shuffle(hs)
        per = 3 if q else rng.choice([1, 2, 3])
        for i in range(0, len(hs), per):
            pk = _gen_call(rng, rng.choice(['cf_p', 'shape_p']))
            pk[2]['center'] = 'peak'
            tr = copy.deepcopy(pk)
            tr[2]['center'] = 'trough'
            more = [_gen_call(rng, pool=['shape', 'shape_trough', 'cf_cycles', 'cf_trough', 'burst_cycles', 'burst_trough', 'band_amp',
                                         'cyclepoints', 'rc_edges', 'rc_edges_trough', 'limit_df', 'limit_df_noreset', 'epoch_df',
                                         'drop_samples', 'g2d_rs', 'g2d_none_rs', 'limit_p', 'epoch_p', 'burst_p', 'rc_edges_p'])
                    for _ in range(rng.randint(1, 2 if q else 4))]
            steps = hs[i:i + per] + [pk, tr] + more
            if rng.random() < 0.5:
                steps = [pk] + steps
            add('helpers', steps)
    # object histories
    for _ in range(14 if q else 80):
        fit = _gen_call(rng, 'bm_fit')
        steps = [fit]
        for _ in range(rng.randint(2, 3) if q else rng.randint(3, 8)):
            steps.append(rng.choice([lambda: _gen_mut(rng, 'bm'), lambda: _gen_mut(rng, 'opt'), lambda: _gen_mut(rng, 'scale'),
                                     lambda: _gen_mut(rng, 'refill'), lambda: _gen_call(rng, 'bm_rc'), lambda: _gen_call(rng, 'bm_new'),
                                     lambda: _gen_call(rng, 'bm_plot')])())
            steps.append(fit if rng.random() < 0.7 else _gen_call(rng, 'bm_fit'))
        add('object', steps)
    # group histories
    for _ in range(8 if q else 45):
        fit = _gen_call(rng, 'bg_fit')
        steps = [fit]
        for _ in range(2 if q else rng.randint(2, 5)):
            steps.append(rng.choice([lambda: _gen_mut(rng, 'bg'), lambda: _gen_mut(rng, 'sigs'), lambda: _gen_call(rng, 'bg_rc'),
                                     lambda: _gen_mut(rng, 'opt'), lambda: _gen_call(rng, 'g2d_p')])())
            steps.append(fit if rng.random() < 0.7 else _gen_call(rng, 'bg_fit'))
        add('group', steps)
    # values of the recording, drawn last (the histories are those of earlier runs)
    for c in out:
        if rng.random() < 0.45:
            c['sigshape'] = rng.choice(SHAPES)
    return out


def shrink(c):
    """drop steps, from the front first"""
    steps = c['steps']
    if len(steps) > 3:
        yield dict(c, steps=steps[len(steps) // 2:])
    for i in range(len(steps)):
        if len(steps) > 1:
            yield dict(c, steps=steps[:i] + steps[i + 1:])


# ---------------------------------------------------------------------------------------------------------------------------
# content hashes and comparison

def _h(obj):
    """strict content hash: values, dtypes, shapes, column order, row labels"""
    import pandas as pd
    m = hashlib.sha256()

    def rec(o):
        if isinstance(o, np.ndarray):
            if o.dtype == object:
                m.update(b'obj' + str(o.shape).encode())
                for x in o.ravel():
                    rec(x)
            else:
                m.update(str(o.dtype).encode() + str(o.shape).encode() + np.ascontiguousarray(o).tobytes())
        elif isinstance(o, pd.DataFrame):
            m.update(repr(list(o.columns)).encode() + repr(list(o.index)).encode())
            for c in o.columns:
                rec(np.asarray(o[c]))
        elif isinstance(o, pd.Series):
            m.update(repr(list(o.index)).encode())
            rec(np.asarray(o))
        elif isinstance(o, dict):
            for k in sorted(o, key=repr):
                m.update(repr(k).encode())
                rec(o[k])
        elif isinstance(o, (list, tuple)):
            m.update(b'[')
            for x in o:
                rec(x)
            m.update(b']')
        elif type(o).__module__.startswith('bycycle') and hasattr(o, '__dict__'):
            m.update(type(o).__name__.encode())
            rec(vars(o))
        else:
            m.update(repr(o).encode())
    rec(obj)
    return int(m.hexdigest()[:12], 16)


def _num(a):
    return a.dtype.kind in 'fiub'


def _lh(res):
    """value hash of a result: what `_vdiff` compares, nothing more (two raising calls are equal)"""
    import pandas as pd
    m = hashlib.sha256()

    def rec(o):
        if isinstance(o, pd.DataFrame):
            m.update(b'T%d' % len(o))
            for c in sorted(o.columns, key=str):
                m.update(str(c).encode())
                rec(np.asarray(o[c]))
        elif isinstance(o, pd.Series):
            rec(np.asarray(o))
        elif isinstance(o, (list, tuple)) and not any(isinstance(x, (pd.DataFrame, pd.Series, np.ndarray, list, tuple, dict)) for x in o):
            rec(np.asarray(o))
        elif isinstance(o, np.ndarray):
            m.update(b'A' + str(o.shape).encode())
            if _num(o):
                f = o.astype(float)
                nan = np.isnan(f)
                m.update(nan.tobytes() + (np.where(nan, 0.0, f) + 0.0).tobytes())
            else:
                for x in o.ravel().tolist():
                    rec(x)
        elif isinstance(o, dict):
            for k in sorted(o, key=repr):
                m.update(repr(k).encode())
                rec(o[k])
        elif isinstance(o, (list, tuple)):
            m.update(b'[%d' % len(o))
            for x in o:
                rec(x)
        elif isinstance(o, (bool, np.bool_, int, np.integer, float, np.floating)):
            rec(np.asarray(o))
        else:
            m.update(repr(o).encode())
    if res[0] == 'exc':
        return -1
    rec(res[1])
    return int(m.hexdigest()[:12], 16)


def _vdiff(x, y, path='result'):
    """first difference in VALUE between two results, or None: column set, lengths, cell values with NaN == NaN.
    Not compared: dtype, column order, row labels, container type of sequences."""
    import pandas as pd
    if isinstance(x, pd.DataFrame) or isinstance(y, pd.DataFrame):
        if not (isinstance(x, pd.DataFrame) and isinstance(y, pd.DataFrame)):
            return '%s: %s vs %s' % (path, type(x).__name__, type(y).__name__)
        if set(x.columns) != set(y.columns):
            return '%s: columns differ: %s' % (path, sorted(set(map(str, x.columns)) ^ set(map(str, y.columns))))
        if len(x) != len(y):
            return '%s: %d rows vs %d rows' % (path, len(x), len(y))
        for c in x.columns:
            d = _vdiff(np.asarray(x[c]), np.asarray(y[c]), '%s[%r]' % (path, c))
            if d:
                return d
        return None
    if isinstance(x, pd.Series):
        x = np.asarray(x)
    if isinstance(y, pd.Series):
        y = np.asarray(y)
    if isinstance(x, np.ndarray) or isinstance(y, np.ndarray):
        if isinstance(x, (list, tuple)):
            x = np.asarray(x)
        if isinstance(y, (list, tuple)):
            y = np.asarray(y)
        if not (isinstance(x, np.ndarray) and isinstance(y, np.ndarray)):
            return '%s: %s vs %s' % (path, type(x).__name__, type(y).__name__)
        if x.shape != y.shape:
            return '%s: shape %s vs %s' % (path, x.shape, y.shape)
        if _num(x) and _num(y):
            xf, yf = x.astype(float), y.astype(float)
            bad = ~((xf == yf) | (np.isnan(xf) & np.isnan(yf)))
            if bad.any():
                i = int(np.flatnonzero(bad.ravel())[0])
                return '%s: element %d: %r vs %r (%d of %d differ)' % (path, i, xf.ravel()[i], yf.ravel()[i], int(bad.sum()), bad.size)
            return None
        for i, (p, q) in enumerate(zip(x.ravel().tolist(), y.ravel().tolist())):
            d = _vdiff(p, q, '%s[%d]' % (path, i))
            if d:
                return d
        return None
    if isinstance(x, dict) or isinstance(y, dict):
        if not (isinstance(x, dict) and isinstance(y, dict)) or set(x) != set(y):
            return '%s: dictionaries with different keys' % path
        for k in x:
            d = _vdiff(x[k], y[k], '%s[%r]' % (path, k))
            if d:
                return d
        return None
    if isinstance(x, (list, tuple)) or isinstance(y, (list, tuple)):
        if not (isinstance(x, (list, tuple)) and isinstance(y, (list, tuple))):
            return '%s: %s vs %s' % (path, type(x).__name__, type(y).__name__)
        if len(x) != len(y):
            return '%s: length %d vs %d' % (path, len(x), len(y))
        for i, (p, q) in enumerate(zip(x, y)):
            d = _vdiff(p, q, '%s[%d]' % (path, i))
            if d:
                return d
        return None
    if isinstance(x, (float, np.floating)) and isinstance(y, (float, np.floating)) and np.isnan(x) and np.isnan(y):
        return None
    try:
        same = bool(x == y)
    except Exception:
        same = repr(x) == repr(y)
    return None if same else '%s: %r vs %r' % (path, x, y)


def _rdiff(a, b):
    """history result vs clean-room result (each ('ok', value) or ('exc', kind, message))"""
    if a[0] != b[0]:
        return 'in the history the call %s, in the clean room it %s' % (
            'returned' if a[0] == 'ok' else 'raised %s(%s)' % (a[1], a[2]), 'returned' if b[0] == 'ok' else 'raised %s(%s)' % (b[1], b[2]))
    if a[0] == 'exc':
        return None          # both raise: nothing returned, nothing to compare (class / message: model comparison only)
    return _vdiff(a[1], b[1])


# ---------------------------------------------------------------------------------------------------------------------------
# the shared argument objects, the calls, the user edits (executed in H and R only)

_ZPID = None


def _preimport():
    """import — never call — everything the children need, so that a fork is enough"""
    global _ZPID
    if _ZPID == os.getpid():
        return
    import pandas, matplotlib                                                   # noqa: F401
    matplotlib.use('Agg')
    import matplotlib.pyplot                                                    # noqa: F401
    import neurodsp.filt, neurodsp.timefrequency, neurodsp.burst                # noqa: F401
    import bycycle, bycycle.features, bycycle.features.shape, bycycle.features.burst, bycycle.features.cyclepoints   # noqa: F401
    import bycycle.cyclepoints, bycycle.cyclepoints.zerox, bycycle.group, bycycle.burst, bycycle.burst.utils          # noqa: F401
    import bycycle.utils.dataframes, bycycle.utils.timeseries, bycycle.plts, bycycle.objs                              # noqa: F401
    _ZPID = os.getpid()


def _guard():
    if _ZPID is not None and os.getpid() == _ZPID:
        raise RuntimeError('harness bug: library call attempted in the pristine parent process')


def _band(fr, b):
    lo, hi = fr
    return {'std': (lo, hi), 'narrow': (lo * 1.15, hi * 0.85), 'wide': (lo * 0.8, hi * 1.2), 'hi': (lo * 1.3, hi * 1.3)}[b]


SIGNALS = ['sig', 'buf2', 'sigs2', 'sigs3']


def _stored(x, c, fs, fr):
    """the recording as the caller stores it (case field `sigv`): float64 | NaN edge samples (what a pre-filter with
    remove_edges=True leaves; `nan_k` samples on each side, 'filter' = half the length of a 3-cycle FIR filter of the band) |
    integer counts | single precision.  'readonly' is applied at the end of `_env` (the flag is not part of the value)."""
    v = c.get('sigv')
    x = np.array(x, dtype=float)
    if v == 'nan_edges':
        k = c.get('nan_k', 5)
        if k == 'filter':
            k = min(len(x) // 6, int(np.ceil(3 * fs / fr[0])) // 2)
        x[:k] = np.nan
        x[len(x) - k:] = np.nan
    elif v in ('int64', 'int16'):
        x = np.round(x * 1000).astype(v)
    elif v == 'float32':
        x = x.astype(np.float32)
    return x


def _shaped(x, c, fs, fr, salt=0):
    """the values of the recording (case field `sigshape`): stretches of >= 3 band periods that are exactly constant (the
    value held / exactly 0.0), clipped tops and bottoms, a coarse amplitude grid."""
    import random
    v = c.get('sigshape')
    x = np.array(x, dtype=float)
    if not v:
        return x
    r = random.Random(c['seed'] * 31 + 7 + salt)
    n = len(x)
    per = fs / (0.5 * (fr[0] + fr[1]))
    if v in ('plateau', 'blank'):
        for _ in range(r.randint(1, 3)):
            ln = min(n, int(np.ceil(per * r.choice([3, 4, 5, 6]))))
            a = r.choice([0, n - ln, r.randrange(0, n - ln + 1), r.randrange(0, n - ln + 1)])
            x[a:a + ln] = x[a] if v == 'plateau' else 0.0
    elif v == 'clip':
        lo, hi = np.quantile(x, r.choice([0.1, 0.25, 0.4])), np.quantile(x, r.choice([0.6, 0.75, 0.9]))
        x = np.clip(x, lo, hi)
    elif v == 'quant':
        step = float(x.max() - x.min()) / r.choice([4, 8, 16])
        if step > 0:
            x = np.round(x / step) * step
    return x


def _churn(seed, n):
    """Allocation history: allocate ~250 float arrays of every malloc size class up to n + 16 doubles (and a few longer
    ones), fill them with random numbers, free them in random order.  Memory that the library later obtains without
    initialising it (np.empty, np.ndarray) is then likely to hold these numbers; the history process and the clean-room
    child use different seeds."""
    r = np.random.RandomState(seed % (1 << 32))
    sizes = list(range(1, n + 17, 2)) + [int(k) for k in r.randint(n, 4 * n + 64, size=16)] + [int(k) for k in r.randint(1, 130, size=32)]
    blocks = [r.uniform(-1e3, 1e3, size=k) if k % 3 else r.standard_normal(k) * 1e6 for k in sizes]
    order = r.permutation(len(blocks))
    for i in order:
        blocks[i] = None
    del blocks


def _env(c):
    import random
    _guard()
    from bycycle.features import compute_features, compute_shape_features, compute_cyclepoints
    from bycycle.cyclepoints import find_extrema
    from bycycle.utils.dataframes import epoch_df
    from bycycle import Bycycle, BycycleGroup
    s = gen.signal(random.Random(c['seed']), kind=c['sig_kind'], max_len=400)
    fs, fr = s['fs'], tuple(s['f_range'])
    base = _shaped(s['sig'], c, fs, fr)
    n = len(base)
    other = gen.signal(random.Random(c['seed'] + 1), kind='bursty', max_len=400)['sig']
    sig, buf2 = _stored(base, c, fs, fr), _stored(_shaped(np.resize(other, n).astype(float), c, fs, fr, salt=1), dict(c, nan_k=3), fs, fr)
    sig_bytes = sig.tobytes()
    thr = {'amp_fraction_threshold': 0.1, 'amp_consistency_threshold': 0.4, 'period_consistency_threshold': 0.4,
           'monotonicity_threshold': 0.6, 'min_n_cycles': 2}
    env = {
        'sig': sig, 'buf2': buf2, 'thr': thr, 'thr_amp': {'burst_fraction_threshold': 0.5, 'min_n_cycles': 2},
        'thr_lo': dict(thr, amp_consistency_threshold=0.2, period_consistency_threshold=0.2, monotonicity_threshold=0.4),
        'thr_g': dict(thr),
        'bk': {'amp_threshes': (0.5, 1.5)}, 'bk2': {'amp_threshes': (0.8, 1.8), 'filter_kwargs': {'n_cycles': 5, 'avg_type': 'mean'}},
        'bk_feat': {'fs': fs, 'f_range': fr, 'amp_threshes': (0.5, 1.5)},
        'bk_feat2': {'fs': fs, 'f_range': fr, 'amp_threshes': (0.3, 1.2), 'min_n_cycles': 2,
                     'filter_kwargs': {'n_cycles': 5, 'avg_type': 'mean', 'magnitude_type': 'power'}},
        'fek': {'filter_kwargs': {'n_cycles': 3}, 'boundary': 2}, 'fek2': {'filter_kwargs': {'n_cycles': 5}, 'boundary': 0},
        'fek_ns': {'filter_kwargs': {'n_seconds': 2.5 / fr[0]}},
        'fek_nopad': {'filter_kwargs': {'n_cycles': 3}, 'pad': False},
        'fek_first': {'first_extrema': 'peak', 'pad': False, 'boundary': 1},
        'e_thr': {}, 'e_bk': {}, 'bk_min': {'min_n_cycles': 8},
        'sigs2': np.array([sig, sig[::-1].copy()]),
        'cfk': {'threshold_kwargs': dict(thr), 'center_extrema': 'peak'},
        'cfk_list': [{'threshold_kwargs': dict(thr)}, {'threshold_kwargs': dict(thr, monotonicity_threshold=0.2), 'center_extrema': 'peak'}],
    }
    env['sigs3'] = np.array([env['sigs2'], env['sigs2'][::-1]])
    if c.get('sigv') == 'nan_edges':
        # the group functions analyse rows one by one or FLATTENED slices (axis=None; 3-D along axis 0 / 1): the missing samples are
        # laid out so that every flattened slice has them at its two ends only (interior NaN runs are refused by the library with an
        # IndexError, and a refusal inside the library's process pool can dead-lock the pool on its way out)
        k = int(np.argmin(np.isnan(sig)))
        fin = np.array(base, dtype=float)
        env['sigs2'] = np.array([fin, fin[::-1].copy()])
        env['sigs3'] = np.array([env['sigs2'], env['sigs2'][::-1]])
        env['sigs2'][0, :k] = np.nan
        env['sigs2'][1, n - k:] = np.nan
        env['sigs3'][0, 0, :k] = np.nan
        env['sigs3'][1, 1, n - k:] = np.nan
    env['fek'].update(copy.deepcopy(c.get('fekv') or {}))
    env['df'] = compute_features(sig, fs, fr, threshold_kwargs=copy.deepcopy(thr))
    env['df_shape'] = compute_shape_features(sig, fs, fr)
    # a table without any burst (strict thresholds): shortcut paths must not write into it either
    env['df_quiet'] = compute_features(sig, fs, fr, threshold_kwargs={'amp_fraction_threshold': 0.99, 'amp_consistency_threshold': 0.99,
                                                                       'period_consistency_threshold': 0.99, 'monotonicity_threshold': 1.0,
                                                                       'min_n_cycles': 3})
    env['peaks'] = env['df']['sample_peak'].values.copy()
    env['troughs'] = env['df']['sample_last_trough'].values.copy()
    env['df_samples'] = compute_cyclepoints(sig, fs, fr)
    env['df_trough'] = compute_features(sig, fs, fr, center_extrema='trough', threshold_kwargs=copy.deepcopy(thr))
    env['df_shape_trough'] = compute_shape_features(sig, fs, fr, center_extrema='trough')
    env['df_amp'] = compute_features(sig, fs, fr, burst_method='amp', burst_kwargs={'amp_threshes': (0.5, 1.5)},
                                     threshold_kwargs={'burst_fraction_threshold': 0.5, 'min_n_cycles': 2})
    env['epochs'] = epoch_df(env['df'], n, max(20, n // 3))
    env['pk'], env['tr'] = find_extrema(sig, fs, fr)
    env['cfk_amp'] = {'burst_method': 'amp', 'burst_kwargs': {'amp_threshes': (0.5, 1.5)},
                      'threshold_kwargs': {'burst_fraction_threshold': 0.5, 'min_n_cycles': 2}}
    env['cfk_rs'] = {'threshold_kwargs': dict(thr), 'return_samples': False, 'center_extrema': 'trough'}
    env['cfk_list_rs'] = [{'threshold_kwargs': dict(thr), 'return_samples': True}, {'threshold_kwargs': dict(thr), 'return_samples': False}]
    env['cfk_grid'] = [[{'threshold_kwargs': dict(thr)}, {'threshold_kwargs': dict(thr, min_n_cycles=3)}],
                       [{'center_extrema': 'trough'}, {'threshold_kwargs': dict(thr)}]]
    # a fitted object sharing the caller's signal and threshold dictionary; the table it was fitted with is watched too
    bm = Bycycle(thresholds=env['thr'])
    bm.fit(sig, fs, fr)
    env['bm'] = bm
    env['bm_df'] = bm.df_features
    env['bg'] = BycycleGroup(thresholds=env['thr_g'], find_extrema_kwargs=env['fek'])
    if c.get('sigv') == 'readonly':
        for k in SIGNALS:
            env[k].setflags(write=False)
    # the analyses that built the tables above were calls on the shared signal object too
    touched = None if sig.tobytes() == sig_bytes else int(np.sum(np.frombuffer(sig.tobytes(), dtype=np.uint8) != np.frombuffer(sig_bytes, dtype=np.uint8)))
    return env, fs, fr, touched


def _readback(jitter=False):
    """the data the plot call handed to matplotlib: lines, bars, scatter offsets of every axes of every open figure.
    plot_feature_categorical spreads its points along x with documented random jitter (np.random): only y is read there."""
    import matplotlib.pyplot as plt
    out = []
    for num in sorted(plt.get_fignums()):
        for ax in plt.figure(num).get_axes():
            for ln in ax.get_lines():
                out.append(np.asarray(np.ma.filled(np.ma.asarray(ln.get_xydata(), dtype=float), np.nan)))
            for p in ax.patches:
                if hasattr(p, 'get_height'):
                    out.append(np.array([p.get_x(), p.get_width(), p.get_height()], dtype=float))
            for col in ax.collections:
                try:
                    xy = np.asarray(np.ma.filled(np.ma.asarray(col.get_offsets(), dtype=float), np.nan))
                    out.append(xy[:, 1].copy() if jitter else xy)
                except Exception:
                    pass
    return out


def _fixed(name, env, fs, fr):
    from bycycle.features import (compute_features, compute_shape_features, compute_burst_features, compute_cyclepoints)
    from bycycle.features.shape import compute_durations, compute_extrema_voltage, compute_symmetry, compute_band_amp
    from bycycle.features.burst import (compute_amp_fraction, compute_amp_consistency, compute_period_consistency,
                                        compute_monotonicity, compute_burst_fraction)
    from bycycle.cyclepoints import find_extrema, find_zerox, extrema_interpolated_phase
    from bycycle.group import compute_features_2d, compute_features_3d
    from bycycle.burst import recompute_edges
    from bycycle.utils.dataframes import limit_df, epoch_df, drop_samples_df
    from bycycle.plts import (plot_burst_detect_summary, plot_cyclepoints_df, plot_cyclepoints_array, plot_burst_detect_param,
                              plot_feature_hist, plot_feature_categorical)
    sig = env['sig']
    n = len(sig)
    thr = env['thr']
    lo, hi = 0.1 * n / fs, 0.9 * n / fs
    g2 = lambda k, **kw: compute_features_2d(env['sigs2'], fs, fr, compute_features_kwargs=env[k], **kw)
    g3 = lambda k, **kw: compute_features_3d(env['sigs3'], fs, fr, compute_features_kwargs=env[k], **kw)
    table = {
        'cf_cycles': lambda: compute_features(sig, fs, fr, threshold_kwargs=thr, find_extrema_kwargs=env['fek']),
        'cf_amp': lambda: compute_features(sig, fs, fr, burst_method='amp', burst_kwargs=env['bk'], threshold_kwargs=env['thr_amp']),
        'cf_trough': lambda: compute_features(sig, fs, fr, center_extrema='trough', threshold_kwargs=thr, find_extrema_kwargs=env['fek']),
        'shape': lambda: compute_shape_features(sig, fs, fr, find_extrema_kwargs=env['fek']),
        'burst_cycles': lambda: compute_burst_features(env['df_shape'], sig),
        'burst_amp': lambda: compute_burst_features(env['df_shape'], sig, burst_method='amp', burst_kwargs=env['bk_feat']),
        'cyclepoints': lambda: compute_cyclepoints(sig, fs, fr, **env['fek']),
        'g2d_dict': lambda: g2('cfk', axis=0, n_jobs=1),
        'g2d_list': lambda: g2('cfk_list', axis=0, n_jobs=2),
        'g2d_none': lambda: g2('cfk_list', axis=None),
        'g3d': lambda: g3('cfk', axis=(0, 1), n_jobs=1),
        'rc_edges': lambda: recompute_edges(env['df'], thr),
        'limit_df': lambda: limit_df(env['df'], fs, start=0.2 * n / fs, stop=0.8 * n / fs),
        'epoch_df': lambda: epoch_df(env['df'], n, max(20, n // 4)),
        'drop_samples': lambda: drop_samples_df(env['df']),
        'plot_summary': lambda: plot_burst_detect_summary(env['df'], sig, fs, thr, xlim=(lo, hi)),
        'plot_cp_df': lambda: plot_cyclepoints_df(env['df'], sig, fs, xlim=(lo, hi)),
        'plot_cp_array': lambda: plot_cyclepoints_array(sig, fs, peaks=env['peaks'], troughs=env['troughs']),
        'plot_param': lambda: plot_burst_detect_param(env['df'], sig, fs, 'monotonicity', thr['monotonicity_threshold']),
        'plot_feature': lambda: plot_feature_hist(env['df'], 'volt_amp'),
        'cf_amp_empty_thr': lambda: compute_features(sig, fs, fr, burst_method='amp', burst_kwargs=env['bk_min'], threshold_kwargs=env['e_thr']),
        'cf_cycles_empty_thr': lambda: compute_features(sig, fs, fr, threshold_kwargs=env['e_thr']),
        'cf_amp_empty_bk': lambda: compute_features(sig, fs, fr, burst_method='amp', burst_kwargs=env['e_bk'], threshold_kwargs=env['thr_amp']),
        'rc_edges_no_bursts': lambda: recompute_edges(env['df_quiet'], thr),
        'limit_df_no_bursts': lambda: limit_df(env['df_quiet'], fs, start=0.2 * n / fs, stop=0.8 * n / fs),
        # group functions: 3-D along one axis (the _proxy_3d -> compute_features_2d(axis=None) path), list options, amp method,
        # option dictionaries that carry 'return_samples' (the key the group functions pop)
        'g3d_ax0': lambda: g3('cfk', axis=0, n_jobs=1),
        'g3d_ax1_list': lambda: g3('cfk_list', axis=1, n_jobs=2),
        'g3d_ax0_list': lambda: g3('cfk_list', axis=0, n_jobs=1),
        'g3d_grid': lambda: g3('cfk_grid', axis=(0, 1), n_jobs=1),
        'g2d_none_dict': lambda: g2('cfk', axis=None),
        'g2d_amp': lambda: g2('cfk_amp', axis=0, n_jobs=1),
        'g2d_none_amp': lambda: g2('cfk_amp', axis=None),
        'g3d_amp': lambda: g3('cfk_amp', axis=(0, 1), n_jobs=1),
        'g2d_rs': lambda: g2('cfk_rs', axis=0, n_jobs=1),
        'g2d_list_rs': lambda: g2('cfk_list_rs', axis=0, n_jobs=1),
        'g2d_none_rs': lambda: g2('cfk_rs', axis=None, return_samples=False),
        # the individual shape / burst-feature / cyclepoint functions on caller-owned tables and arrays
        'durations': lambda: compute_durations(env['df_samples']),
        'extrema_voltage': lambda: compute_extrema_voltage(env['df_samples'], sig),
        'symmetry': lambda: compute_symmetry(env['df_samples'], sig),
        'band_amp': lambda: compute_band_amp(env['df_samples'], sig, fs, fr),
        'amp_fraction': lambda: compute_amp_fraction(env['df_shape']),
        'amp_consistency': lambda: compute_amp_consistency(env['df_shape']),
        'amp_consistency_next': lambda: compute_amp_consistency(env['df_shape_trough'], direction='next'),
        'period_consistency': lambda: compute_period_consistency(env['df_shape'], direction='last'),
        'monotonicity': lambda: compute_monotonicity(env['df_samples'], sig),
        'burst_fraction': lambda: compute_burst_fraction(env['df_samples'], sig, fs, fr, amp_threshes=tuple(env['bk']['amp_threshes'])),
        'find_extrema': lambda: find_extrema(sig, fs, fr, **env['fek']),
        'find_zerox': lambda: find_zerox(sig, env['pk'], env['tr']),
        'phase': lambda: extrema_interpolated_phase(sig, env['pk'], env['tr']),
        'shape_trough': lambda: compute_shape_features(sig, fs, fr, center_extrema='trough', find_extrema_kwargs=env['fek']),
        'burst_trough': lambda: compute_burst_features(env['df_shape_trough'], sig),
        'burst_trough_amp': lambda: compute_burst_features(env['df_shape_trough'], sig, burst_method='amp', burst_kwargs=env['bk_feat']),
        # plots: no xlim (the caller's table reaches the drawing code unsliced), result-only, step-wise, trough / burst-free tables
        'plot_categorical': lambda: plot_feature_categorical(env['df'], 'volt_amp'),
        'plot_categorical_group': lambda: plot_feature_categorical(env['df'], 'time_rdsym', group_by='is_burst'),
        'bm_plot': lambda: env['bm'].plot(xlim=(lo, hi)),
        'bm_plot_nolim': lambda: env['bm'].plot(),
        'plot_summary_nolim': lambda: plot_burst_detect_summary(env['df'], sig, fs, thr),
        'plot_summary_only': lambda: plot_burst_detect_summary(env['df'], sig, fs, thr, plot_only_result=True),
        'plot_summary_step': lambda: plot_burst_detect_summary(env['df'], sig, fs, thr, xlim=(lo, hi), interp=False),
        'plot_summary_trough': lambda: plot_burst_detect_summary(env['df_trough'], sig, fs, thr, xlim=(lo, hi)),
        'plot_summary_quiet': lambda: plot_burst_detect_summary(env['df_quiet'], sig, fs, thr),
        'plot_cp_df_nolim': lambda: plot_cyclepoints_df(env['df'], sig, fs),
        'plot_cp_df_trough': lambda: plot_cyclepoints_df(env['df_trough'], sig, fs, xlim=(lo, hi)),
        'plot_param_nolim_step': lambda: plot_burst_detect_param(env['df_trough'], sig, fs, 'amp_consistency',
                                                                 thr['amp_consistency_threshold'], interp=False),
        'plot_hist_all': lambda: plot_feature_hist(env['df_quiet'], 'band_amp', only_bursts=False),
        'limit_df_start_none': lambda: limit_df(env['df'], fs, stop=0.8 * n / fs),
        'limit_df_stop_none': lambda: limit_df(env['df'], fs, start=0.2 * n / fs),
        'limit_df_noreset': lambda: limit_df(env['df_trough'], fs, start=0.2 * n / fs, stop=0.8 * n / fs, reset_indices=False),
        'epoch_df_all': lambda: epoch_df(env['df'], n, n),
        'epoch_df_longer': lambda: epoch_df(env['df_trough'], n, n + 50),
        'rc_edges_trough': lambda: recompute_edges(env['df_trough'], thr),
    }
    return table[name]()


def _param(name, a, env, fs, fr):
    from bycycle.features import compute_features, compute_shape_features, compute_burst_features, compute_cyclepoints
    from bycycle.features.shape import compute_band_amp
    from bycycle.features.burst import compute_amp_consistency, compute_period_consistency, compute_burst_fraction
    from bycycle.cyclepoints import find_extrema
    from bycycle.cyclepoints.zerox import find_flank_zerox
    from bycycle.group import compute_features_2d, compute_features_3d
    from bycycle.burst import recompute_edges, detect_bursts_cycles, detect_bursts_amp
    from bycycle.burst.utils import check_min_burst_cycles
    from bycycle.utils.dataframes import limit_df, epoch_df, drop_samples_df, rename_extrema_df, split_samples_df, get_extrema_df, flatten_dfs
    from bycycle.utils.timeseries import limit_signal
    from bycycle import Bycycle
    sig = env['sig']
    n = len(sig)
    fs2 = fs * a.get('fsx', 1) * a.get('fso', 1)
    fr2 = tuple(f * a.get('fsx', 1) for f in _band(fr, a.get('band', 'std')))
    fek = env[a['fek']] if a.get('fek') else None
    axis = tuple(a['axis']) if isinstance(a.get('axis'), list) else a.get('axis')
    if name == 'cf_p':
        amp = a['method'] == 'amp'
        return compute_features(sig, fs2, fr2, center_extrema=a['center'], burst_method=a['method'], burst_kwargs=env[a['bk']] if amp else None,
                                threshold_kwargs=env['thr_amp'] if amp else env['thr'], find_extrema_kwargs=fek, return_samples=a['rs'])
    if name == 'shape_p':
        return compute_shape_features(sig, fs2, fr2, center_extrema=a['center'], find_extrema_kwargs=fek, n_cycles=a['n_cycles'])
    if name == 'band_amp_p':
        return compute_band_amp(env[a['table']], sig, fs2, fr2, n_cycles=a['n_cycles'])
    if name == 'cyclepoints_p':
        return compute_cyclepoints(sig, fs2, fr2, **(fek or {}))
    if name == 'find_extrema_p':
        return find_extrema(sig, fs2, fr2, **dict({'first_extrema': a['first']}, **(fek or {})))
    if name == 'burst_p':
        return compute_burst_features(env[a['table']], sig, burst_method=a['method'], burst_kwargs=env[a['bk']] if a['method'] == 'amp' else None)
    if name == 'burst_fraction_p':
        return compute_burst_fraction(env[a['table']], sig, fs2, fr2, amp_threshes=tuple(a['at']), min_n_cycles=a['mnc'],
                                      filter_kwargs={'n_cycles': a['n_cycles']})
    if name == 'amp_cons_p':
        return compute_amp_consistency(env[a['table']], direction=a['direction'])
    if name == 'per_cons_p':
        return compute_period_consistency(env[a['table']], direction=a['direction'])
    if name == 'rc_edges_p':
        return recompute_edges(env[a['table']], env[a['thr']])
    if name == 'limit_p':
        return limit_df(env[a['table']], fs, start=None if a['a'] is None else a['a'] * n / fs, stop=None if a['b'] is None else a['b'] * n / fs,
                        reset_indices=a['reset'])
    if name == 'epoch_p':
        return epoch_df(env[a['table']], n, max(10, int(a['frac'] * n)))
    if name == 'drop_p':
        return drop_samples_df(env[a['table']])
    if name == 'g2d_p':
        return compute_features_2d(env['sigs2'], fs2, fr2, compute_features_kwargs=env[a['cfk']], axis=axis, return_samples=a['rs'],
                                   n_jobs=a['n_jobs'])
    if name == 'g3d_p':
        return compute_features_3d(env['sigs3'], fs2, fr2, compute_features_kwargs=env[a['cfk']], axis=axis, n_jobs=a['n_jobs'])
    if name == 'bm_fit':
        env['bm'].fit(sig, fs2, fr2)
        return env['bm'].df_features
    if name == 'bm_rc':
        env['bm'].recompute_edges(a['red'])
        return env['bm'].df_features
    if name == 'bm_new':
        amp = a['method'] == 'amp'
        b = Bycycle(center_extrema=a['center'], burst_method=a['method'], burst_kwargs=env['bk'] if amp else None,
                    thresholds=env['thr_amp'] if amp else env['thr'], find_extrema_kwargs=fek)
        b.fit(sig, fs, fr)
        return b.df_features
    if name == 'bg_fit':
        env['bg'].fit(env['sigs2'] if a['dim'] == 2 else env['sigs3'], fs2, fr2, axis=axis, n_jobs=a['n_jobs'])
        return env['bg'].df_features
    if name == 'bg_rc':
        env['bg'].recompute_edges(a['red'])
        return env['bg'].df_features
    # documented helpers; those that rename / move / label in place by design get a private copy of the caller's table
    if name == 'h_rename':
        return rename_extrema_df(a['center'], copy.deepcopy(env[a['table']]), return_samples=a['rs'])
    if name == 'h_split':
        return split_samples_df(copy.deepcopy(env[a['table']]))
    if name == 'h_extrema_df':
        return get_extrema_df(env[a['table']])
    if name == 'h_flatten':
        return flatten_dfs(copy.deepcopy(env['epochs']), list(range(len(env['epochs']))), column_name=a['col'])
    if name == 'h_limit_signal':
        return limit_signal(np.arange(n) / fs, sig, start=None if a['a'] is None else a['a'] * n / fs,
                            stop=None if a['b'] is None else a['b'] * n / fs)
    if name == 'h_minburst':
        return check_min_burst_cycles(np.array(env['df']['is_burst'].values, dtype=bool), min_n_cycles=a['n'])
    if name == 'h_detect':
        return detect_bursts_cycles(copy.deepcopy(env[a['table']]), **env[a['thr']])
    if name == 'h_detect_amp':
        return detect_bursts_amp(copy.deepcopy(env['df_amp']), **env[a['thr']])
    if name == 'h_flank':
        return find_flank_zerox(sig, a['flank'], midpoint=a['mid'])
    if name == 'h_reduce':
        return env['bm'].reduce_thresholds(a['red'])
    raise KeyError(name)


def _exec(st, env, fs, fr):
    """one call on the given argument objects: ('ok', value) or ('exc', class, message)"""
    import matplotlib.pyplot as plt
    _guard()
    name, a = st[1], st[2]
    try:
        if name in PGEN:
            return ('ok', _param(name, a, env, fs, fr))
        r = _fixed(name, env, fs, fr)
        return ('ok', _readback(jitter=name.startswith('plot_categorical')) if name in PLOTS else r)
    except Exception as e:
        return ('exc', exc_kind(e), str(e)[:160])
    finally:
        if name in PLOTS:
            plt.close('all')


def _mutate(st, env, fs, fr):
    """what a user may do to his own objects between two calls"""
    _guard()
    locked = [env[k] for k in SIGNALS if not env[k].flags.writeable]
    for arr in locked:
        arr.setflags(write=True)
    try:
        _mutate1(st, env, fs, fr)
    finally:
        for arr in locked:
            arr.setflags(write=False)


def _mutate1(st, env, fs, fr):
    name, a = st[1], st[2]
    sig = env['sig']
    if name == 'scale':
        sig[:] = sig * a['c']              # = `sig *= c` for floating-point storage; integer storage truncates
    elif name == 'shift':
        sig[:] = sig + a['c']
    elif name == 'neg':
        np.negative(sig, out=sig)
    elif name == 'refill':
        sig[:] = env['buf2']
    elif name == 'reverse':
        sig[:] = sig[::-1].copy()
    elif name == 'roll':
        sig[:] = np.roll(sig, a['k'])
    elif name in ('opt', 'del'):
        d = env[a['dict']]
        for p in a['path']:
            d = d[p]
        if name == 'del':
            d.pop(a['key'], None)
        else:
            v = copy.deepcopy(a['value'])
            d[a['key']] = tuple(v) if a['key'] == 'amp_threshes' else v
    elif name == 'col':
        df, col = env[a['table']], a['col']
        if col in df.columns:
            v = df[col].values
            df[col] = {'flip': lambda: ~v.astype(bool), 'reverse': lambda: v[::-1].copy(), 'scale': lambda: v * a['c'],
                       'minus1': lambda: np.maximum(v - 1, 0)}[a['op']]()
    elif name == 'sigs':
        arr = env[a['which']]
        if a['op'] == 'scale':
            arr[...] = arr * a['c']
        elif a['op'] == 'neg':
            np.negative(arr, out=arr)
        else:
            src = arr[0][..., ::-1].copy()
            if src.dtype.kind == 'f':
                src[np.isnan(src)] = 0.0          # keeps missing samples at the ends of every flattened slice (see _env)
            arr[-1] = src
    elif name == 'retable':
        from bycycle.features import compute_features, compute_shape_features, compute_cyclepoints
        env['df_shape'] = compute_shape_features(sig, fs, fr)
        env['df_samples'] = compute_cyclepoints(sig, fs, fr)
        env['df'] = compute_features(sig, fs, fr, threshold_kwargs=dict(env['thr']))
        env['df_trough'] = compute_features(sig, fs, fr, center_extrema='trough', threshold_kwargs=dict(env['thr']))
    elif name in ('bm', 'bg'):
        o, e = env[name], a['edit']
        if e == 'amp':
            o.burst_method, o.thresholds, o.burst_kwargs = 'amp', env['thr_amp'], env['bk']
        elif e == 'cycles':
            o.burst_method, o.thresholds, o.burst_kwargs = 'cycles', env['thr'] if name == 'bm' else env['thr_g'], {}
        elif e in ('trough', 'peak'):
            o.center_extrema = e
        elif e in ('fek', 'fek2', 'fek_nopad'):
            o.find_extrema_kwargs = env[e]
        elif e in ('rs_false', 'rs_true'):
            o.return_samples = e == 'rs_true'
        elif e == 'own_thr':
            o.thresholds = dict(env['thr_lo'])
        elif e == 'thr_item':
            k = 'monotonicity_threshold' if 'monotonicity_threshold' in o.thresholds else 'burst_fraction_threshold'
            o.thresholds[k] = 0.35 if o.thresholds.get(k) != 0.35 else 0.55
    elif name == 'extrema':
        env['pk'], env['tr'] = env['pk'][1:].copy(), env['tr'][1:].copy()
    else:
        raise KeyError(name)


def _history(c, ref):
    """executed in H: the whole history on one set of argument objects; `ref(bytes) -> bytes` asks the pristine parent
    for a clean-room execution of one call"""
    t0 = time.time()
    try:
        # the library refuses some recordings with long NaN edges (argmin of an empty half-wave) and a few with a blanked
        # segment while the shared tables are built: not a C15 matter; the history then runs on the same recording with
        # two missing samples on each side, resp. on the recording as generated (counted in the evidence)
        tries = [c]
        if c.get('sigv') == 'nan_edges' and c.get('nan_k') != 2:
            tries.append(dict(c, nan_k=2))
        if c.get('sigshape'):
            tries.extend([dict(x, sigshape=None) for x in list(tries)])
        for i, cc in enumerate(tries):
            try:
                env, fs, fr, touched = _env(cc)
                break
            except Exception:
                if i == len(tries) - 1:
                    raise
        shape_refused = bool(c.get('sigshape')) and not cc.get('sigshape')
    except Exception as e:
        return {'skip': 'environment: %s %s' % (exc_kind(e), str(e)[:100])}
    keys = sorted(env)
    cur = [_h(env[k]) for k in keys]
    churn = zlib.crc32(json.dumps(c, sort_keys=True, default=str).encode())       # allocation-churn seeds of this history
    out = {'keys': keys, 'env0': cur, 'steps': [], 'n_ref': 0, 'ref_s': 0.0, 'env_touched': touched, 'shape_refused': shape_refused}
    for st in c['steps']:
        if st[0] == 'm':
            err = None
            try:
                _mutate(st, env, fs, fr)
            except Exception as e:
                err = [exc_kind(e), str(e)[:100]]
            cur = [_h(env[k]) for k in keys]
            out['steps'].append({'t': 'm', 'env': cur, 'err': err})
            continue
        payload = pickle.dumps((st, env, fs, fr, churn + 2 * len(out['steps']) + 1), protocol=4)   # the CURRENT values, before the call
        _churn(churn + 2 * len(out['steps']), len(env['sig']))
        mine = _exec(st, env, fs, fr)
        now = [_h(env[k]) for k in keys]
        t1 = time.time()
        theirs = pickle.loads(ref(payload))
        out['ref_s'] += time.time() - t1
        out['n_ref'] += 1
        allowed = SELF.get(st[1])
        rec = {'t': 'c', 'key': _key(st), 'rh': _h(mine), 'lh': _lh(mine), 'eq': _h(mine) == _h(theirs), 'diff': None, 'env': now,
               'changed': [k for k, x, y in zip(keys, cur, now) if x != y and k != allowed],
               'exc': list(mine[1:]) if mine[0] == 'exc' else None}
        if theirs[0] == 'harness':
            rec['href'] = theirs[1]
        else:
            rec['diff'] = _rdiff(mine, theirs)
        out['steps'].append(rec)
        cur = now
    out['hist_s'] = round(time.time() - t0 - out['ref_s'], 3)
    out['ref_s'] = round(out['ref_s'], 3)
    return out


def _ref_exec(payload):
    """executed in R: one call on a by-value copy of the argument objects, nothing before it"""
    st, env, fs, fr, churn = pickle.loads(payload)
    _churn(churn, len(env['sig']))
    return _exec(st, env, fs, fr)


# ---------------------------------------------------------------------------------------------------------------------------
# processes

def _send(fd, data):
    data = struct.pack('<Q', len(data)) + data
    while data:
        k = os.write(fd, data[:1 << 16])
        data = data[k:]


def _read(fd, n):
    buf = b''
    while len(buf) < n:
        chunk = os.read(fd, min(1 << 20, n - len(buf)))
        if not chunk:
            raise EOFError
        buf += chunk
    return buf


def _recv(fd):
    (n,) = struct.unpack('<Q', _read(fd, 8))
    return _read(fd, n)


def _fork_ref(payload):
    r, w = os.pipe()
    pid = os.fork()
    if pid == 0:
        try:
            os.close(r)
            try:
                data = pickle.dumps(_ref_exec(payload), protocol=4)
            except BaseException as e:
                data = pickle.dumps(('harness', 'clean-room child failed: %s: %s' % (type(e).__name__, e)), protocol=4)
            _send(w, data)
        finally:
            os._exit(0)
    os.close(w)
    try:
        data = _recv(r)
    except EOFError:
        data = pickle.dumps(('harness', 'clean-room child died'), protocol=4)
    finally:
        os.close(r)
        os.waitpid(pid, 0)
    return data


def run_impl(c):
    _preimport()
    up_r, up_w = os.pipe()          # H -> parent
    dn_r, dn_w = os.pipe()          # parent -> H
    pid = os.fork()
    if pid == 0:
        try:
            os.close(up_r)
            os.close(dn_w)

            def ref(payload):
                _send(up_w, b'R' + payload)
                return _recv(dn_r)
            try:
                out = _history(c, ref)
            except Exception as e:
                out = {'harness_error': 'history process: %s: %s' % (type(e).__name__, str(e)[:300])}
            _send(up_w, b'D' + pickle.dumps(out, protocol=4))
        except BaseException:
            pass
        finally:
            os._exit(0)
    os.close(up_w)
    os.close(dn_r)
    out = None
    try:
        while True:
            ready, _, _ = select.select([up_r], [], [], 2.0)
            if not ready:
                done, _ = os.waitpid(pid, os.WNOHANG)
                if done:
                    pid = None
                    break
                continue
            try:
                msg = _recv(up_r)
            except EOFError:
                break
            if msg[:1] == b'R':
                _send(dn_w, _fork_ref(msg[1:]))
            else:
                out = pickle.loads(msg[1:])       # plain dict of numbers and strings
                break
    finally:
        os.close(up_r)
        os.close(dn_w)
        if pid is not None:
            try:
                if out is None:
                    os.kill(pid, 9)
                os.waitpid(pid, 0)
            except Exception:
                pass
    return out if out is not None else {'harness_error': 'history process ended without a result'}


# ---------------------------------------------------------------------------------------------------------------------------
# verdicts

def _calls(o):
    return [s for s in o['steps'] if s['t'] == 'c']


def _model_only(name):
    """calls whose RESULT is outside the property text (it speaks of returned tables of the listed analysis functions): other
    documented helpers, and the data a plot draws. Their clean-room comparison is part of the model comparison only."""
    return name.startswith('h_') or name in PLOTS


def oracle(c, o):
    if 'skip' in o:
        return None
    if o.get('env_touched'):
        return ('building the shared tables (compute_features with default options / both centrings / the amplitude method, '
                'compute_shape_features, compute_cyclepoints, find_extrema, epoch_df, Bycycle.fit on ONE signal array) modified the '
                'caller\'s signal array (%d bytes differ)' % o['env_touched'])
    cur, seen = o['env0'], []
    for i, (st, s) in enumerate(zip(c['steps'], o['steps'])):
        if s['t'] != 'c':
            cur = s['env']
            continue
        for j, key, e, lh in seen:
            if key == s['key'] and e == cur and lh != s['lh'] and not _model_only(st[1]):
                return 'step %d (%s) returned a different result than the same call on the same argument values at step %d' % (i, s['key'], j)
        seen.append((i, s['key'], cur, s['lh']))
        cur = s['env']
        if s['changed']:
            return 'step %d (%s) modified the caller\'s argument object(s) %s' % (i, s['key'], s['changed'])
        if s['diff'] and not _model_only(st[1]):
            return ('step %d (%s) returned, after this history, a result that differs from the same call on copies of the current '
                    'argument values in a fresh process: %s' % (i, s['key'], s['diff']))
    return None


def nontrivial(c, o):
    """some call the property speaks about was compared with its clean-room reference after at least one DIFFERENT call or
    user edit of the same history"""
    if 'steps' not in o:
        return False
    ks = [(_key(st) if st[0] == 'c' else 'edit %d' % i) for i, st in enumerate(c['steps'])]
    return any(st[0] == 'c' and not _model_only(st[1]) and 'href' not in s and any(k != ks[i] for k in ks[:i])
               for i, (st, s) in enumerate(zip(c['steps'], o['steps'])))


_STATS = {'n_ref': 0, 'ref_s': 0.0, 'hist_s': 0.0, 'raised': 0, 'calls': 0, 'edits': 0, 'storage': {}}


def kind_of(c, o):
    if 'steps' in o:
        _STATS['n_ref'] += o['n_ref']
        _STATS['ref_s'] += o['ref_s']
        _STATS['hist_s'] += o['hist_s']
        _STATS['calls'] += len(_calls(o))
        _STATS['edits'] += len(o['steps']) - len(_calls(o))
        _STATS['raised'] += sum(1 for s in _calls(o) if s['exc'])
        if o.get('shape_refused'):
            k = c.get('sigshape')
            _STATS.setdefault('skips', {})[k + ' (ran on the recording as generated)'] = _STATS.get('skips', {}).get(k + ' (ran on the recording as generated)', 0) + 1
        sh = _STATS.setdefault('shapes', {}).setdefault((not o.get('shape_refused') and c.get('sigshape')) or 'as generated', {'histories': 0, 'calls': 0, 'calls_that_raised': 0})
        sh['histories'] += 1
        sh['calls'] += len(_calls(o))
        sh['calls_that_raised'] += sum(1 for s in _calls(o) if s['exc'])
        k = 'signal:%s%s' % (c.get('sigv') or 'float64', '' if not c.get('fekv') else ' fek:' + json.dumps(c['fekv'], sort_keys=True))
        st = _STATS['storage'].setdefault(k, {'histories': 0, 'calls': 0, 'calls_that_raised': 0})
        st['histories'] += 1
        st['calls'] += len(_calls(o))
        st['calls_that_raised'] += sum(1 for s in _calls(o) if s['exc'])
    if 'skip' in o:
        k = c.get('sigshape') or 'as generated'
        _STATS.setdefault('skips', {})[k] = _STATS.get('skips', {}).get(k, 0) + 1
    return c['kind'] + ('/skip' if 'skip' in o else '/some-call-raised' if any(s['exc'] for s in _calls(o)) else '')


def extra_evidence():
    return {'cleanroom': {'reference_calls': _STATS['n_ref'], 'reference_cpu_wall_s_summed_over_workers': round(_STATS['ref_s'], 1),
                          'history_cpu_wall_s_summed_over_workers': round(_STATS['hist_s'], 1), 'calls': _STATS['calls'],
                          'user_edits': _STATS['edits'], 'calls_that_raised_in_history': _STATS['raised']},
            'signal_storage_and_fek_variants': dict(sorted(_STATS['storage'].items())),
            'signal_value_variants': dict(sorted(_STATS.get('shapes', {}).items())),
            'environments_refused_by_the_library': dict(sorted(_STATS.get('skips', {}).items()))}


def coq_case(c, o):
    if 'skip' in o:
        return None
    zl = lambda xs: coqio.lst(['%d%%Z' % x for x in xs]) if xs else 'nil'
    steps, recs, numbers, seen = [], [], {}, []
    cur = o['env0']
    for st, s in zip(c['steps'], o['steps']):
        if s['t'] == 'm':
            steps.append('HMut %s' % zl(s['env']))
            cur = s['env']
            continue
        k = numbers.setdefault(s['key'], len(numbers))
        steps.append('HCall %d' % k)
        unchanged = not s['changed']
        if unchanged and s['env'] != cur:          # an object call updated its own object: the user's object now has these values
            steps.append('HMut %s' % zl(s['env']))
        cls = len(seen)
        for q, (k2, e2, r2) in enumerate(seen):
            if k2 == k and e2 == cur and r2 == s['rh']:
                cls = q
                break
        seen.append((k, cur, s['rh']))
        recs.append('(%d, %s, %s)' % (cls, coqio.B(bool(s['eq'])), coqio.B(unchanged)))
        if unchanged:
            cur = s['env']
    final = o['steps'][-1]['env'] if o['steps'] else o['env0']
    return ('(%s, %s)' % (zl(o['env0']), coqio.lst(steps) if steps else 'nil'),
            '(%s, %s)' % (zl(final), coqio.lst(recs) if recs else 'nil'))
