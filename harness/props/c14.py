"""C14 — Bycycle objects reproduce the functional API and hold no stale state.  Model/Objects.v."""
import copy
import numpy as np
from harness import coqio, gen
from harness.core import exc_kind

PROP = 'C14'
PROPS_FILE = 'Props/C14.v'
COQ_HEADER = ('From Coq Require Import List ZArith NArith String. Import ListNotations.\n'
              'From ByC Require Import Base.Result Harness.Compare Model.Objects.\nOpen Scope string_scope.')
COQ_RUNNER = 'bad_history'
COQ_TYPES = ('settings * list op', 'result obs')
SHARD = 100
RULE = ('random histories (length <= 8 quick, <= 20 thorough) of fit / recompute_edges / load / threshold edit / burst-option '
        'edit / centre change on one real Bycycle object, both burst methods, thresholds given in long or shorthand form; after '
        'the history the object\'s stored dictionaries are compared with the model, and after every fit df_features is compared '
        'with compute_features on deep copies of the intended settings and with a freshly constructed object; after every '
        'recompute_edges with the functional recomputation at reduced thresholds; attribute access with the columns. '
        'non-trivial = a history with >= 2 fits and >= 1 edit in between')
ASSUMPTIONS = ['recompute_edges is only applied to consistency-method objects (the method is documented for them only)']
AMP_THRESHES = [(1, 2), (0.5, 1.5), (0.8, 1.2)]
SIGS = {}


def _sig(k):
    if k not in SIGS:
        import random
        s = gen.signal(random.Random(500 + k), kind=['sparse', 'bursty', 'sum', 'sine'][k % 4], max_len=420)
        SIGS[k] = (s['sig'], s['fs'], tuple(s['f_range']))
    return SIGS[k]


def cases(rng, tier):
    out = []
    n = 120 if tier == 'quick' else 1200
    maxlen = 8 if tier == 'quick' else 20
    for _ in range(n):
        amp = rng.random() < 0.5
        short = rng.random() < 0.4
        if amp:
            thr = {('burst_fraction' if short else 'burst_fraction_threshold'): rng.choice([200, 500, 1000])}
            if rng.random() < 0.7:
                thr['min_n_cycles'] = rng.choice([1, 2, 3, 4])
            bk = None
            if rng.random() < 0.7:
                bk = {}
                if rng.random() < 0.6:
                    bk['amp_threshes'] = rng.randrange(len(AMP_THRESHES))
                if rng.random() < 0.3:
                    bk['min_n_cycles'] = rng.choice([1, 2, 3, 5])
        else:
            names = ['amp_fraction', 'amp_consistency', 'period_consistency', 'monotonicity']
            thr = {(nm if short else nm + '_threshold'): rng.choice([0, 200, 400, 500, 700]) for nm in names}
            thr['min_n_cycles'] = rng.choice([1, 2, 3])
            bk = None
        ops = []
        fitted = False
        for _ in range(rng.randint(2, maxlen)):
            r = rng.random()
            if r < 0.35 or not ops:
                ops.append(['fit', rng.randrange(4)])
                fitted = True
            elif r < 0.5 and fitted and not amp:
                ops.append(['recompute', rng.choice([0, 50, 100, 200])])
            elif r < 0.75:
                if amp:
                    k = rng.choice(['burst_fraction_threshold', 'min_n_cycles'])
                    v = rng.choice([200, 500, 1000]) if k.endswith('threshold') else rng.choice([1, 2, 3, 4, 6])
                else:
                    k = rng.choice(['amp_fraction_threshold', 'amp_consistency_threshold', 'period_consistency_threshold',
                                    'monotonicity_threshold', 'min_n_cycles'])
                    v = rng.choice([0, 300, 500, 800]) if k.endswith('threshold') else rng.choice([1, 2, 3, 4])
                ops.append(['edit_thr', k, v])
            elif r < 0.85 and amp:
                k = rng.choice(['amp_threshes', 'min_n_cycles'])
                ops.append(['edit_bk', k, rng.randrange(len(AMP_THRESHES)) if k == 'amp_threshes' else rng.choice([1, 2, 4])])
            elif r < 0.93:
                ops.append(['center', rng.random() < 0.5])
            elif fitted:
                ops.append(['load', rng.randrange(4)])
        ops.append(['fit', rng.randrange(4)])
        out.append({'kind': 'history/' + ('amp' if amp else 'cycles'), 'amp': amp, 'center': rng.random() < 0.6, 'thr': thr, 'bk': bk,
                    'fek': rng.choice([None, 1, 5]), 'rs': rng.random() < 0.8, 'ops': ops})
    return out


def _thr_py(d):
    return {k: (v / 1000.0 if k != 'min_n_cycles' else v) for k, v in d.items()}


def _bk_py(d):
    if d is None:
        return None
    return {k: (AMP_THRESHES[v] if k == 'amp_threshes' else v) for k, v in d.items()}


def _fek_py(f):
    return None if f is None else {'boundary': f}


def _expand(d):
    out = {}
    for k, v in d.items():
        out[k if (k.endswith('_threshold') or k == 'min_n_cycles') else k + '_threshold'] = v
    return out


def _same(a, b):
    if list(a.columns) != list(b.columns) or len(a) != len(b):
        return False
    for col in a.columns:
        x, y = np.asarray(a[col]), np.asarray(b[col])
        if x.dtype.kind == 'f' or y.dtype.kind == 'f':
            if not np.array_equal(x.astype(float), y.astype(float), equal_nan=True):
                return False
        elif not np.array_equal(x, y):
            return False
    return True


def _enc_thr(d):
    return {k: (int(round(v * 1000)) if k != 'min_n_cycles' else int(v)) for k, v in d.items() if isinstance(v, (int, float))}


def _enc_bk(d):
    out = {}
    for k, v in d.items():
        if k == 'amp_threshes':
            out[k] = AMP_THRESHES.index(tuple(v)) if tuple(v) in AMP_THRESHES else 99
        elif k == 'min_n_cycles':
            out[k] = int(v)
        else:
            out[k] = 77      # any other key left behind in the caller's dictionary (e.g. fs, f_range)
    return out


def run_impl(c):
    from bycycle import Bycycle
    from bycycle.features import compute_features
    from bycycle.burst import recompute_edges
    method = 'amp' if c['amp'] else 'cycles'
    center = 'peak' if c['center'] else 'trough'
    thr_obj, bk_obj = _thr_py(c['thr']), _bk_py(c['bk'])
    try:
        bm = Bycycle(center_extrema=center, burst_method=method, burst_kwargs=bk_obj, thresholds=thr_obj,
                     find_extrema_kwargs=_fek_py(c['fek']), return_samples=c['rs'])
    except Exception as e:
        return {'err': exc_kind(e), 'msg': 'constructor: ' + str(e)[:120]}
    # the harness's own record of what the user intends
    want_thr = _expand(_thr_py(c['thr']))
    want_bk = dict(_bk_py(c['bk']) or {})
    want_center = center
    problems = []
    prev_df = None
    try:
        for op in c['ops']:
            if op[0] == 'fit':
                sig, fs, fr = _sig(op[1])
                bm.fit(sig, fs, fr)
                ref = compute_features(sig, fs, fr, center_extrema=want_center, burst_method=method,
                                       burst_kwargs=copy.deepcopy(want_bk) if c['amp'] else None, threshold_kwargs=copy.deepcopy(want_thr),
                                       find_extrema_kwargs=copy.deepcopy(_fek_py(c['fek'])) if c['fek'] is not None else None,
                                       return_samples=c['rs'])
                if not _same(bm.df_features, ref):
                    problems.append('fit: df_features differs from compute_features with the current settings')
                fresh = Bycycle(center_extrema=want_center, burst_method=method, burst_kwargs=copy.deepcopy(want_bk) if c['amp'] else None,
                                thresholds=copy.deepcopy(want_thr), find_extrema_kwargs=copy.deepcopy(_fek_py(c['fek'])) if c['fek'] is not None else None,
                                return_samples=c['rs'])
                fresh.fit(sig, fs, fr)
                if not _same(bm.df_features, fresh.df_features):
                    problems.append('fit: df_features differs from a freshly constructed object with the current settings')
                if not np.array_equal(bm.period, bm.df_features['period'].values):
                    problems.append('attribute access does not return the column')
                prev_df = bm.df_features
            elif op[0] == 'recompute':
                before = bm.df_features.copy()
                r = op[1] / 1000.0
                bm.recompute_edges(r if op[1] else None)
                red = {k: (v - r if k.endswith('threshold') else v) for k, v in want_thr.items()}
                if any(not (0 <= v <= 1) for k, v in red.items() if k.endswith('threshold')):
                    problems.append('harness: reduction out of range')
                ref = recompute_edges(before, red)
                if not _same(bm.df_features, ref):
                    problems.append('recompute_edges: differs from the functional recomputation at reduced thresholds')
            elif op[0] == 'edit_thr':
                bm.thresholds[op[1]] = op[2] / 1000.0 if op[1] != 'min_n_cycles' else op[2]
                want_thr[op[1]] = op[2] / 1000.0 if op[1] != 'min_n_cycles' else op[2]
            elif op[0] == 'edit_bk':
                bm.burst_kwargs[op[1]] = AMP_THRESHES[op[2]] if op[1] == 'amp_threshes' else op[2]
                want_bk[op[1]] = AMP_THRESHES[op[2]] if op[1] == 'amp_threshes' else op[2]
            elif op[0] == 'center':
                want_center = 'peak' if op[1] else 'trough'
                bm.center_extrema = want_center
            elif op[0] == 'load':
                sig, fs, fr = _sig(op[1])
                bm.load(prev_df if prev_df is not None else bm.df_features, sig, fs, fr)
    except Exception as e:
        return {'err': exc_kind(e), 'msg': '%s: %s' % (op, str(e)[:140])}
    return {'thr': _enc_thr(bm.thresholds), 'bk': _enc_bk(bm.burst_kwargs), 'center': bm.center_extrema == 'peak',
            'problems': problems[:3]}


def _valid_reductions(c):
    """A history is only meaningful if no recompute pushes a threshold below 0."""
    thr = _expand(dict(c['thr']))
    for op in c['ops']:
        if op[0] == 'edit_thr':
            thr[op[1]] = op[2]
        if op[0] == 'recompute' and any(v - op[1] < 0 for k, v in thr.items() if k.endswith('threshold')):
            return False
    return True


def oracle(c, o):
    if not _valid_reductions(c):
        return None
    if 'err' in o:
        return 'history raised %s (%s)' % (o['err'], o.get('msg'))
    if o['problems']:
        return o['problems'][0]
    want_thr = _expand(dict(c['thr']))
    want_bk = dict(c['bk'] or {})
    for op in c['ops']:
        if op[0] == 'edit_thr':
            want_thr[op[1]] = op[2]
        elif op[0] == 'edit_bk':
            want_bk[op[1]] = op[2]
    if o['thr'] != want_thr:
        return 'stored thresholds %s differ from what the user set %s' % (o['thr'], want_thr)
    if o['bk'] != want_bk:
        return 'stored burst options %s differ from what the user set %s' % (o['bk'], want_bk)
    return None


def nontrivial(c, o):
    fits = [i for i, op in enumerate(c['ops']) if op[0] == 'fit']
    return 'thr' in o and len(fits) >= 2 and any(op[0].startswith('edit') for op in c['ops'][fits[0]:fits[-1]])


def kind_of(c, o):
    return c['kind'] + ('/err' if 'err' in o else '')


def _dict(d):
    return coqio.lst(['("%s", %s%%Z)' % (k, coqio.Z(v)) for k, v in d.items()]) if d else 'nil'


def coq_case(c, o):
    if not _valid_reductions(c):
        return None
    st = '{| st_center := %s; st_amp := %s; st_bk := %s; st_thr := %s; st_fek := %d%%Z; st_rs := %s |}' % (
        coqio.B(c['center']), coqio.B(c['amp']), _dict(c['bk'] or {}), _dict(c['thr']), c['fek'] or 0, coqio.B(c['rs']))
    ops = []
    for op in c['ops']:
        if op[0] == 'fit':
            ops.append('OFit %d' % op[1])
        elif op[0] == 'recompute':
            ops.append('ORecompute %d' % op[1])
        elif op[0] == 'load':
            ops.append('OLoad 0 %d' % op[1])
        elif op[0] == 'edit_thr':
            ops.append('OEditThr "%s" %d' % (op[1], op[2]))
        elif op[0] == 'edit_bk':
            ops.append('OEditBk "%s" %d' % (op[1], op[2]))
        elif op[0] == 'center':
            ops.append('OSetCenter %s' % coqio.B(op[1]))
    inp = '(%s, %s)' % (st, coqio.lst(ops))
    if 'err' in o:
        return inp, '(Err %s)' % {'Type': 'EType', 'Value': 'EValue', 'Key': 'EKey', 'Index': 'EIndex'}.get(o['err'], 'EOther')
    return inp, '(Ok (%s, %s, %s))' % (_dict(o['thr']), _dict(o['bk']), coqio.B(o['center']))
