"""C14 — Bycycle objects reproduce the functional API and hold no stale state.  Model/Objects.v."""
import copy
import random as _random
import numpy as np
from harness import coqio, gen, pipeline
from harness.core import exc_kind

PROP = 'C14'
PROPS_FILE = 'Props/C14.v'
_HEADER = ('From Coq Require Import List ZArith NArith String. Import ListNotations.\n'
           'From ByC Require Import Base.Result Harness.Compare Model.Objects.\nOpen Scope string_scope.')
COQ_STREAMS = {
    'object': (_HEADER, 'bad_history', ('cargs * list op', 'result obs'), 100),
    'group': (_HEADER, 'bad_group_history', ('cargs * list gop', 'result gobs'), 100),
}
COQ_RUNNER = 'bad_history / bad_group_history'
RULE = ('(a) random histories (length <= 8 quick, <= 20 thorough) of fit / recompute_edges(None | 0 | r) / load / threshold item edit / '
        'burst-option item edit / attribute assignments (center_extrema, thresholds = {...}, burst_method together with its '
        'dictionaries, find_extrema_kwargs, return_samples) on one real Bycycle object, both burst methods; constructor called '
        'with every argument optional (Bycycle() with no argument, thresholds=None for both methods, partial threshold '
        'dictionaries, long and shorthand names mixed key by key); signals drawn from the run\'s seed. After every fit df_features '
        'is compared with compute_features on deep copies of the intended settings (arguments that were never given are not passed '
        'to it either) and with a freshly constructed object; after every recompute_edges with the functional recomputation at '
        'reduced thresholds; after every load with the loaded table; after every operation that replaces df_features attribute '
        'access is compared with the column for ALL columns; reductions are drawn inside the valid range, so no history is '
        'discarded; after the history the stored settings are compared with the model. '
        '(b) random histories on one real BycycleGroup: fit of a 2-D array (axis 0 / None) or 3-D array (axis (0,1) / 0 / 1), re-fit '
        'with another shape, threshold / burst-option item edits, recompute_edges; after EVERY operation models[i].df_features '
        '= df_features[i] and models[i].sig = sigs[i] by value for every position (and equal counts); after a fit comparison '
        'with a fresh group; after recompute_edges comparison with the functional recomputation of every table; object identity '
        'of the mirrored tables and the settings held by the models go into the model comparison only. '
        'non-trivial = an object history with >= 2 fits and >= 1 edit in between, or a group history with a re-fit or a recomputation')
ASSUMPTIONS = ['recompute_edges is only applied to consistency-method objects holding a table produced by consistency burst '
               'detection (the method is documented for them only); for groups therefore only after axis=0 (2-D) / axis=(0,1) (3-D) fits',
               'attribute assignments replace a dictionary by one with long key names (shorthand is a constructor feature); a change '
               'of burst_method is followed immediately by matching thresholds / burst_kwargs',
               'group edits are item assignments on the group\'s dictionaries (shared with the models); replacing a dictionary object '
               'of a fitted group is not exercised',
               'a history whose fit fails in the same way as compute_features on that signal (degenerate signal, C01 domain) is skipped']
AMP_THRESHES = [(1, 2), (0.5, 1.5), (0.8, 1.2)]
FEKS = [None, {'boundary': 1}, {'boundary': 5}, {'filter_kwargs': {'n_cycles': 4}},
        {'boundary': 3, 'filter_kwargs': {'n_cycles': 2}}, {'pad': True, 'boundary': 2}]
FEK_DEFAULT = {'filter_kwargs': {'n_cycles': 3}}
CYC_NAMES = ['amp_fraction', 'amp_consistency', 'period_consistency', 'monotonicity']
CYC_DEF = {k: int(round(v * 1000)) if k != 'min_n_cycles' else v for k, v in pipeline.CYC_DEFAULTS.items()}
AMP_DEF = {'burst_fraction_threshold': 1000, 'min_n_cycles': 3}
SIGS = {}


def _sig(seed, k):
    if (seed, k) not in SIGS:
        s = gen.signal(_random.Random(seed * 16 + k), kind=['sparse', 'bursty', 'sum', 'sine'][k % 4], max_len=420)
        SIGS[(seed, k)] = (s['sig'], s['fs'], tuple(s['f_range']))
    return SIGS[(seed, k)]


def _arr(seed, k, n0, n1):
    """n0 (x n1) distinct rows derived from one generated signal (2-D when n1 is None)."""
    key = (seed, k, n0, n1)
    if key not in SIGS:
        base, fs, fr = _sig(seed, k)
        nrng = np.random.default_rng(seed * 16 + k)
        rows = [np.roll(base, 11 * p) * (1 + 0.1 * p) + 0.01 * nrng.standard_normal(len(base)) for p in range(n0 * (n1 or 1))]
        a = np.array(rows)
        SIGS[key] = (a if n1 is None else a.reshape(n0, n1, -1), fs, fr)
    return SIGS[key]


# ---------------------------------------------------------------------------------------------------
# generators

def _gen_thr_cycles(rng, partial):
    mixed = rng.random() < 0.5
    short_all = rng.random() < 0.4
    thr = {}
    for nm in CYC_NAMES:
        if partial and rng.random() < 0.45:
            continue
        short = (rng.random() < 0.5) if mixed else short_all
        thr[nm if short else nm + '_threshold'] = rng.choice([0, 200, 300, 400, 500, 700])
    if not partial or rng.random() < 0.6:
        thr['min_n_cycles'] = rng.choice([1, 2, 3])
    return thr


def _gen_thr_amp(rng, partial):
    thr = {}
    if not partial or rng.random() < 0.6:
        thr['burst_fraction' if rng.random() < 0.4 else 'burst_fraction_threshold'] = rng.choice([200, 500, 1000])
    if rng.random() < 0.7:
        thr['min_n_cycles'] = rng.choice([1, 2, 3, 4])
    return thr


def _gen_bk(rng):
    bk = {}
    if rng.random() < 0.6:
        bk['amp_threshes'] = rng.randrange(len(AMP_THRESHES))
    if rng.random() < 0.3:
        bk['min_n_cycles'] = rng.choice([1, 2, 3, 5])
    return bk


def _gen_args(rng):
    """Constructor arguments; a missing key = the argument is not passed."""
    if rng.random() < 0.04:
        return {}                                            # Bycycle()
    a = {}
    amp = rng.random() < 0.5
    if amp or rng.random() < 0.7:
        a['amp'] = amp
    if rng.random() < 0.8:
        a['center'] = rng.random() < 0.6
    r = rng.random()
    if r < 0.18:
        pass                                                 # thresholds=None -> documented defaults
    else:
        partial = r < 0.5
        a['thr'] = _gen_thr_amp(rng, partial) if amp else _gen_thr_cycles(rng, partial)
    if amp and rng.random() < 0.7:
        a['bk'] = _gen_bk(rng)
    if rng.random() < 0.7:
        a['fek'] = rng.randrange(len(FEKS))
    if rng.random() < 0.6:
        a['rs'] = rng.random() < 0.8
    return a


def _expand(d):
    out = {}
    for k, v in d.items():
        out[k if (k.endswith('_threshold') or k == 'min_n_cycles') else k + '_threshold'] = v
    return out


def _valid_reduction(rng, thr):
    """A reduction (thousandths) that keeps every stored *_threshold inside [0, 1]."""
    vals = [v for k, v in thr.items() if k.endswith('threshold')]
    top = min(vals) if vals else 300
    r = rng.choice([x for x in (0, 0, 50, 100, 200, top) if x <= top])
    return ['recompute', r, rng.choice(['none', 'zero']) if r == 0 else 'val']


def _gen_object_case(rng, maxlen):
    args = _gen_args(rng)
    amp = args.get('amp', False)
    thr = _expand(args['thr']) if 'thr' in args else dict(AMP_DEF if amp else CYC_DEF)      # the generator's own bookkeeping
    ops = []
    df_cycles = False          # the object currently holds a table produced by a consistency-method fit
    fitted = False
    for _ in range(rng.randint(2, maxlen)):
        r = rng.random()
        if r < 0.33 or not ops:
            ops.append(['fit', rng.randrange(4)])
            fitted, df_cycles = True, not amp
        elif r < 0.47 and df_cycles and not amp:
            ops.append(_valid_reduction(rng, thr))
        elif r < 0.66:
            if amp:
                k = rng.choice(['burst_fraction_threshold', 'min_n_cycles'])
                v = rng.choice([200, 500, 1000]) if k.endswith('threshold') else rng.choice([1, 2, 3, 4, 6])
            else:
                k = rng.choice([nm + '_threshold' for nm in CYC_NAMES] + ['min_n_cycles'])
                v = rng.choice([0, 300, 500, 800]) if k.endswith('threshold') else rng.choice([1, 2, 3, 4])
            ops.append(['edit_thr', k, v])
            thr[k] = v
        elif r < 0.72 and amp:
            k = rng.choice(['amp_threshes', 'min_n_cycles'])
            ops.append(['edit_bk', k, rng.randrange(len(AMP_THRESHES)) if k == 'amp_threshes' else rng.choice([1, 2, 4])])
        elif r < 0.78:
            ops.append(['center', rng.random() < 0.5])
        elif r < 0.83:
            thr = _expand(_gen_thr_amp(rng, rng.random() < 0.4) if amp else _gen_thr_cycles(rng, rng.random() < 0.4))
            ops.append(['set_thr', dict(thr)])
        elif r < 0.87:
            amp = not amp
            thr = _expand(_gen_thr_amp(rng, False) if amp else _gen_thr_cycles(rng, rng.random() < 0.3))
            ops.append(['set_method', amp, dict(thr), _gen_bk(rng) if amp else {}])
        elif r < 0.91:
            ops.append(['set_fek', rng.randrange(len(FEKS))])
        elif r < 0.94:
            ops.append(['set_rs', rng.random() < 0.7])
        elif fitted:
            ops.append(['load', rng.randrange(4)])
    ops.append(['fit', rng.randrange(4)])
    return {'kind': 'history/' + ('amp' if args.get('amp', False) else 'cycles'), 'args': args, 'ops': ops,
            'sigseed': rng.randrange(10 ** 6)}


def _gen_group_case(rng, maxlen):
    args = _gen_args(rng)
    amp = args.get('amp', False)
    thr = _expand(args['thr']) if 'thr' in args else dict(AMP_DEF if amp else CYC_DEF)
    gops = []
    rc_ok = False
    for step in range(rng.randint(2, maxlen)):
        r = rng.random()
        if r < 0.4 or not gops:
            sh = rng.choice(['rows', 'rows', 'flat', 'g3', 'g3ax0', 'g3ax1'])
            n0 = rng.choice([1, 2, 3])
            n1 = rng.choice([1, 2]) if sh.startswith('g3') else None
            gops.append(['gfit', rng.randrange(3), sh, n0, n1])
            rc_ok = (not amp) and sh in ('rows', 'g3')
        elif r < 0.65 and rc_ok:
            gops.append(['g' + x if i == 0 else x for i, x in enumerate(_valid_reduction(rng, thr))])
        elif r < 0.9 or not amp:
            if amp:
                k = rng.choice(['burst_fraction_threshold', 'min_n_cycles'])
                v = rng.choice([200, 500, 1000]) if k.endswith('threshold') else rng.choice([1, 2, 3, 4])
            else:
                k = rng.choice([nm + '_threshold' for nm in CYC_NAMES] + ['min_n_cycles'])
                v = rng.choice([0, 300, 500, 800]) if k.endswith('threshold') else rng.choice([1, 2, 3])
            gops.append(['gedit_thr', k, v])
            thr[k] = v
        else:
            k = rng.choice(['amp_threshes', 'min_n_cycles'])
            gops.append(['gedit_bk', k, rng.randrange(len(AMP_THRESHES)) if k == 'amp_threshes' else rng.choice([1, 2, 4])])
    return {'kind': 'group/' + ('amp' if amp else 'cycles'), 'args': args, 'gops': gops, 'sigseed': rng.randrange(10 ** 6)}


def cases(rng, tier):
    out = []
    n = 120 if tier == 'quick' else 1200
    maxlen = 8 if tier == 'quick' else 20
    for _ in range(n):
        out.append(_gen_object_case(rng, maxlen))
    for _ in range(45 if tier == 'quick' else 400):
        out.append(_gen_group_case(rng, 7 if tier == 'quick' else 14))
    return out


def stream_of(c):
    return 'group' if 'gops' in c else 'object'


# ---------------------------------------------------------------------------------------------------
# encodings

def _thr_py(d):
    return {k: (v / 1000.0 if k != 'min_n_cycles' else v) for k, v in d.items()}


def _bk_py(d):
    if d is None:
        return None
    return {k: (AMP_THRESHES[v] if k == 'amp_threshes' else v) for k, v in d.items()}


def _same(a, b):
    """Equal tables: same rows, same column set (not order), same values."""
    if a is None or b is None or set(a.columns) != set(b.columns) or len(a) != len(b):
        return False
    for col in a.columns:
        x, y = np.asarray(a[col]), np.asarray(b[col])
        if x.dtype.kind == 'f' or y.dtype.kind == 'f':
            if not np.array_equal(x.astype(float), y.astype(float), equal_nan=True):
                return False
        elif not np.array_equal(x, y):
            return False
    return True


def _attr_problem(bm):
    """Attribute access returns the table's columns (all of them, on the table the object holds NOW)."""
    df = bm.df_features
    for col in df.columns:
        try:
            got = getattr(bm, col)
        except Exception as e:
            return 'attribute access %r raised %s' % (col, type(e).__name__)
        x, y = np.asarray(got), np.asarray(df[col].values)
        ok = (np.array_equal(x.astype(float), y.astype(float), equal_nan=True) if (x.dtype.kind == 'f' or y.dtype.kind == 'f')
              else np.array_equal(x, y))
        if not ok:
            return 'attribute access %r does not return the column of the current table' % col
    return None


def _enc_thr(d):
    if not isinstance(d, dict):
        return {'<not a dict>': 1}
    return {k: (int(round(v * 1000)) if k != 'min_n_cycles' else int(v)) for k, v in d.items() if isinstance(v, (int, float))}


def _enc_bk(d):
    out = {}
    for k, v in (d or {}).items():
        if k == 'amp_threshes':
            out[k] = AMP_THRESHES.index(tuple(v)) if tuple(v) in AMP_THRESHES else 99
        elif k == 'min_n_cycles':
            out[k] = int(v)
        else:
            out[k] = 77      # any other key left behind in the caller's dictionary (e.g. fs, f_range)
    return out


def _enc_fek(d):
    if d == FEK_DEFAULT:
        return 0
    for i, f in enumerate(FEKS):
        if f is not None and d == f:
            return i
    return 99


def _obs(b):
    return {'thr': _enc_thr(b.thresholds), 'bk': _enc_bk(b.burst_kwargs), 'center': b.center_extrema == 'peak',
            'amp': b.burst_method == 'amp', 'fek': _enc_fek(b.find_extrema_kwargs), 'rs': bool(b.return_samples)}


class _Want:
    """The harness's own record of the settings the user intends (never read back from the object)."""

    def __init__(self, args):
        self.given = {k: True for k in args}
        self.amp = args.get('amp', False)
        self.center = args.get('center', True)
        self.thr = _expand(_thr_py(args['thr'])) if 'thr' in args else None      # None: never given, never edited
        self.bk = dict(_bk_py(args['bk'])) if 'bk' in args else None
        self.fek = args.get('fek')                                               # index or None (not given)
        self.rs = args.get('rs', True)
        self.user_thr = dict(self.thr or {})          # keys the USER has set (given or edited), for the stored-settings clause
        self.user_bk = dict(self.bk or {})

    def thr_full(self, keep=True):
        """Intended thresholds when an edit hits a dictionary the user never passed: documented defaults + edits."""
        if self.thr is None:
            d = _thr_py(AMP_DEF if self.amp else CYC_DEF)
            if not keep:
                return d
            self.thr = d
        return self.thr

    def kwargs(self, for_object):
        """Keyword arguments for compute_features (threshold_kwargs) / Bycycle (thresholds): only what was given or set."""
        kw = {}
        if 'center' in self.given:
            kw['center_extrema'] = 'peak' if self.center else 'trough'
        if 'amp' in self.given:
            kw['burst_method'] = 'amp' if self.amp else 'cycles'
        if self.bk is not None and self.amp:
            kw['burst_kwargs'] = copy.deepcopy(self.bk)
        if self.thr is not None:
            kw['thresholds' if for_object else 'threshold_kwargs'] = copy.deepcopy(self.thr)
        if self.fek is not None and FEKS[self.fek] is not None:
            kw['find_extrema_kwargs'] = copy.deepcopy(FEKS[self.fek])
        if 'rs' in self.given:
            kw['return_samples'] = self.rs
        return kw

    def reduced(self, r):
        return {k: (v - r if k.endswith('threshold') else v) for k, v in self.thr_full(keep=False).items()}


def _ctor_kwargs(args):
    kw = {}
    if 'center' in args:
        kw['center_extrema'] = 'peak' if args['center'] else 'trough'
    if 'amp' in args:
        kw['burst_method'] = 'amp' if args['amp'] else 'cycles'
    if 'bk' in args:
        kw['burst_kwargs'] = _bk_py(args['bk'])
    if 'thr' in args:
        kw['thresholds'] = _thr_py(args['thr'])
    if 'fek' in args:
        kw['find_extrema_kwargs'] = copy.deepcopy(FEKS[args['fek']])
    if 'rs' in args:
        kw['return_samples'] = args['rs']
    return kw


# ---------------------------------------------------------------------------------------------------
# running real objects

def _reference_fails_too(sig, fs, fr, want, kind):
    from bycycle.features import compute_features
    try:
        compute_features(sig, fs, fr, **want.kwargs(False))
    except Exception as e2:
        return exc_kind(e2) == kind
    return False


def run_impl(c):
    import warnings
    warnings.filterwarnings('ignore')
    if 'gops' in c:
        return _run_group(c)
    from bycycle import Bycycle
    from bycycle.features import compute_features
    from bycycle.burst import recompute_edges
    args = c['args']
    try:
        bm = Bycycle(**_ctor_kwargs(args))
    except Exception as e:
        return {'err': exc_kind(e), 'msg': 'constructor: ' + str(e)[:120], 'problems': []}
    want = _Want(args)
    problems = []
    prev_df = None
    op = None
    try:
        for op in c['ops']:
            if op[0] == 'fit':
                sig, fs, fr = _sig(c['sigseed'], op[1])
                try:
                    bm.fit(sig, fs, fr)
                except Exception as e:
                    if _reference_fails_too(sig, fs, fr, want, exc_kind(e)):
                        return {'skip': 'fit and compute_features both raise %s on this signal' % exc_kind(e)}
                    raise
                ref = compute_features(sig, fs, fr, **want.kwargs(False))
                if not _same(bm.df_features, ref):
                    problems.append('fit: df_features differs from compute_features with the current settings')
                fresh = Bycycle(**want.kwargs(True))
                fresh.fit(sig, fs, fr)
                if not _same(bm.df_features, fresh.df_features):
                    problems.append('fit: df_features differs from a freshly constructed object with the current settings')
                prev_df = bm.df_features
            elif op[0] == 'recompute':
                before = bm.df_features.copy()
                r = op[1] / 1000.0
                bm.recompute_edges({'none': None, 'zero': 0, 'val': r}[op[2]])
                ref = recompute_edges(before, want.reduced(r))
                if not _same(bm.df_features, ref):
                    problems.append('recompute_edges: differs from the functional recomputation at reduced thresholds')
            elif op[0] == 'edit_thr':
                v = op[2] / 1000.0 if op[1] != 'min_n_cycles' else op[2]
                bm.thresholds[op[1]] = v
                want.thr_full()[op[1]] = v
                want.user_thr[op[1]] = v
            elif op[0] == 'edit_bk':
                v = AMP_THRESHES[op[2]] if op[1] == 'amp_threshes' else op[2]
                bm.burst_kwargs[op[1]] = v
                if want.bk is None:
                    want.bk = {}
                want.bk[op[1]] = v
                want.user_bk[op[1]] = v
            elif op[0] == 'center':
                want.center = op[1]
                want.given['center'] = True
                bm.center_extrema = 'peak' if op[1] else 'trough'
            elif op[0] == 'set_thr':
                bm.thresholds = _thr_py(op[1])
                want.thr = _thr_py(op[1])
                want.user_thr = dict(want.thr)
            elif op[0] == 'set_method':
                bm.burst_method = 'amp' if op[1] else 'cycles'
                bm.thresholds = _thr_py(op[2])
                bm.burst_kwargs = _bk_py(op[3])
                want.amp = op[1]
                want.given['amp'] = True
                want.thr = _thr_py(op[2])
                want.user_thr = dict(want.thr)
                want.bk = dict(_bk_py(op[3]))
                want.user_bk = dict(want.bk)
            elif op[0] == 'set_fek':
                bm.find_extrema_kwargs = copy.deepcopy(FEKS[op[1]]) if FEKS[op[1]] is not None else copy.deepcopy(FEK_DEFAULT)
                want.fek = op[1]
            elif op[0] == 'set_rs':
                bm.return_samples = op[1]
                want.rs = op[1]
                want.given['rs'] = True
            elif op[0] == 'load':
                sig, fs, fr = _sig(c['sigseed'], op[1])
                tbl = prev_df if prev_df is not None else bm.df_features
                snapshot = tbl.copy()
                bm.load(tbl, sig, fs, fr)
                if not _same(bm.df_features, snapshot):
                    problems.append('load: df_features is not the loaded table')
                if not np.array_equal(bm.sig, sig):
                    problems.append('load: sig is not the loaded signal')
            if op[0] in ('fit', 'recompute', 'load'):
                p = _attr_problem(bm)
                if p:
                    problems.append('after %s: %s' % (op[0], p))
    except Exception as e:
        return {'err': exc_kind(e), 'msg': '%s: %s' % (op, str(e)[:140]), 'problems': problems[:3]}
    out = _obs(bm)
    out['problems'] = problems[:3]
    out['user_thr'] = _enc_thr(want.user_thr)
    out['user_bk'] = _enc_bk(want.user_bk)
    return out


def _flat(x, three_d):
    return [y for row in x for y in row] if three_d else list(x)


def _mirror_problem(bg, arr, three_d):
    try:
        models, dfs, sigs = _flat(bg.models, three_d), _flat(bg.df_features, three_d), _flat(bg.sigs, three_d)
    except Exception as e:
        return 'models / df_features / sigs are not position-wise containers (%s)' % type(e).__name__
    if not (len(models) == len(dfs) == len(sigs)):
        return 'models (%d), df_features (%d) and sigs (%d) differ in size' % (len(models), len(dfs), len(sigs))
    if three_d and not (len(bg.models) == len(bg.df_features) and all(len(a) == len(b) for a, b in zip(bg.models, bg.df_features))):
        return 'models and df_features differ in shape'
    for p, (m, d, s) in enumerate(zip(models, dfs, sigs)):
        if not _same(m.df_features, d):
            return 'models[%d].df_features differs from df_features[%d]' % (p, p)
        if not np.array_equal(np.asarray(m.sig), np.asarray(s)):
            return 'models[%d].sig differs from sigs[%d]' % (p, p)
    return None


AXES = {'rows': 0, 'flat': None, 'g3': (0, 1), 'g3ax0': 0, 'g3ax1': 1}


def _run_group(c):
    from bycycle import BycycleGroup
    from bycycle.burst import recompute_edges
    args = c['args']
    try:
        bg = BycycleGroup(**_ctor_kwargs(args))
    except Exception as e:
        return {'err': exc_kind(e), 'msg': 'constructor: ' + str(e)[:120], 'problems': []}
    want = _Want(args)
    problems = []
    arr, three_d, arr_id = None, False, -1
    op = None
    try:
        for op in c['gops']:
            if op[0] == 'gfit':
                arr, fs, fr = _arr(c['sigseed'], op[1], op[3], op[4])
                arr_id, three_d = op[1], op[4] is not None
                try:
                    bg.fit(arr, fs, fr, axis=AXES[op[2]], n_jobs=1)
                except Exception as e:
                    flat = arr.reshape(-1, arr.shape[-1])
                    if any(_reference_fails_too(row, fs, fr, want, exc_kind(e)) for row in list(flat) + [flat.flatten()]):
                        return {'skip': 'group fit and compute_features both raise %s on this array' % exc_kind(e)}
                    raise
                fresh = BycycleGroup(**want.kwargs(True))
                fresh.fit(arr, fs, fr, axis=AXES[op[2]], n_jobs=1)
                a, b = _flat(bg.df_features, three_d), _flat(fresh.df_features, three_d)
                if len(a) != len(b) or not all(_same(x, y) for x, y in zip(a, b)):
                    problems.append('group fit: df_features differ from a freshly constructed group with the current settings')
            elif op[0] == 'grecompute':
                before = [d.copy() for d in _flat(bg.df_features, three_d)]
                r = op[1] / 1000.0
                bg.recompute_edges({'none': None, 'zero': 0, 'val': r}[op[2]])
                after = _flat(bg.df_features, three_d)
                red = want.reduced(r)
                if len(after) != len(before) or not all(_same(x, recompute_edges(y, dict(red))) for x, y in zip(after, before)):
                    problems.append('group recompute_edges: a table differs from the functional recomputation at reduced thresholds')
            elif op[0] == 'gedit_thr':
                v = op[2] / 1000.0 if op[1] != 'min_n_cycles' else op[2]
                bg.thresholds[op[1]] = v
                want.thr_full()[op[1]] = v
                want.user_thr[op[1]] = v
            elif op[0] == 'gedit_bk':
                v = AMP_THRESHES[op[2]] if op[1] == 'amp_threshes' else op[2]
                bg.burst_kwargs[op[1]] = v
                if want.bk is None:
                    want.bk = {}
                want.bk[op[1]] = v
                want.user_bk[op[1]] = v
            if arr is not None:
                p = _mirror_problem(bg, arr, three_d)
                if p:
                    problems.append('after %s: %s' % (op[0], p))
    except Exception as e:
        return {'err': exc_kind(e), 'msg': '%s: %s' % (op, str(e)[:140]), 'problems': problems[:3]}
    out = _obs(bg)
    out['problems'] = problems[:3]
    out['user_thr'] = _enc_thr(want.user_thr)
    out['user_bk'] = _enc_bk(want.user_bk)
    # model comparison only: which signal every model holds, whether it holds the group's table OBJECT, and the group's settings
    sig_ids, same_obj, current = [], [], []
    if arr is not None:
        models, dfs = _flat(bg.models, three_d), _flat(bg.df_features, three_d)
        flat = arr.reshape(-1, arr.shape[-1])
        for p, m in enumerate(models):
            hit = [q for q in range(len(flat)) if np.array_equal(np.asarray(m.sig), flat[q])]
            sig_ids.append(arr_id * 4096 + (p if p in hit else hit[0]) if hit else -1)
            same_obj.append(p < len(dfs) and m.df_features is dfs[p])
            current.append(_obs(m) == _obs(bg))
    out['sig_ids'], out['same_obj'], out['current'] = sig_ids, same_obj, current
    return out


# ---------------------------------------------------------------------------------------------------

def oracle(c, o):
    if 'skip' in o:
        return None
    if o.get('problems'):
        return o['problems'][0]
    if 'err' in o:
        return 'history raised %s (%s)' % (o['err'], o.get('msg'))
    # the stored dictionaries carry what the user set (keys the user never touched are the model comparison's business)
    for k, v in o['user_thr'].items():
        if o['thr'].get(k) != v:
            return 'stored thresholds %s lost the user\'s setting %s = %s' % (o['thr'], k, v)
    for k, v in o['user_bk'].items():
        if o['bk'].get(k) != v:
            return 'stored burst options %s lost the user\'s setting %s = %s' % (o['bk'], k, v)
    return None


def nontrivial(c, o):
    if 'thr' not in o:
        return False
    if 'gops' in c:
        fits = [op for op in c['gops'] if op[0] == 'gfit']
        return len(fits) >= 2 or any(op[0] == 'grecompute' for op in c['gops'])
    fits = [i for i, op in enumerate(c['ops']) if op[0] == 'fit']
    return len(fits) >= 2 and any(op[0].startswith(('edit', 'set', 'center')) for op in c['ops'][fits[0]:fits[-1]])


def kind_of(c, o):
    k = c['kind']
    if 'thr' not in c['args']:
        k += '/default-thr'
    return k + ('/skip' if 'skip' in o else '/err' if 'err' in o else '')


def _dict(d):
    return coqio.lst(['("%s", %s%%Z)' % (k, coqio.Z(v)) for k, v in d.items()]) if d else 'nil'


def _opt(x, f):
    return 'None' if x is None else '(Some %s)' % f(x)


def _cargs(a):
    return ('{| ca_center := %s; ca_amp := %s; ca_bk := %s; ca_thr := %s; ca_fek := %s; ca_rs := %s |}' % (
        _opt(a.get('center'), coqio.B), _opt(a.get('amp'), coqio.B), _opt(a.get('bk'), _dict), _opt(a.get('thr'), _dict),
        _opt(a.get('fek'), lambda f: '%d%%Z' % f), _opt(a.get('rs'), coqio.B)))


def _coq_obs(o):
    return '(%s, %s, %s, %s, %d%%Z, %s)' % (_dict(o['thr']), _dict(o['bk']), coqio.B(o['center']), coqio.B(o['amp']), o['fek'],
                                           coqio.B(o['rs']))


_ERR = {'Type': 'EType', 'Value': 'EValue', 'Key': 'EKey', 'Index': 'EIndex'}
_SHAPE = {'rows': 'G2Rows %d', 'flat': 'G2Flat %d', 'g3': 'G3 %d %d', 'g3ax0': 'G3Ax0 %d %d', 'g3ax1': 'G3Ax1 %d %d'}


def coq_case(c, o):
    if 'skip' in o:
        return None
    ops = []
    if 'gops' in c:
        for op in c['gops']:
            if op[0] == 'gfit':
                sh = _SHAPE[op[2]] % ((op[3],) if op[4] is None else (op[3], op[4]))
                ops.append('GFit %d (%s)' % (op[1], sh))
            elif op[0] == 'grecompute':
                ops.append('GRecompute %d' % op[1])
            elif op[0] == 'gedit_thr':
                ops.append('GEditThr "%s" %d' % (op[1], op[2]))
            elif op[0] == 'gedit_bk':
                ops.append('GEditBk "%s" %d' % (op[1], op[2]))
        inp = '(%s, %s)' % (_cargs(c['args']), coqio.lst(ops) if ops else 'nil')
        if 'err' in o:
            return inp, '(Err %s)' % _ERR.get(o['err'], 'EOther')
        zl = lambda xs: coqio.lst(['%s%%Z' % coqio.Z(x) for x in xs]) if xs else 'nil'
        bl = lambda xs: coqio.lst([coqio.B(x) for x in xs]) if xs else 'nil'
        return inp, '(Ok (%s, %s, %s, %s))' % (_coq_obs(o), zl(o['sig_ids']), bl(o['same_obj']), bl(o['current']))
    for op in c['ops']:
        if op[0] == 'fit':
            ops.append('OFit %d' % op[1])
        elif op[0] == 'recompute':
            ops.append('ORecompute %d' % op[1])
        elif op[0] == 'load':
            ops.append('OLoad 0 %d' % op[1])
        elif op[0] == 'edit_thr':
            ops.append('OEditThr "%s" %d' % (op[1], op[2]))
        elif op[0] == 'edit_bk':
            ops.append('OEditBk "%s" %d' % (op[1], op[2]))
        elif op[0] == 'center':
            ops.append('OSetCenter %s' % coqio.B(op[1]))
        elif op[0] == 'set_thr':
            ops.append('OSetThr %s' % _dict(op[1]))
        elif op[0] == 'set_method':
            ops.extend(['OSetMethod %s' % coqio.B(op[1]), 'OSetThr %s' % _dict(op[2]), 'OSetBk %s' % _dict(op[3])])
        elif op[0] == 'set_fek':
            ops.append('OSetFek %d' % op[1])
        elif op[0] == 'set_rs':
            ops.append('OSetRs %s' % coqio.B(op[1]))
    inp = '(%s, %s)' % (_cargs(c['args']), coqio.lst(ops))
    if 'err' in o:
        return inp, '(Err %s)' % _ERR.get(o['err'], 'EOther')
    return inp, '(Ok %s)' % _coq_obs(o)
