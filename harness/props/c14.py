"""C14 — Bycycle objects reproduce the functional API and hold no stale state.  Model/Objects.v."""
import copy
import math
import random as _random
import numpy as np
from harness import coqio, gen, pipeline
from harness.core import exc_kind

PROP = 'C14'
PROPS_FILE = 'Props/C14.v'
_HEADER = ('From Coq Require Import List ZArith NArith String. Import ListNotations.\n'
           'From ByC Require Import Base.Result Harness.Compare Model.Objects.\nOpen Scope string_scope.')
_HEADER_F = ('From Coq Require Import List ZArith NArith String Floats.PrimFloat. Import ListNotations.\n'
             'From ByC Require Import Base.Result Harness.Compare Model.Objects.\nOpen Scope string_scope.')
COQ_STREAMS = {
    'object': (_HEADER, 'bad_history', ('cargs * list op', 'result obs'), 100),
    'group': (_HEADER, 'bad_group_history', ('cargs * list gop', 'result gobs'), 100),
    'reduce': (_HEADER_F, 'bad_reduce', ('bool * option fdict * list (option float)', 'result (list fdict)'), 100),
}
COQ_RUNNER = 'bad_history / bad_group_history / bad_reduce'
RULE = ('(a) random histories (length <= 8 quick, <= 20 thorough) of fit / recompute_edges(None | 0 | r) / load / threshold item edit / '
        'burst-option item edit / attribute assignments (center_extrema, thresholds = {...}, burst_kwargs = {...}, burst_method '
        'together with its dictionaries, find_extrema_kwargs, return_samples) on one real Bycycle object, both burst methods; constructor called '
        'with every argument optional (Bycycle() with no argument, thresholds=None for both methods, partial threshold '
        'dictionaries, long and shorthand names mixed key by key); signals drawn from the run\'s seed. After every fit df_features '
        'is compared with compute_features on deep copies of the intended settings (arguments that were never given are not passed '
        'to it either) and with a freshly constructed object; after every recompute_edges with the functional recomputation at '
        'reduced thresholds; after every load with the loaded table; after every operation that replaces df_features attribute '
        'access is compared with the column for ALL columns; reductions are drawn inside the valid range, so no history is '
        'discarded; after the history the stored settings are compared with the model. '
        '(b) random histories on one real BycycleGroup: fit of a 2-D array (axis 0 / None) or 3-D array (axis (0,1) / 0 / 1; leading '
        'dimensions mostly NOT square: (1,2) (1,3) (2,3) (2,1) (3,1) (3,2), some (1,1) (2,2)), re-fit with another shape, '
        'threshold / burst-option item edits, ATTRIBUTE ASSIGNMENTS on the group (center_extrema, thresholds = a new dict, '
        'burst_kwargs = a new dict, burst_method together with its dictionaries, find_extrema_kwargs, return_samples), '
        'recompute_edges after fits of EVERY axis mode (consistency method); after EVERY operation models[i].df_features '
        '= df_features[i] and models[i].sig = sigs[i] by value for every position (and equal counts); after a fit comparison '
        'with a fresh group constructed with the CURRENT settings (so a fit after an assignment must use the assigned value); '
        'after recompute_edges comparison of df_features AND of the model at every position with the functional recomputation '
        'of the table of that position; object identity of the mirrored tables and the settings held by the models (which '
        'follow an item edit at once, an attribute assignment only at the next fit) go into the model comparison only; '
        'group-reassign/...: fit - assign 1-3 attributes - fit (same or another array) [- recompute_edges], 1-2 rounds. '
        '(c) decision boundaries of recompute_edges(r): thresholds, edits and reductions are decimal literals from the grid '
        '{0, .05, ..., 1} (so that the lowered threshold v - r carries binary64 residue in either direction), dictionaries are '
        'given with a shuffled insertion order; tables whose feature values sit EXACTLY on and one ulp around the lowered '
        'threshold computed by plain binary64 subtraction and around the decimal literal of the nominal difference: synthetic '
        'cycle tables brought in with load (integer periods / flank voltages, so that the one-sided consistencies written '
        'into edge cycles are decimal fractions too) and real ramp signals with 10 / 20 / 40 cycles of pairwise different '
        'amplitude (amp_fraction = rank / n on the grid), for objects (boundary/...) and groups (group-boundary/...); the '
        'oracle stays: object recomputation = functional recompute_edges with {k: v - r}; the input distribution says for how '
        'many histories a feature sat on a lowered threshold / the labels depended on the last bits of it. '
        '(d) the public method reduce_thresholds(r) of fresh objects / groups (grid decimals, random binary64 numbers, ints, '
        'thresholds=None, r=None) is compared key by key and bit by bit with the binary64 difference v - r in the model '
        'comparison only (third Coq stream, no oracle verdict). '
        '(e) refit/...: fit, ONE setting changed - a strong threshold edit by item assignment or an attribute assignment '
        '(thresholds = a new dict, center_extrema, burst_kwargs = a new dict, find_extrema_kwargs, return_samples) - fit of '
        'the same recording again (1-3 times). '
        'non-trivial = an object history with >= 2 fits and >= 1 edit in between, or a group history with a re-fit or a '
        'recomputation, or a reduce case with a non-zero reduction')
ASSUMPTIONS = ['recompute_edges is only applied to consistency-method objects holding a table produced by consistency burst '
               'detection (the method is documented for them only) or a synthetic table of that form brought in with load; for '
               'groups after consistency-method fits of any axis mode (the flattened-epoch tables carry the same columns); a '
               'history in which the group recomputation and the functional recomputation of one of its tables raise the same '
               'exception class is skipped',
               '"every *_threshold lowered by r" is read as the binary64 difference v - r of the stored threshold and the reduction '
               '(what a caller of the functional API computes); +0 and -0 are not told apart in the reduce_thresholds stream',
               'attribute assignments replace a dictionary by one with long key names (shorthand is a constructor feature); a change '
               'of burst_method is followed immediately by matching thresholds / burst_kwargs',
               'group settings are changed by item assignments on the group\'s dictionaries (shared with the models of the last '
               'fit) and by assigning a new value / a new dictionary to the attribute; the property says what the NEXT FIT yields '
               '(the current settings); which thresholds a group recompute_edges uses between an assignment of `thresholds` and the '
               'next fit is not stated, so such a recomputation (rare, marked stale) is run for the mirror clause and the model '
               'comparison only, without a value verdict',
               'a history whose fit fails in the same way as compute_features on that signal (degenerate signal, C01 domain) is skipped']
AMP_THRESHES = [(1, 2), (0.5, 1.5), (0.8, 1.2), (0.9, 1.1)]     # the narrow pairs find bursts in the ramp signals too
FEKS = [None, {'boundary': 1}, {'boundary': 5}, {'filter_kwargs': {'n_cycles': 4}},
        {'boundary': 3, 'filter_kwargs': {'n_cycles': 2}}, {'pad': True, 'boundary': 2}]
FEK_DEFAULT = {'filter_kwargs': {'n_cycles': 3}}
CYC_NAMES = ['amp_fraction', 'amp_consistency', 'period_consistency', 'monotonicity']
CYC_DEF = {k: int(round(v * 1000)) if k != 'min_n_cycles' else v for k, v in pipeline.CYC_DEFAULTS.items()}
AMP_DEF = {'burst_fraction_threshold': 1000, 'min_n_cycles': 3}
SIGS = {}


GRID = list(range(0, 1001, 50))              # the decimal grid {0, .05, .1, ..., 1} in thousandths
N_PLAIN, N_RAMP = 4, 8                       # signal ids 0..3: generated signals; 4..11: ramp signals (see _ramp)
RAMP_FS_P = [(100, 10), (200, 25), (250, 20), (500, 50)]
RAMP_CYCLES = [10, 20, 20, 40]
N_ENV = 6


def _ramp(seed, k, env=None):
    """A clean rhythm of period P samples whose envelope takes pairwise different values at the cycles, of length
    P * (n + 1) + P // 2: the cycle table then has n = 10 / 20 / 40 rows for both centrings with the default extrema
    options (checked when this generator was written; the evidence lists how often a feature really sat on a lowered
    threshold), so that amp_fraction = rank / n takes every value of the decimal grid k/10, k/20 exactly."""
    fs, P = RAMP_FS_P[(seed + k) % len(RAMP_FS_P)]
    n = RAMP_CYCLES[k % len(RAMP_CYCLES)]
    L = P * (n + 1) + P // 2
    t = np.arange(L)
    u = t / L
    e = ((seed // 7 + k) if env is None else env) % N_ENV
    envs = [1 + 2.0 * u, 3 - 2.0 * u, 1 + 2 * np.abs(u - 0.37), 1 + ((u * 3.3) % 1.0) + 0.1 * u, 1 + 1.3 * u, 2.5 - 1.2 * u]
    f0 = fs / P
    return envs[e] * np.sin(2 * np.pi * t / P), fs, (0.8 * f0, 1.2 * f0)


def _sig(seed, k):
    if (seed, k) not in SIGS:
        if k >= N_PLAIN:
            SIGS[(seed, k)] = _ramp(seed, k)
        else:
            s = gen.signal(_random.Random(seed * 16 + k), kind=['sparse', 'bursty', 'sum', 'sine'][k % 4], max_len=420)
            SIGS[(seed, k)] = (s['sig'], s['fs'], tuple(s['f_range']))
    return SIGS[(seed, k)]


N_ARR_PLAIN, N_ARR_RAMP = 3, 2               # array ids 0..2: rows derived from a generated signal; 3, 4: ramp rows


def _arr(seed, k, n0, n1):
    """n0 (x n1) distinct rows (2-D when n1 is None): derived from one generated signal, or (k >= 3) ramp signals of one
    length and rhythm with pairwise different envelopes (at most 6 positions are ever asked for)."""
    key = (seed, k, n0, n1)
    if key not in SIGS:
        if k >= N_ARR_PLAIN:
            kk = N_PLAIN + (k - N_ARR_PLAIN)          # 10 or 20 cycles
            rows = [_ramp(seed, kk, env=p)[0] for p in range(n0 * (n1 or 1))]
            _, fs, fr = _ramp(seed, kk)
        else:
            base, fs, fr = _sig(seed, k)
            nrng = np.random.default_rng(seed * 16 + k)
            rows = [np.roll(base, 11 * p) * (1 + 0.1 * p) + 0.01 * nrng.standard_normal(len(base)) for p in range(n0 * (n1 or 1))]
        a = np.array(rows)
        SIGS[key] = (a if n1 is None else a.reshape(n0, n1, -1), fs, fr)
    return SIGS[key]


# ---------------------------------------------------------------------------------------------------
# generators

def _shuffled(rng, d):
    """The same dictionary with its insertion order drawn from rng (a user does not write keys in any canonical order)."""
    items = list(d.items())
    rng.shuffle(items)
    return dict(items)


def _grid(rng, top=750):
    """A threshold from the decimal grid {0, .05, ..., top} (thousandths)."""
    return rng.choice([x for x in GRID if x <= top])


def _gen_thr_cycles(rng, partial):
    mixed = rng.random() < 0.5
    short_all = rng.random() < 0.4
    thr = {}
    for nm in CYC_NAMES:
        if partial and rng.random() < 0.45:
            continue
        short = (rng.random() < 0.5) if mixed else short_all
        thr[nm if short else nm + '_threshold'] = _grid(rng)
    if not partial or rng.random() < 0.6:
        thr['min_n_cycles'] = rng.choice([1, 2, 3])
    return _shuffled(rng, thr)


def _gen_thr_amp(rng, partial):
    thr = {}
    if not partial or rng.random() < 0.6:
        thr['burst_fraction' if rng.random() < 0.4 else 'burst_fraction_threshold'] = rng.choice([200, 500, 1000])
    if rng.random() < 0.7:
        thr['min_n_cycles'] = rng.choice([1, 2, 3, 4])
    return _shuffled(rng, thr)


def _gen_bk(rng):
    bk = {}
    if rng.random() < 0.6:
        bk['amp_threshes'] = rng.randrange(len(AMP_THRESHES))
    if rng.random() < 0.3:
        bk['min_n_cycles'] = rng.choice([1, 2, 3, 5])
    return _shuffled(rng, bk)


def _gen_args(rng):
    """Constructor arguments; a missing key = the argument is not passed."""
    if rng.random() < 0.04:
        return {}                                            # Bycycle()
    a = {}
    amp = rng.random() < 0.5
    if amp or rng.random() < 0.7:
        a['amp'] = amp
    if rng.random() < 0.8:
        a['center'] = rng.random() < 0.6
    r = rng.random()
    if r < 0.18:
        pass                                                 # thresholds=None -> documented defaults
    else:
        partial = r < 0.5
        a['thr'] = _gen_thr_amp(rng, partial) if amp else _gen_thr_cycles(rng, partial)
    if amp and rng.random() < 0.7:
        a['bk'] = _gen_bk(rng)
    if rng.random() < 0.7:
        a['fek'] = rng.randrange(len(FEKS))
    if rng.random() < 0.6:
        a['rs'] = rng.random() < 0.8
    return a


def _expand(d):
    out = {}
    for k, v in d.items():
        out[k if (k.endswith('_threshold') or k == 'min_n_cycles') else k + '_threshold'] = v
    return out


def _valid_reduction(rng, thr):
    """A reduction from the decimal grid (thousandths) that keeps every stored *_threshold inside [0, 1]: thresholds and
    reductions are decimal literals, so that the lowered threshold v - r carries binary64 residue in either direction
    (.3 - .1 < .2, .8 - .1 > .7) as it does for a user who types such numbers."""
    vals = [v for k, v in thr.items() if k.endswith('threshold')]
    top = min(vals) if vals else 300
    pos = [x for x in GRID if 0 < x <= top]
    r = rng.choice(pos) if pos and rng.random() < 0.75 else 0
    return ['recompute', r, rng.choice(['none', 'zero']) if r == 0 else 'val']


def _fit_id(rng, last=None, amp=False):
    """Signal id of a fit: the signal of the previous fit again (1 in 3 when there is one: a user edits a setting and
    re-fits the same recording), else a generated signal, or (1 in 4) a ramp signal whose amp_fraction values are grid
    decimals.  For the amplitude method half of the fits take the sparse / bursty signals (ids 0, 1): on them the
    dual-threshold detector finds bursts, so that the table depends on burst_kwargs and the thresholds."""
    if last is not None and rng.random() < 0.34:
        return last
    if amp and rng.random() < 0.5:
        return rng.randrange(2)
    return rng.randrange(N_PLAIN) if rng.random() < 0.75 else N_PLAIN + rng.randrange(N_RAMP)


def _load_syn(rng, thr, r=None):
    """A `load` of a synthetic cycle table whose feature values sit exactly on / one ulp around the thresholds lowered by
    the reduction of the recompute_edges that follows (both returned)."""
    rec = _valid_reduction(rng, thr) if r is None else ['recompute', r, 'val']
    return [['load_syn', _fit_id(rng), rng.randrange(10 ** 6), dict(thr), rec[1]], rec]


def _gen_object_case(rng, maxlen):
    args = _gen_args(rng)
    amp = args.get('amp', False)
    thr = _expand(args['thr']) if 'thr' in args else dict(AMP_DEF if amp else CYC_DEF)      # the generator's own bookkeeping
    ops = []
    df_cycles = False          # the object currently holds a table produced by a consistency-method fit
    fitted = False
    last_fit = None
    fit_cycles = None          # method of the last FITTED table (what `load` brings back); None: no fit yet
    for _ in range(rng.randint(2, maxlen)):
        r = rng.random()
        if r < 0.33 or not ops:
            last_fit = _fit_id(rng, last_fit, amp)
            ops.append(['fit', last_fit])
            fitted, df_cycles, fit_cycles = True, not amp, not amp
        elif r < 0.47 and not amp and (df_cycles or r < 0.40):
            if not df_cycles or rng.random() < 0.4:
                ops.extend(_load_syn(rng, thr))           # load a synthetic boundary table, then recompute_edges(r)
                fitted, df_cycles = True, True
            else:
                ops.append(_valid_reduction(rng, thr))
        elif r < 0.66:
            if amp:
                k = rng.choice(['burst_fraction_threshold', 'min_n_cycles'])
                v = rng.choice([200, 500, 1000]) if k.endswith('threshold') else rng.choice([1, 2, 3, 4, 6, 10])
            else:
                k = rng.choice([nm + '_threshold' for nm in CYC_NAMES] + ['min_n_cycles'])
                v = _grid(rng, 800) if k.endswith('threshold') else rng.choice([1, 2, 3, 4])
            ops.append(['edit_thr', k, v])
            thr[k] = v
        elif r < 0.72 and amp:
            if rng.random() < 0.35:
                ops.append(['set_bk', _gen_bk(rng)])          # bm.burst_kwargs = {...}: a NEW dictionary
            else:
                k = rng.choice(['amp_threshes', 'min_n_cycles'])
                ops.append(['edit_bk', k, rng.randrange(len(AMP_THRESHES)) if k == 'amp_threshes' else rng.choice([1, 2, 4])])
        elif r < 0.78:
            ops.append(['center', rng.random() < 0.5])
        elif r < 0.83:
            thr = _expand(_gen_thr_amp(rng, rng.random() < 0.4) if amp else _gen_thr_cycles(rng, rng.random() < 0.4))
            ops.append(['set_thr', dict(thr)])
        elif r < 0.87:
            amp = not amp
            thr = _expand(_gen_thr_amp(rng, False) if amp else _gen_thr_cycles(rng, rng.random() < 0.3))
            ops.append(['set_method', amp, dict(thr), _gen_bk(rng) if amp else {}])
        elif r < 0.91:
            ops.append(['set_fek', rng.randrange(len(FEKS))])
        elif r < 0.94:
            ops.append(['set_rs', rng.random() < 0.7])
        elif fitted:
            ops.append(['load', rng.randrange(4)])
            if fit_cycles is not None:
                df_cycles = fit_cycles                    # `load` re-loads the last fitted table, whatever was loaded since
    ops.append(['fit', _fit_id(rng, last_fit, amp)])
    return {'kind': 'history/' + ('amp' if args.get('amp', False) else 'cycles'), 'args': args, 'ops': ops,
            'sigseed': rng.randrange(10 ** 6)}


def _gen_refit_case(rng):
    """The everyday history: fit, change ONE setting, fit the SAME recording again (1-3 times), nothing else in between.
    The change is an item assignment on the thresholds (the new value far from the old one, so that the labels usually
    change) or - half of the rounds - an ATTRIBUTE assignment: thresholds = a new dictionary with one value changed,
    center_extrema flipped, burst_kwargs = a new dictionary (amplitude method), find_extrema_kwargs, return_samples."""
    args = _gen_args(rng)
    amp = args.get('amp', False)
    thr = _expand(args['thr']) if 'thr' in args else dict(AMP_DEF if amp else CYC_DEF)
    center = args.get('center', True)
    rs = args.get('rs', True)
    k0 = _fit_id(rng, None, amp)
    ops = [['fit', k0]]
    for _ in range(rng.randint(1, 3)):
        if amp:
            k = rng.choice(['min_n_cycles', 'min_n_cycles', 'burst_fraction_threshold'])
            pool = [200, 500, 1000] if k.endswith('threshold') else [1, 2, 4, 8]
        else:
            k = rng.choice([nm + '_threshold' for nm in CYC_NAMES] + ['min_n_cycles'])
            pool = [0, 250, 500, 750, 900] if k.endswith('threshold') else [1, 2, 3, 5]
        v = rng.choice([x for x in pool if x != thr.get(k)])
        q = rng.random()
        cut = (0.4, 0.55, 0.62) if amp else (0.5, 0.72, 0.84)
        if q < cut[0]:
            ops.append(['edit_thr', k, v])
            thr[k] = v
        elif q < cut[1]:
            thr = dict(thr)
            thr[k] = v
            ops.append(['set_thr', dict(thr)])
        elif q < cut[2]:
            center = not center
            ops.append(['center', center])
        elif q < 0.9 and amp:
            ops.append(['set_bk', rng.choice([{'amp_threshes': 1}, {'amp_threshes': 2}, {'amp_threshes': 3}, {'amp_threshes': 0},
                                              {'min_n_cycles': rng.choice([1, 2, 5])}, {'amp_threshes': 2, 'min_n_cycles': 1}])])
        elif q < 0.95:
            ops.append(['set_fek', rng.choice([1, 2, 3, 4])])
        else:
            rs = not rs
            ops.append(['set_rs', rs])
        ops.append(['fit', k0])
    return {'kind': 'refit/' + ('amp' if amp else 'cycles'), 'args': args, 'ops': ops, 'sigseed': rng.randrange(10 ** 6)}


def _gen_boundary_case(rng):
    """Decision-boundary histories: complete consistency thresholds from the decimal grid (long and shorthand names mixed,
    insertion order shuffled), a fit of a ramp signal (amp_fraction = rank / n on the decimal grid) and / or a load of a
    synthetic boundary table, then recompute_edges(r) with r from the grid; then possibly an edit and a second round."""
    r = rng.choice([x for x in GRID if 50 <= x <= 600])
    args = {'thr': _boundary_thr(rng, r)}
    if rng.random() < 0.6:
        args['center'] = rng.random() < 0.5
    if rng.random() < 0.3:
        args['amp'] = False
    if rng.random() < 0.3:
        args['fek'] = rng.choice([0, 1, 2])
    if rng.random() < 0.4:
        args['rs'] = rng.random() < 0.8
    cur = _expand(args['thr'])
    ops = [['fit', N_PLAIN + rng.randrange(N_RAMP)]]
    for rnd in range(rng.choice([1, 1, 2])):
        if rnd:
            k = rng.choice([nm + '_threshold' for nm in CYC_NAMES])
            cur[k] = _grid(rng, 800)
            ops.append(['edit_thr', k, cur[k]])
            if rng.random() < 0.5:
                ops.append(['fit', N_PLAIN + rng.randrange(N_RAMP)])
            top = min(v for q, v in cur.items() if q.endswith('threshold'))
            pos = [x for x in GRID if 0 < x <= top]
            r = rng.choice(pos) if pos else 0
        if rng.random() < 0.45:
            ops.extend(_load_syn(rng, cur, r) if r else _load_syn(rng, cur))
        else:
            ops.append(['recompute', r, 'val' if r else 'zero'])
    ops.append(['fit', _fit_id(rng)])
    return {'kind': 'boundary/cycles', 'args': args, 'ops': ops, 'sigseed': rng.randrange(10 ** 6)}


def _arr_id(rng):
    return rng.randrange(N_ARR_PLAIN) if rng.random() < 0.7 else N_ARR_PLAIN + rng.randrange(N_ARR_RAMP)


def _boundary_thr(rng, r):
    """Complete consistency thresholds from the decimal grid, every *_threshold >= r, names mixed, order shuffled."""
    thr = {}
    for nm in CYC_NAMES:
        hi = 1000 if nm == 'amp_fraction' else max(r, 650)
        thr[nm if rng.random() < 0.4 else nm + '_threshold'] = rng.choice([x for x in GRID if r <= x <= hi])
    thr['min_n_cycles'] = rng.choice([1, 2, 2, 3])
    return _shuffled(rng, thr)


# leading dimensions of 3-D arrays: square, n0 < n1 and n0 > n1, size-1 dimensions; at most 6 positions (see _arr)
SHAPES3 = [(1, 1), (2, 2), (1, 2), (1, 3), (2, 3), (2, 1), (3, 1), (3, 2)]
SH3 = ('g3', 'g3ax0', 'g3ax1')


def _gen_shape(rng, kinds=('rows', 'rows', 'flat', 'g3', 'g3', 'g3ax0', 'g3ax1')):
    """(shape kind, n0, n1): a 2-D array (n1 None) or a 3-D array whose leading dimensions are mostly NOT square."""
    sh = rng.choice(kinds)
    if sh in SH3:
        n0, n1 = rng.choice(SHAPES3[2:] if rng.random() < 0.8 else SHAPES3[:2])
        return sh, n0, n1
    return sh, rng.choice([1, 2, 3]), None


def _gen_group_boundary_case(rng):
    """Group counterpart of _gen_boundary_case: ramp rows (2-D axis 0 / 3-D fits of every axis mode, n0 != n1 included),
    recompute_edges(r) with r from the grid."""
    r = rng.choice([x for x in GRID if 50 <= x <= 600])
    args = {'thr': _boundary_thr(rng, r)}
    if rng.random() < 0.6:
        args['center'] = rng.random() < 0.5
    gops = []
    if rng.random() < 0.4:                                     # a fit of another shape first
        gops.append(['gfit', _arr_id(rng)] + list(_gen_shape(rng)))
    gops.append(['gfit', N_ARR_PLAIN + rng.randrange(N_ARR_RAMP)] + list(_gen_shape(rng, ('rows', 'g3', 'g3', 'g3', 'g3ax0', 'g3ax1'))))
    gops.append(['grecompute', r, 'val'])
    return {'kind': 'group-boundary/cycles', 'args': args, 'gops': gops, 'sigseed': rng.randrange(10 ** 6)}


def _gen_group_assign(rng, amp, thr):
    """One attribute assignment (or, for burst_method, the block that keeps the settings a valid combination) on a
    group: returns (gops, amp, thresholds bookkeeping, thresholds dictionary replaced?)."""
    q = rng.random()
    if q < 0.25:
        return [['gset_center', rng.random() < 0.5]], amp, thr, False
    if q < 0.55:
        new = _expand(_gen_thr_amp(rng, rng.random() < 0.3) if amp else _gen_thr_cycles(rng, rng.random() < 0.3))
        return [['gset_thr', dict(new)]], amp, new, True
    if q < 0.68:
        return [['gset_fek', rng.randrange(len(FEKS))]], amp, thr, False
    if q < 0.78:
        return [['gset_rs', rng.random() < 0.6]], amp, thr, False
    if q < 0.86 and amp:
        return [['gset_bk', _gen_bk(rng)]], amp, thr, False
    amp = not amp
    new = _expand(_gen_thr_amp(rng, False) if amp else _gen_thr_cycles(rng, rng.random() < 0.3))
    return [['gset_method', amp, dict(new), _gen_bk(rng) if amp else {}]], amp, new, True


def _gen_group_case(rng, maxlen):
    args = _gen_args(rng)
    amp = args.get('amp', False)
    thr = _expand(args['thr']) if 'thr' in args else dict(AMP_DEF if amp else CYC_DEF)
    mthr = thr                 # thresholds the MODELS of the last fit hold: the same dictionary until the group's is replaced
    gops = []
    rc_ok = False              # the group holds consistency-method tables and its models the group's thresholds
    rc_stale = False           # ... the models hold an OLDER thresholds dictionary than the group (recomputation not judged)
    for step in range(rng.randint(2, maxlen)):
        r = rng.random()
        if r < 0.36 or not gops:
            gops.append(['gfit', _arr_id(rng)] + list(_gen_shape(rng)))
            mthr = thr
            rc_ok, rc_stale = (not amp), False
        elif r < 0.58 and rc_ok:
            gops.append(['g' + x if i == 0 else x for i, x in enumerate(_valid_reduction(rng, thr))])
        elif r < 0.61 and rc_stale:
            gops.append(['g' + x if i == 0 else x for i, x in enumerate(_valid_reduction(rng, mthr))] + ['stale'])
        elif r < 0.74:
            ops, amp2, thr2, replaced = _gen_group_assign(rng, amp, thr)
            gops.extend(ops)
            if replaced:
                if mthr is thr:
                    mthr = dict(thr)                  # the models keep the old dictionary as it is now
                rc_stale = (rc_ok or rc_stale) and amp2 == amp and not amp
                rc_ok = False
            amp, thr = amp2, thr2
        elif r < 0.93 or not amp:
            if amp:
                k = rng.choice(['burst_fraction_threshold', 'min_n_cycles'])
                v = rng.choice([200, 500, 1000]) if k.endswith('threshold') else rng.choice([1, 2, 3, 4])
            else:
                k = rng.choice([nm + '_threshold' for nm in CYC_NAMES] + ['min_n_cycles'])
                v = _grid(rng, 800) if k.endswith('threshold') else rng.choice([1, 2, 3])
            gops.append(['gedit_thr', k, v])
            thr[k] = v                                # reaches the models iff they share the dictionary (mthr is thr)
        else:
            k = rng.choice(['amp_threshes', 'min_n_cycles'])
            gops.append(['gedit_bk', k, rng.randrange(len(AMP_THRESHES)) if k == 'amp_threshes' else rng.choice([1, 2, 4])])
    return {'kind': 'group/' + ('amp' if args.get('amp', False) else 'cycles'), 'args': args, 'gops': gops, 'sigseed': rng.randrange(10 ** 6)}


def _gen_group_reassign_case(rng):
    """The group counterpart of refit/...: fit, ASSIGN new values to settings attributes, fit again (the same array or
    another one, often of another shape), sometimes followed by recompute_edges: the second fit must run with the
    attribute values in force when it is called."""
    args = _gen_args(rng)
    amp = args.get('amp', False)
    thr = _expand(args['thr']) if 'thr' in args else dict(AMP_DEF if amp else CYC_DEF)
    first = ['gfit', _arr_id(rng)] + list(_gen_shape(rng))
    gops = [first]
    for _ in range(rng.randint(1, 2)):
        for _ in range(rng.randint(1, 3)):
            ops, amp, thr, _rep = _gen_group_assign(rng, amp, thr)
            gops.extend(ops)
        gops.append(list(first) if rng.random() < 0.5 else ['gfit', _arr_id(rng)] + list(_gen_shape(rng)))
        if not amp and rng.random() < 0.5:
            gops.append(['g' + x if i == 0 else x for i, x in enumerate(_valid_reduction(rng, thr))])
    return {'kind': 'group-reassign/' + ('amp' if args.get('amp', False) else 'cycles'), 'args': args, 'gops': gops,
            'sigseed': rng.randrange(10 ** 6)}


def _gen_reduce_case(rng):
    """The public method reduce_thresholds(r) on a freshly constructed object / group: thresholds and reductions from the
    decimal grid, from random binary64 numbers, integers, or the documented defaults (thresholds=None); r may be None.
    Values are kept as floats in the case (not thousandths): this stream is compared bit by bit."""
    amp = rng.random() < 0.25
    names = ['burst_fraction'] if amp else CYC_NAMES

    def val():
        q = rng.random()
        if q < 0.6:
            return rng.choice(GRID) / 1000.0
        if q < 0.7:
            return rng.choice([0, 1])                      # a Python int
        if q < 0.85:
            return rng.random()
        return round(rng.random(), rng.choice([1, 2, 3]))
    thr = None
    if rng.random() < 0.85:
        thr = {}
        for nm in names:
            if rng.random() < 0.85:
                thr[nm if rng.random() < 0.4 else nm + '_threshold'] = val()
        if rng.random() < 0.8:
            thr['min_n_cycles'] = rng.choice([1, 2, 3, 4])
        thr = _shuffled(rng, thr)
    rs = []
    for _ in range(rng.randint(2, 6)):
        q = rng.random()
        rs.append(None if q < 0.1 else 0 if q < 0.15 else rng.choice(GRID) / 1000.0 if q < 0.75 else
                  rng.random() if q < 0.9 else round(rng.random(), rng.choice([1, 2])))
    return {'kind': 'reduce/' + ('amp' if amp else 'cycles'), 'reduce': True, 'amp': amp, 'thr': thr, 'rs': rs,
            'group': rng.random() < 0.3}


def cases(rng, tier):
    out = []
    quick = tier == 'quick'
    maxlen = 8 if quick else 20
    for _ in range(120 if quick else 1200):
        out.append(_gen_object_case(rng, maxlen))
    for _ in range(45 if quick else 400):
        out.append(_gen_group_case(rng, 7 if quick else 14))
    for _ in range(24 if quick else 240):
        out.append(_gen_refit_case(rng))
    for _ in range(40 if quick else 400):
        out.append(_gen_boundary_case(rng))
    for _ in range(12 if quick else 100):
        out.append(_gen_group_boundary_case(rng))
    for _ in range(16 if quick else 160):
        out.append(_gen_group_reassign_case(rng))
    for _ in range(40 if quick else 400):
        out.append(_gen_reduce_case(rng))
    return out


def stream_of(c):
    return 'reduce' if c.get('reduce') else 'group' if 'gops' in c else 'object'


# ---------------------------------------------------------------------------------------------------
# encodings

def _thr_py(d):
    return {k: (v / 1000.0 if k != 'min_n_cycles' else v) for k, v in d.items()}


def _bk_py(d):
    if d is None:
        return None
    return {k: (AMP_THRESHES[v] if k == 'amp_threshes' else v) for k, v in d.items()}


def _same(a, b):
    """Equal tables: same rows, same column set (not order), same values."""
    if a is None or b is None or set(a.columns) != set(b.columns) or len(a) != len(b):
        return False
    for col in a.columns:
        x, y = np.asarray(a[col]), np.asarray(b[col])
        if x.dtype.kind == 'f' or y.dtype.kind == 'f':
            if not np.array_equal(x.astype(float), y.astype(float), equal_nan=True):
                return False
        elif not np.array_equal(x, y):
            return False
    return True


def _attr_problem(bm):
    """Attribute access returns the table's columns (all of them, on the table the object holds NOW)."""
    df = bm.df_features
    for col in df.columns:
        try:
            got = getattr(bm, col)
        except Exception as e:
            return 'attribute access %r raised %s' % (col, type(e).__name__)
        x, y = np.asarray(got), np.asarray(df[col].values)
        ok = (np.array_equal(x.astype(float), y.astype(float), equal_nan=True) if (x.dtype.kind == 'f' or y.dtype.kind == 'f')
              else np.array_equal(x, y))
        if not ok:
            return 'attribute access %r does not return the column of the current table' % col
    return None


def _enc_thr(d):
    if not isinstance(d, dict):
        return {'<not a dict>': 1}
    return {k: (int(round(v * 1000)) if k != 'min_n_cycles' else int(v)) for k, v in d.items() if isinstance(v, (int, float))}


def _enc_bk(d):
    out = {}
    for k, v in (d or {}).items():
        if k == 'amp_threshes':
            out[k] = AMP_THRESHES.index(tuple(v)) if tuple(v) in AMP_THRESHES else 99
        elif k == 'min_n_cycles':
            out[k] = int(v)
        else:
            out[k] = 77      # any other key left behind in the caller's dictionary (e.g. fs, f_range)
    return out


def _enc_fek(d):
    if d == FEK_DEFAULT:
        return 0
    for i, f in enumerate(FEKS):
        if f is not None and d == f:
            return i
    return 99


def _obs(b):
    return {'thr': _enc_thr(b.thresholds), 'bk': _enc_bk(b.burst_kwargs), 'center': b.center_extrema == 'peak',
            'amp': b.burst_method == 'amp', 'fek': _enc_fek(b.find_extrema_kwargs), 'rs': bool(b.return_samples)}


class _Want:
    """The harness's own record of the settings the user intends (never read back from the object)."""

    def __init__(self, args):
        self.given = {k: True for k in args}
        self.amp = args.get('amp', False)
        self.center = args.get('center', True)
        self.thr = _expand(_thr_py(args['thr'])) if 'thr' in args else None      # None: never given, never edited
        self.bk = dict(_bk_py(args['bk'])) if 'bk' in args else None
        self.fek = args.get('fek')                                               # index or None (not given)
        self.rs = args.get('rs', True)
        self.user_thr = dict(self.thr or {})          # keys the USER has set (given or edited), for the stored-settings clause
        self.user_bk = dict(self.bk or {})

    def thr_full(self, keep=True):
        """Intended thresholds when an edit hits a dictionary the user never passed: documented defaults + edits."""
        if self.thr is None:
            d = _thr_py(AMP_DEF if self.amp else CYC_DEF)
            if not keep:
                return d
            self.thr = d
        return self.thr

    def kwargs(self, for_object):
        """Keyword arguments for compute_features (threshold_kwargs) / Bycycle (thresholds): only what was given or set."""
        kw = {}
        if 'center' in self.given:
            kw['center_extrema'] = 'peak' if self.center else 'trough'
        if 'amp' in self.given:
            kw['burst_method'] = 'amp' if self.amp else 'cycles'
        # the references get their dictionaries in sorted key order, whatever order the object under test was given
        if self.bk is not None and self.amp:
            kw['burst_kwargs'] = copy.deepcopy(dict(sorted(self.bk.items())))
        if self.thr is not None:
            kw['thresholds' if for_object else 'threshold_kwargs'] = copy.deepcopy(dict(sorted(self.thr.items())))
        if self.fek is not None and FEKS[self.fek] is not None:
            kw['find_extrema_kwargs'] = copy.deepcopy(FEKS[self.fek])
        if 'rs' in self.given:
            kw['return_samples'] = self.rs
        return kw

    def reduced(self, r):
        return {k: (v - r if k.endswith('threshold') else v) for k, v in self.thr_full(keep=False).items()}


def _ctor_kwargs(args):
    kw = {}
    if 'center' in args:
        kw['center_extrema'] = 'peak' if args['center'] else 'trough'
    if 'amp' in args:
        kw['burst_method'] = 'amp' if args['amp'] else 'cycles'
    if 'bk' in args:
        kw['burst_kwargs'] = _bk_py(args['bk'])
    if 'thr' in args:
        kw['thresholds'] = _thr_py(args['thr'])
    if 'fek' in args:
        kw['find_extrema_kwargs'] = copy.deepcopy(FEKS[args['fek']])
    if 'rs' in args:
        kw['return_samples'] = args['rs']
    return kw


# ---------------------------------------------------------------------------------------------------
# running real objects

def _syn_table(tseed, thr, r, peak):
    """Synthetic consistency-method cycle table (5-18 rows) for `load`.  thr: the stored thresholds (thousandths, long
    names; a missing key means the documented default of detect_bursts_cycles, which a reduction does not touch), r: the
    reduction (thousandths) of the recompute_edges that follows.  Interior feature values are drawn from: clearly above
    the lowered threshold, clearly below, and the BOUNDARY set {a, a +- 1 ulp, d, d +- 1 ulp} where a = v/1000 - r/1000
    is the plain binary64 subtraction of the two decimal literals and d = (v - r)/1000 the literal of the nominal
    difference.  Periods and flank voltages are small integers, so that the one-sided consistencies recompute_edge
    writes into edge cycles (min / max ratios) are decimal fractions as well."""
    import pandas as pd
    rng = _random.Random(tseed)
    n = rng.randint(5, 18)
    rr = r / 1000.0

    def lowered(name):
        v = thr.get(name + '_threshold')
        if v is None:
            a = pipeline.CYC_DEFAULTS[name + '_threshold']
            return a, a
        return v / 1000.0 - rr, (v - r) / 1000.0

    def draw(name):
        a, d = lowered(name)
        q = rng.random()
        if q < 0.5:
            x = rng.choice([1.0, min(1.0, a + 0.25), min(1.0, a + 0.1)])
        elif q < 0.9:
            c = rng.choice([a, d])
            x = rng.choice([c, c, math.nextafter(c, 2.0), math.nextafter(c, -1.0)])
        else:
            x = rng.choice([0.0, a - 0.2, a / 2])
        return min(1.0, max(0.0, x))
    period = [rng.choice([4, 5, 8, 10, 16, 20, 25, 40, 50]) for _ in range(n)]
    rise = [float(rng.choice([1, 2, 3, 4, 5, 6, 7, 8, 9, 10, 20])) for _ in range(n)]
    decay = [float(rng.choice([1, 2, 3, 4, 5, 6, 7, 8, 9, 10, 20])) for _ in range(n)]
    start = np.concatenate([[3], 3 + np.cumsum(period)]).astype(int)
    cols = {}
    if peak:
        cols['sample_peak'] = start[:-1] + np.array(period) // 2
        cols['sample_last_trough'] = start[:-1]
        cols['sample_next_trough'] = start[1:]
    else:
        cols['sample_trough'] = start[:-1] + np.array(period) // 2
        cols['sample_last_peak'] = start[:-1]
        cols['sample_next_peak'] = start[1:]
    cols['period'] = np.array(period, dtype=int)
    cols['volt_decay'] = np.array(decay)
    cols['volt_rise'] = np.array(rise)
    cols['volt_amp'] = (np.array(decay) + np.array(rise)) / 2
    cols['band_amp'] = np.array([rng.random() + 0.5 for _ in range(n)])
    feats = {nm: np.array([draw(nm) for _ in range(n)]) for nm in CYC_NAMES}
    for nm in ('amp_consistency', 'period_consistency'):
        feats[nm][0] = feats[nm][-1] = np.nan
    cols.update(feats)
    lab = np.array([rng.random() < 0.55 for _ in range(n)], dtype=bool)
    lab[0] = lab[-1] = False
    cols['is_burst'] = lab
    return pd.DataFrame(cols)


def _sensitivity(before, red):
    """Evidence only: does some feature of the table sit exactly on a lowered threshold, and would the recomputed labels
    change if the lowered thresholds were moved by 1e-10 either way?"""
    from bycycle.burst import recompute_edges
    on = False
    for k, v in red.items():
        col = k[:-len('_threshold')]
        if k.endswith('_threshold') and col in before.columns:
            on = on or bool(np.any(np.asarray(before[col], dtype=float) == v))
    flips = False
    try:
        ref = np.asarray(recompute_edges(before.copy(), dict(red))['is_burst'])
        for eps in (1e-10, -1e-10):
            alt = {k: (min(1.0, max(0.0, v + eps)) if k.endswith('threshold') else v) for k, v in red.items()}
            flips = flips or not np.array_equal(ref, np.asarray(recompute_edges(before.copy(), alt)['is_burst']))
    except Exception:
        pass
    return on, flips


def _reference_fails_too(sig, fs, fr, want, kind):
    from bycycle.features import compute_features
    try:
        compute_features(sig, fs, fr, **want.kwargs(False))
    except Exception as e2:
        return exc_kind(e2) == kind
    return False


def run_impl(c):
    import warnings
    warnings.filterwarnings('ignore')
    if c.get('reduce'):
        return _run_reduce(c)
    if 'gops' in c:
        return _run_group(c)
    from bycycle import Bycycle
    from bycycle.features import compute_features
    from bycycle.burst import recompute_edges
    args = c['args']
    try:
        bm = Bycycle(**_ctor_kwargs(args))
    except Exception as e:
        return {'err': exc_kind(e), 'msg': 'constructor: ' + str(e)[:120], 'problems': []}
    want = _Want(args)
    problems = []
    prev_df = None
    op = None
    sens = [0, 0, 0]                 # recomputations, with a feature exactly on a lowered threshold, label-sensitive to 1e-10
    try:
        for op in c['ops']:
            if op[0] == 'fit':
                sig, fs, fr = _sig(c['sigseed'], op[1])
                try:
                    bm.fit(sig, fs, fr)
                except Exception as e:
                    if _reference_fails_too(sig, fs, fr, want, exc_kind(e)):
                        return {'skip': 'fit and compute_features both raise %s on this signal' % exc_kind(e)}
                    raise
                ref = compute_features(sig, fs, fr, **want.kwargs(False))
                if not _same(bm.df_features, ref):
                    problems.append('fit: df_features differs from compute_features with the current settings')
                fresh = Bycycle(**want.kwargs(True))
                fresh.fit(sig, fs, fr)
                if not _same(bm.df_features, fresh.df_features):
                    problems.append('fit: df_features differs from a freshly constructed object with the current settings')
                prev_df = bm.df_features
            elif op[0] == 'recompute':
                before = bm.df_features.copy()
                r = op[1] / 1000.0
                bm.recompute_edges({'none': None, 'zero': 0, 'val': r}[op[2]])
                red = want.reduced(r)
                ref = recompute_edges(before, dict(red))
                if not _same(bm.df_features, ref):
                    problems.append('recompute_edges(%r): differs from the functional recomputation with thresholds %r' % (
                        {'none': None, 'zero': 0, 'val': r}[op[2]], red))
                on, flips = _sensitivity(before, red)
                sens = [sens[0] + 1, sens[1] + on, sens[2] + flips]
            elif op[0] == 'edit_thr':
                v = op[2] / 1000.0 if op[1] != 'min_n_cycles' else op[2]
                bm.thresholds[op[1]] = v
                want.thr_full()[op[1]] = v
                want.user_thr[op[1]] = v
            elif op[0] == 'edit_bk':
                v = AMP_THRESHES[op[2]] if op[1] == 'amp_threshes' else op[2]
                bm.burst_kwargs[op[1]] = v
                if want.bk is None:
                    want.bk = {}
                want.bk[op[1]] = v
                want.user_bk[op[1]] = v
            elif op[0] == 'center':
                want.center = op[1]
                want.given['center'] = True
                bm.center_extrema = 'peak' if op[1] else 'trough'
            elif op[0] == 'set_thr':
                bm.thresholds = _thr_py(op[1])
                want.thr = _thr_py(op[1])
                want.user_thr = dict(want.thr)
            elif op[0] == 'set_method':
                bm.burst_method = 'amp' if op[1] else 'cycles'
                bm.thresholds = _thr_py(op[2])
                bm.burst_kwargs = _bk_py(op[3])
                want.amp = op[1]
                want.given['amp'] = True
                want.thr = _thr_py(op[2])
                want.user_thr = dict(want.thr)
                want.bk = dict(_bk_py(op[3]))
                want.user_bk = dict(want.bk)
            elif op[0] == 'set_bk':
                bm.burst_kwargs = _bk_py(op[1])
                want.bk = dict(_bk_py(op[1]))
                want.user_bk = dict(want.bk)
            elif op[0] == 'set_fek':
                bm.find_extrema_kwargs = copy.deepcopy(FEKS[op[1]]) if FEKS[op[1]] is not None else copy.deepcopy(FEK_DEFAULT)
                want.fek = op[1]
            elif op[0] == 'set_rs':
                bm.return_samples = op[1]
                want.rs = op[1]
                want.given['rs'] = True
            elif op[0] == 'load':
                sig, fs, fr = _sig(c['sigseed'], op[1])
                tbl = prev_df if prev_df is not None else bm.df_features
                snapshot = tbl.copy()
                bm.load(tbl, sig, fs, fr)
                if not _same(bm.df_features, snapshot):
                    problems.append('load: df_features is not the loaded table')
                if not np.array_equal(bm.sig, sig):
                    problems.append('load: sig is not the loaded signal')
            elif op[0] == 'load_syn':
                sig, fs, fr = _sig(c['sigseed'], op[1])
                tbl = _syn_table(op[2], op[3], op[4], want.center)
                snapshot = tbl.copy()
                bm.load(tbl, sig, fs, fr)
                if not _same(bm.df_features, snapshot):
                    problems.append('load: df_features is not the loaded table')
                if not np.array_equal(bm.sig, sig):
                    problems.append('load: sig is not the loaded signal')
            if op[0] in ('fit', 'recompute', 'load', 'load_syn'):
                p = _attr_problem(bm)
                if p:
                    problems.append('after %s: %s' % (op[0], p))
    except Exception as e:
        return {'err': exc_kind(e), 'msg': '%s: %s' % (op, str(e)[:140]), 'problems': problems[:3]}
    out = _obs(bm)
    out['problems'] = problems[:3]
    out['user_thr'] = _enc_thr(want.user_thr)
    out['user_bk'] = _enc_bk(want.user_bk)
    out['sens'] = sens
    return out


def _run_reduce(c):
    """reduce_thresholds(r) of a fresh object, for every r of the case; model comparison only (bit by bit)."""
    from bycycle import Bycycle, BycycleGroup
    kw = {'burst_method': 'amp'} if c['amp'] else {}
    if c['thr'] is not None:
        kw['thresholds'] = dict(c['thr'])
    try:
        bm = (BycycleGroup if c['group'] else Bycycle)(**kw)
        res = []
        for r in c['rs']:
            d = bm.reduce_thresholds(r)
            res.append({str(k): (float(v) if isinstance(v, (int, float, np.integer, np.floating)) else float('nan')) for k, v in d.items()})
    except Exception as e:
        return {'reduce_err': exc_kind(e), 'msg': str(e)[:140]}
    return {'reduced': res}


def _flat(x, three_d):
    return [y for row in x for y in row] if three_d else list(x)


def _mirror_problem(bg, arr, three_d):
    try:
        models, dfs, sigs = _flat(bg.models, three_d), _flat(bg.df_features, three_d), _flat(bg.sigs, three_d)
    except Exception as e:
        return 'models / df_features / sigs are not position-wise containers (%s)' % type(e).__name__
    if not (len(models) == len(dfs) == len(sigs)):
        return 'models (%d), df_features (%d) and sigs (%d) differ in size' % (len(models), len(dfs), len(sigs))
    if three_d and not (len(bg.models) == len(bg.df_features) and all(len(a) == len(b) for a, b in zip(bg.models, bg.df_features))):
        return 'models and df_features differ in shape'
    for p, (m, d, s) in enumerate(zip(models, dfs, sigs)):
        if not _same(m.df_features, d):
            return 'models[%d].df_features differs from df_features[%d]' % (p, p)
        if not np.array_equal(np.asarray(m.sig), np.asarray(s)):
            return 'models[%d].sig differs from sigs[%d]' % (p, p)
    return None


AXES = {'rows': 0, 'flat': None, 'g3': (0, 1), 'g3ax0': 0, 'g3ax1': 1}


def _run_group(c):
    from bycycle import BycycleGroup
    from bycycle.burst import recompute_edges
    args = c['args']
    try:
        bg = BycycleGroup(**_ctor_kwargs(args))
    except Exception as e:
        return {'err': exc_kind(e), 'msg': 'constructor: ' + str(e)[:120], 'problems': []}
    want = _Want(args)
    problems = []
    arr, three_d, arr_id = None, False, -1
    op = None
    sens = [0, 0, 0]
    try:
        for op in c['gops']:
            if op[0] == 'gfit':
                arr, fs, fr = _arr(c['sigseed'], op[1], op[3], op[4])
                arr_id, three_d = op[1], op[4] is not None
                try:
                    bg.fit(arr, fs, fr, axis=AXES[op[2]], n_jobs=1)
                except Exception as e:
                    flat = arr.reshape(-1, arr.shape[-1])
                    if any(_reference_fails_too(row, fs, fr, want, exc_kind(e)) for row in list(flat) + [flat.flatten()]):
                        return {'skip': 'group fit and compute_features both raise %s on this array' % exc_kind(e)}
                    raise
                fresh = BycycleGroup(**want.kwargs(True))
                fresh.fit(arr, fs, fr, axis=AXES[op[2]], n_jobs=1)
                a, b = _flat(bg.df_features, three_d), _flat(fresh.df_features, three_d)
                if len(a) != len(b) or not all(_same(x, y) for x, y in zip(a, b)):
                    problems.append('group fit: df_features differ from a freshly constructed group with the current settings')
            elif op[0] == 'grecompute':
                before = [d.copy() for d in _flat(bg.df_features, three_d)]
                r = op[1] / 1000.0
                rarg = {'none': None, 'zero': 0, 'val': r}[op[2]]
                stale = len(op) > 3 and op[3] == 'stale'
                red = want.reduced(r)
                # the functional recomputation of the table at EVERY position (row-major), with the current thresholds - r
                refs, ref_err = [], None
                if not stale:
                    for y in before:
                        try:
                            refs.append(recompute_edges(y, dict(red)))
                        except Exception as e2:
                            ref_err = exc_kind(e2)
                            break
                try:
                    bg.recompute_edges(rarg)
                except Exception as e:
                    if ref_err is not None and exc_kind(e) == ref_err:
                        return {'skip': 'group recompute_edges and the functional recomputation both raise %s on a table of this fit' % ref_err}
                    raise
                after = _flat(bg.df_features, three_d)
                if stale:
                    pass        # thresholds re-assigned since the fit: which thresholds apply is not stated; mirror clause only
                elif ref_err is not None:
                    problems.append('group recompute_edges(%r) returned, but the functional recomputation of a table raises %s' % (rarg, ref_err))
                elif len(after) != len(before):
                    problems.append('group recompute_edges(%r): %d tables afterwards, %d before' % (rarg, len(after), len(before)))
                else:
                    models = _flat(bg.models, three_d)
                    for p_, (x, ref) in enumerate(zip(after, refs)):
                        where = '[%d][%d]' % divmod(p_, arr.shape[1]) if three_d else '[%d]' % p_
                        if not _same(x, ref):
                            problems.append('group recompute_edges(%r): df_features%s (array of leading shape %s) differs from the functional '
                                            'recomputation of that table with thresholds %r' % (rarg, where, list(arr.shape[:-1]), red))
                            break
                        if p_ < len(models) and not _same(models[p_].df_features, ref):
                            problems.append('group recompute_edges(%r): models%s.df_features (array of leading shape %s) differs from the '
                                            'functional recomputation of that table with thresholds %r' % (rarg, where, list(arr.shape[:-1]), red))
                            break
                    for y in before:
                        on, flips = _sensitivity(y, red)
                        sens = [sens[0] + 1, sens[1] + on, sens[2] + flips]
            elif op[0] == 'gedit_thr':
                v = op[2] / 1000.0 if op[1] != 'min_n_cycles' else op[2]
                bg.thresholds[op[1]] = v
                want.thr_full()[op[1]] = v
                want.user_thr[op[1]] = v
            elif op[0] == 'gedit_bk':
                v = AMP_THRESHES[op[2]] if op[1] == 'amp_threshes' else op[2]
                bg.burst_kwargs[op[1]] = v
                if want.bk is None:
                    want.bk = {}
                want.bk[op[1]] = v
                want.user_bk[op[1]] = v
            # attribute assignments on the group: the next fit must run with these values
            elif op[0] == 'gset_center':
                want.center = op[1]
                want.given['center'] = True
                bg.center_extrema = 'peak' if op[1] else 'trough'
            elif op[0] == 'gset_thr':
                bg.thresholds = _shuffled(_random.Random(c['sigseed'] + len(op[1])), _thr_py(op[1]))
                want.thr = _thr_py(op[1])
                want.user_thr = dict(want.thr)
            elif op[0] == 'gset_bk':
                bg.burst_kwargs = _bk_py(op[1])
                want.bk = dict(_bk_py(op[1]))
                want.user_bk = dict(want.bk)
            elif op[0] == 'gset_method':
                bg.burst_method = 'amp' if op[1] else 'cycles'
                bg.thresholds = _thr_py(op[2])
                bg.burst_kwargs = _bk_py(op[3])
                want.amp = op[1]
                want.given['amp'] = True
                want.thr = _thr_py(op[2])
                want.user_thr = dict(want.thr)
                want.bk = dict(_bk_py(op[3]))
                want.user_bk = dict(want.bk)
            elif op[0] == 'gset_fek':
                bg.find_extrema_kwargs = copy.deepcopy(FEKS[op[1]]) if FEKS[op[1]] is not None else copy.deepcopy(FEK_DEFAULT)
                want.fek = op[1]
            elif op[0] == 'gset_rs':
                bg.return_samples = op[1]
                want.rs = op[1]
                want.given['rs'] = True
            if arr is not None:
                p = _mirror_problem(bg, arr, three_d)
                if p:
                    problems.append('after %s: %s' % (op[0], p))
    except Exception as e:
        return {'err': exc_kind(e), 'msg': '%s: %s' % (op, str(e)[:140]), 'problems': problems[:3]}
    out = _obs(bg)
    out['problems'] = problems[:3]
    out['user_thr'] = _enc_thr(want.user_thr)
    out['user_bk'] = _enc_bk(want.user_bk)
    # model comparison only: which signal every model holds, whether it holds the group's table OBJECT, and the group's settings
    sig_ids, same_obj, current = [], [], []
    if arr is not None:
        try:
            models, dfs = _flat(bg.models, three_d), _flat(bg.df_features, three_d)
        except TypeError:                  # containers that are not position-wise (already an oracle failure above)
            models, dfs = [], []
        flat = arr.reshape(-1, arr.shape[-1])
        for p, m in enumerate(models):
            if not hasattr(m, 'sig') or not hasattr(m, 'thresholds'):
                sig_ids.append(-1), same_obj.append(False), current.append(False)
                continue
            hit = [q for q in range(len(flat)) if np.array_equal(np.asarray(m.sig), flat[q])]
            sig_ids.append(arr_id * 4096 + (p if p in hit else hit[0]) if hit else -1)
            same_obj.append(p < len(dfs) and m.df_features is dfs[p])
            current.append(_obs(m) == _obs(bg))
    out['sig_ids'], out['same_obj'], out['current'] = sig_ids, same_obj, current
    out['sens'] = sens
    return out


# ---------------------------------------------------------------------------------------------------

def oracle(c, o):
    if 'skip' in o or c.get('reduce'):
        return None             # reduce_thresholds alone: model comparison only (the property speaks of recompute_edges)
    if o.get('problems'):
        return o['problems'][0]
    if 'err' in o:
        return 'history raised %s (%s)' % (o['err'], o.get('msg'))
    # the stored dictionaries carry what the user set (keys the user never touched are the model comparison's business)
    for k, v in o['user_thr'].items():
        if o['thr'].get(k) != v:
            return 'stored thresholds %s lost the user\'s setting %s = %s' % (o['thr'], k, v)
    for k, v in o['user_bk'].items():
        if o['bk'].get(k) != v:
            return 'stored burst options %s lost the user\'s setting %s = %s' % (o['bk'], k, v)
    return None


def nontrivial(c, o):
    if c.get('reduce'):
        return 'reduced' in o and any(r for r in c['rs'])
    if 'thr' not in o:
        return False
    if 'gops' in c:
        fits = [op for op in c['gops'] if op[0] == 'gfit']
        return len(fits) >= 2 or any(op[0] == 'grecompute' for op in c['gops'])
    fits = [i for i, op in enumerate(c['ops']) if op[0] == 'fit']
    return len(fits) >= 2 and any(op[0].startswith(('edit', 'set', 'center')) for op in c['ops'][fits[0]:fits[-1]])


def kind_of(c, o):
    k = c['kind']
    if c.get('reduce'):
        return k + ('/default-thr' if c['thr'] is None else '') + ('/err' if 'reduce_err' in o else '')
    if 'thr' not in c['args']:
        k += '/default-thr'
    if 'gops' in c:
        # evidence: attribute assignments between fits; edge recomputation on 3-D groups whose leading dimensions differ
        fits = [i for i, op in enumerate(c['gops']) if op[0] == 'gfit']
        if len(fits) >= 2 and any(op[0].startswith('gset') for op in c['gops'][fits[0]:fits[-1]]):
            k += '/assign-between-fits'
        last, rc3 = None, set()
        for op in c['gops']:
            if op[0] == 'gfit':
                last = op
            elif op[0] == 'grecompute' and last is not None and last[4] is not None:
                rc3.add('lt' if last[3] < last[4] else 'gt' if last[3] > last[4] else 'eq')
        if rc3:
            k += '/rc3d-n0-' + '+'.join(sorted(rc3)) + '-n1'
    sens = o.get('sens') or [0, 0, 0]
    if sens[2]:
        k += '/labels-depend-on-last-bits-of-lowered-threshold'
    elif sens[1]:
        k += '/feature-on-lowered-threshold'
    return k + ('/skip' if 'skip' in o else '/err' if 'err' in o else '')


def _dict(d):
    return coqio.lst(['("%s", %s%%Z)' % (k, coqio.Z(v)) for k, v in d.items()]) if d else 'nil'


def _opt(x, f):
    return 'None' if x is None else '(Some %s)' % f(x)


def _cargs(a):
    return ('{| ca_center := %s; ca_amp := %s; ca_bk := %s; ca_thr := %s; ca_fek := %s; ca_rs := %s |}' % (
        _opt(a.get('center'), coqio.B), _opt(a.get('amp'), coqio.B), _opt(a.get('bk'), _dict), _opt(a.get('thr'), _dict),
        _opt(a.get('fek'), lambda f: '%d%%Z' % f), _opt(a.get('rs'), coqio.B)))


def _coq_obs(o):
    return '(%s, %s, %s, %s, %d%%Z, %s)' % (_dict(o['thr']), _dict(o['bk']), coqio.B(o['center']), coqio.B(o['amp']), o['fek'],
                                           coqio.B(o['rs']))


_ERR = {'Type': 'EType', 'Value': 'EValue', 'Key': 'EKey', 'Index': 'EIndex'}
_SHAPE = {'rows': 'G2Rows %d', 'flat': 'G2Flat %d', 'g3': 'G3 %d %d', 'g3ax0': 'G3Ax0 %d %d', 'g3ax1': 'G3Ax1 %d %d'}


def _fdict(d):
    return coqio.lst(['("%s", %s%%float)' % (k, coqio.fl(v)) for k, v in d.items()]) if d else 'nil'


def coq_case(c, o):
    if 'skip' in o:
        return None
    if c.get('reduce'):
        thr = None if c['thr'] is None else {k: float(v) for k, v in _expand(c['thr']).items()}
        inp = '(%s, %s, %s)' % (coqio.B(c['amp']), _opt(thr, _fdict),
                                coqio.lst([_opt(r, lambda x: '%s%%float' % coqio.fl(x)) for r in c['rs']]))
        if 'reduce_err' in o:
            return inp, '(Err %s)' % _ERR.get(o['reduce_err'], 'EOther')
        return inp, '(Ok %s)' % coqio.lst([_fdict(d) for d in o['reduced']])
    ops = []
    if 'gops' in c:
        for op in c['gops']:
            if op[0] == 'gfit':
                sh = _SHAPE[op[2]] % ((op[3],) if op[4] is None else (op[3], op[4]))
                ops.append('GFit %d (%s)' % (op[1], sh))
            elif op[0] == 'grecompute':
                ops.append('GRecompute %d' % op[1])
            elif op[0] == 'gedit_thr':
                ops.append('GEditThr "%s" %d' % (op[1], op[2]))
            elif op[0] == 'gedit_bk':
                ops.append('GEditBk "%s" %d' % (op[1], op[2]))
            elif op[0] == 'gset_center':
                ops.append('GSetCenter %s' % coqio.B(op[1]))
            elif op[0] == 'gset_thr':
                ops.append('GSetThr %s' % _dict(op[1]))
            elif op[0] == 'gset_bk':
                ops.append('GSetBk %s' % _dict(op[1]))
            elif op[0] == 'gset_method':
                ops.extend(['GSetMethod %s' % coqio.B(op[1]), 'GSetThr %s' % _dict(op[2]), 'GSetBk %s' % _dict(op[3])])
            elif op[0] == 'gset_fek':
                ops.append('GSetFek %d' % op[1])
            elif op[0] == 'gset_rs':
                ops.append('GSetRs %s' % coqio.B(op[1]))
        inp = '(%s, %s)' % (_cargs(c['args']), coqio.lst(ops) if ops else 'nil')
        if 'err' in o:
            return inp, '(Err %s)' % _ERR.get(o['err'], 'EOther')
        zl = lambda xs: coqio.lst(['%s%%Z' % coqio.Z(x) for x in xs]) if xs else 'nil'
        bl = lambda xs: coqio.lst([coqio.B(x) for x in xs]) if xs else 'nil'
        return inp, '(Ok (%s, %s, %s, %s))' % (_coq_obs(o), zl(o['sig_ids']), bl(o['same_obj']), bl(o['current']))
    for op in c['ops']:
        if op[0] == 'fit':
            ops.append('OFit %d' % op[1])
        elif op[0] == 'recompute':
            ops.append('ORecompute %d' % op[1])
        elif op[0] == 'load':
            ops.append('OLoad 0 %d' % op[1])
        elif op[0] == 'load_syn':
            ops.append('OLoad 1 %d' % op[1])
        elif op[0] == 'edit_thr':
            ops.append('OEditThr "%s" %d' % (op[1], op[2]))
        elif op[0] == 'edit_bk':
            ops.append('OEditBk "%s" %d' % (op[1], op[2]))
        elif op[0] == 'center':
            ops.append('OSetCenter %s' % coqio.B(op[1]))
        elif op[0] == 'set_thr':
            ops.append('OSetThr %s' % _dict(op[1]))
        elif op[0] == 'set_method':
            ops.extend(['OSetMethod %s' % coqio.B(op[1]), 'OSetThr %s' % _dict(op[2]), 'OSetBk %s' % _dict(op[3])])
        elif op[0] == 'set_bk':
            ops.append('OSetBk %s' % _dict(op[1]))
        elif op[0] == 'set_fek':
            ops.append('OSetFek %d' % op[1])
        elif op[0] == 'set_rs':
            ops.append('OSetRs %s' % coqio.B(op[1]))
    inp = '(%s, %s)' % (_cargs(c['args']), coqio.lst(ops))
    if 'err' in o:
        return inp, '(Err %s)' % _ERR.get(o['err'], 'EOther')
    return inp, '(Ok %s)' % _coq_obs(o)
