"""C04 — shape features equal their documented definitions (pipeline model; oracle against the ORIGINAL signal)."""
from harness import pipeline
from harness.pipeline import COQ_HEADER, COQ_RUNNER, COQ_TYPES, SHARD, coq_case, kind_of, extra_evidence, TRUST

PROP = 'C04'
PROPS_FILE = 'Props/C04.v'
RULE = ('(a) compute_features on generated signals (as C01: off-band / narrow / wide bands, non-integer fs, list / tuple '
        'f_range, int64 / float32 samples), both centrings, 40 % of the cases also with return_samples=False: the 13 shape '
        'columns of both tables checked against the documented formulas evaluated on the original, un-negated signal and on '
        'the cyclepoints of the return_samples=True run; no sample_* column without samples. (b) compute_shape_features '
        'called directly with n_cycles in {2, 3, 5} (default extrema filter when find_extrema_kwargs is None, length of the '
        'band-amplitude filter; reference kernels with the same k), plus compute_symmetry(df_samples, sig) without the '
        'optional durations and rename_extrema_df(..., return_samples=False) compared with the table at harness level. '
        'All shape columns compared with the Coq model (bit-exact model, 1e-9 comparison; float32 cases oracle only at 1e-6; '
        'shape-only tables through the same runner with an all-False detector mask). '
        'Independently of everything else ~30 % of the cases make the judged analysis on an ndarray object that was '
        'first filled with another signal of the same length and analysed once with the same option objects, then '
        'refilled in place (`prebuffer`); ~20 % pass every array of the case read-only (WRITEABLE flag cleared); ~20 % '
        "make 1-2 rejected calls (mis-spelt key put into the caller's own find_extrema_kwargs / threshold_kwargs and "
        "taken out again, invalid f_range, centre or burst method) on the case's own array and option objects directly "
        'before the judged analysis; (the direct compute_shape_features stream: refilled buffer and read-only input '
        'only); all oracles and the model comparison apply to the judged analysis unchanged (counters in the evidence). '
        '~15 % of the cases (kind +len, drawn from a generator seeded with the case content; all other cases are '
        'unchanged) have fs, the band (f_lo, 2 f_lo, rhythm inside) and one length option re-chosen from a table '
        'derived by search, so that a length the analysis converts to samples with a ceil -- fs * n_cycles / '
        'f_lo or fs * n_seconds of the extrema filter, of the band_amp envelope (3 cycles; n_cycles of a direct '
        "compute_shape_features call) or of the detector's filter, min_n_cycles * fs / f_lo or "
        'min_burst_duration * fs of the detector -- is exactly an odd / even integer or one ulp beside one, in '
        '80 % where the mathematically equivalent binary64 computations of it disagree after the ceil; half of '
        "these cases with broadband noise added to the samples (+rough); reference kernels get the caller's "
        'arguments as they are.  '
        'non-trivial = table with >= 3 rows')
ASSUMPTIONS = ['signals finite', 'band_amp compared with tolerance (numpy pairwise summation)',
               'float32 samples: voltage differences are correctly rounded single-precision results, compared at 1e-6']


def cases(rng, tier):
    n = 140 if tier == 'quick' else 1400
    m = 40 if tier == 'quick' else 400
    out = [pipeline.gen_case(rng, tier, methods=('cycles', 'cycles', 'amp'), fek_prob=0.5, wide=True, f32=True, rs_prob=0.6)
           for _ in range(n)]
    out += [pipeline.gen_shape_case(rng, tier) for _ in range(m)]
    out += [long_recording(rng, tier) for _ in range(3 if tier == 'quick' else 12)]
    return out


def long_recording(rng, tier):
    """Long recordings with a huge dynamic range: 12 000 - 20 000 samples of a noisy rhythm in which an early stretch (an
    unclipped artefact, a segment in the wrong unit) is 1e6 - 1e12 times larger than the rest.  An error of a feature that
    grows with the length of the recording or with what precedes the cycle (running sums, global normalisation) shows
    only here.  Judged by the statement oracle alone (`long`: the Coq evaluation of 20 000 samples would take minutes)."""
    import numpy as np
    n = rng.choice([12000, 16000, 20000])
    fs = rng.choice([500, 1000])
    period = rng.choice([40, 50, 64])
    nr = np.random.default_rng(rng.randrange(2 ** 31))
    sig = np.sin(2 * np.pi * np.arange(n) / period + rng.random() * 6.28) + 0.1 * nr.standard_normal(n)
    a0 = rng.randrange(100, n // 8)
    a1 = a0 + rng.randrange(n // 12, n // 6)
    sig[a0:a1] *= rng.choice([1e6, 1e9, 1e12])
    f0 = fs / period
    s = {'sig': sig, 'fs': fs, 'f_range': (round(0.8 * f0, 3), round(1.25 * f0, 3)), 'kind': 'long-artefact', 'period': period}
    c = pipeline.gen_case(rng, tier, methods=('cycles',), fek_prob=0.2, signal=s, exact_k=None, other=False, short=False, rs_prob=0.7)
    c['long'] = True
    return c


def run_impl(c):
    return pipeline.run_shape(c) if c.get('shape_only') else pipeline.run_pipe(c)


def oracle(c, o):
    return pipeline.with_context(c, pipeline.oracle_shape(c, o))


def nontrivial(c, o):
    return pipeline.nontrivial_table(c, o)
