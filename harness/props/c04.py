"""C04 — shape features equal their documented definitions (pipeline model; oracle against the ORIGINAL signal)."""
from harness import pipeline
from harness.pipeline import COQ_HEADER, COQ_RUNNER, COQ_TYPES, SHARD, coq_case, kind_of, TRUST

PROP = 'C04'
PROPS_FILE = 'Props/C04.v'
RULE = ('compute_features / compute_shape_features on generated signals, both centrings, with and without sample columns; '
        'all 13 shape columns compared with the Coq model (bit-exact model, 1e-9 comparison) and with the documented '
        'formulas evaluated on the original, un-negated signal; non-trivial = table with >= 3 rows')
ASSUMPTIONS = ['signals finite', 'band_amp compared with tolerance (numpy pairwise summation)']


def cases(rng, tier):
    n = 140 if tier == 'quick' else 1400
    return [pipeline.gen_case(rng, tier, methods=('cycles', 'cycles', 'amp'), fek_prob=0.5) for _ in range(n)]


run_impl = pipeline.run_pipe


def oracle(c, o):
    return pipeline.oracle_shape(c, o)


def nontrivial(c, o):
    return pipeline.nontrivial_table(c, o)
