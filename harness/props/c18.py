"""C18 — limit_df, limit_signal, split/drop_samples_df, flatten_dfs are lossless selections.  Model/Window.v."""
import math
import numpy as np
from harness import coqio, pipeline
from harness.core import exc_kind

PROP = 'C18'
PROPS_FILE = 'Props/C18.v'
_HDR = ('From Coq Require Import List ZArith NArith Floats.PrimFloat. Import ListNotations.\n'
        'From ByC Require Import Base.Result Harness.Compare Model.Window.\nOpen Scope float_scope.')
COQ_STREAMS = {
    'limit_df': (_HDR, 'bad_limit_df', ('limit_in', 'result (list ((Z * Z * Z * Z * Z * Z) * N))'), 300),
    'limit_signal': (_HDR, 'bad_limit_signal', ('list float * option float * option float', 'result (list N)'), 100),
    'flatten': (_HDR, 'bad_flatten', ('list (list N) * list N * bool * nat', 'result (list (N * N))'), 300),
}
RULE = ('limit_df on synthetic tiled cycle tables of both centrings, fs in {1, 100, 250, 512}, start/stop in {None, exactly on a '
        'cycle boundary, between boundaries, before/after everything, reversed}, reset_indices both; limit_signal on sample '
        'grids with limits None / on-grid / off-grid; split_samples_df / drop_samples_df on tables with mixed columns; '
        'flatten_dfs on 1-D and 2-D lists of tables (incl. empty tables) with matching and mismatching label counts. '
        'non-trivial = a window that keeps some but not all rows / samples, or >= 2 tables flattened')
ASSUMPTIONS = ['each row is a cycle (last side <= centre <= next side); rows are tiled and chronological in most cases, stacked or shuffled in the rest']


def stream_of(c):
    return {'limit_df': 'limit_df', 'limit_signal': 'limit_signal', 'flatten': 'flatten'}.get(c['kind'], 'none')


def _table(rng):
    n = rng.randint(0, 9)
    rows, la = [], rng.randint(2, 30)
    lz = max(0, la - rng.randint(1, 3))
    for i in range(n):
        per = rng.randint(4, 40)
        nx = la + per
        ce = la + rng.randint(1, per - 1)
        zr = rng.randint(la, ce)
        zd = rng.randint(ce, nx)
        rows.append([ce, la, nx, zr, zd, lz])
        la, lz = nx, zd
    return rows


def cases(rng, tier):
    out = []
    n = 1500 if tier == 'quick' else 15000
    for _ in range(n):
        rows = _table(rng)
        order = rng.choice(['sorted', 'sorted', 'sorted', 'stacked', 'shuffled'])
        if order == 'stacked':          # e.g. two recordings stacked by flatten_dfs and then windowed
            rows = rows + _table(rng)
        elif order == 'shuffled':       # e.g. a table re-sorted by a feature
            rng.shuffle(rows)
        fs = rng.choice([1.0, 100.0, 250.0, 512.0, 30.0])
        bounds = sorted(set([r[1] for r in rows] + [r[2] for r in rows])) or [10]

        def lim():
            r = rng.random()
            if r < 0.25:
                return None
            if r < 0.6:
                return rng.choice(bounds) / fs
            if r < 0.8:
                return (rng.choice(bounds) + rng.choice([-0.5, 0.5, 0.25])) / fs
            return rng.choice([0.0, (bounds[-1] + 50) / fs, bounds[0] / fs / 2])
        a, b = lim(), lim()
        if a is not None and b is not None and a > b and rng.random() < 0.7:
            a, b = b, a
        out.append({'kind': 'limit_df', 'center': rng.choice(['peak', 'trough']), 'rows': rows, 'fs': fs, 'start': a, 'stop': b,
                    'reset': rng.random() < 0.6, 'index': rng.choice(['default', 'default', 'offset', 'reversed'])})
    m = 400 if tier == 'quick' else 4000
    for _ in range(m):
        fs = rng.choice([1.0, 100.0, 250.0, 512.0, 1000.0, 30.0])
        nn = rng.randint(1, 60)

        def lim():
            r = rng.random()
            if r < 0.25:
                return None
            k = rng.randint(0, nn + 2)
            return (k / fs) if r < 0.7 else ((k + rng.choice([0.5, -0.25])) / fs)
        a, b = lim(), lim()
        if a is not None and b is not None and a > b and rng.random() < 0.8:
            a, b = b, a
        if a is not None and a < 0:
            a = 0.0
        out.append({'kind': 'limit_signal', 'fs': fs, 'n': nn, 'start': a, 'stop': b})
    k = 400 if tier == 'quick' else 4000
    for _ in range(k):
        two_d = rng.random() < 0.5
        n0, n1 = rng.randint(1, 3), (rng.randint(1, 3) if two_d else 1)
        sizes = [rng.randint(0, 3) for _ in range(n0 * n1)]
        if sizes[0] == 0 and rng.random() < 0.7:
            sizes[0] = 1
        nlab = n0 * n1 if rng.random() < 0.85 else n0 * n1 + rng.choice([-1, 1])
        out.append({'kind': 'flatten', 'two_d': two_d, 'n0': n0, 'n1': n1, 'sizes': sizes,
                    'labels': [rng.randint(0, 50) for _ in range(max(0, nlab))]})
    for _ in range(100 if tier == 'quick' else 1000):
        ncol = rng.randint(1, 8)
        out.append({'kind': 'split', 'cols': [rng.random() < 0.5 for _ in range(ncol)], 'nrow': rng.randint(0, 4)})
    return out


def _df(c):
    import pandas as pd
    sc = pipeline.sample_cols(c['center'])
    rows = c['rows']
    d = {col: np.array([r[i] for r in rows], dtype=int) for i, col in enumerate(sc)}
    n = len(rows)
    d['period'] = np.array([r[2] - r[1] for r in rows], dtype=int)
    d['volt_amp'] = np.arange(n, dtype=float) * 0.25 + 1
    d['is_burst'] = np.array([i % 2 == 0 for i in range(n)], dtype=bool)
    d['rowid'] = np.arange(n, dtype=int)
    df = pd.DataFrame(d)
    if c.get('index') == 'offset':
        df.index = np.arange(n) + 11
    elif c.get('index') == 'reversed':
        df.index = np.arange(n)[::-1]
    return df


def run_impl(c):
    import pandas as pd
    k = c['kind']
    if k == 'limit_df':
        from bycycle.utils.dataframes import limit_df
        df = _df(c)
        before = df.copy()
        try:
            r = limit_df(df, c['fs'], start=c['start'], stop=c['stop'], reset_indices=c['reset'])
        except Exception as e:
            return {'err': exc_kind(e), 'msg': str(e)[:160]}
        sc = pipeline.sample_cols(c['center'])
        rows = [{'s': [int(r[col].iloc[i]) for col in sc], 'id': int(r['rowid'].iloc[i])} for i in range(len(r))]
        feats_ok = all(r['volt_amp'].iloc[i] == before['volt_amp'].iloc[int(r['rowid'].iloc[i])] and
                       r['period'].iloc[i] == before['period'].iloc[int(r['rowid'].iloc[i])] and
                       bool(r['is_burst'].iloc[i]) == bool(before['is_burst'].iloc[int(r['rowid'].iloc[i])]) for i in range(len(r)))
        return {'rows': rows, 'features_unchanged': bool(feats_ok), 'input_unchanged': bool(before.equals(df)),
                'columns_same': sorted(r.columns) == sorted(before.columns)}
    if k == 'limit_signal':
        from bycycle.utils.timeseries import limit_signal
        n, fs = c['n'], c['fs']
        times = np.arange(0, n / fs, 1 / fs)
        sig = np.arange(len(times), dtype=float)
        try:
            s, t = limit_signal(times, sig, start=c['start'], stop=c['stop'])
        except Exception as e:
            return {'err': exc_kind(e), 'msg': str(e)[:160], 'times': [float(x).hex() for x in times]}
        return {'kept': [int(x) for x in s], 'times_ok': bool(np.array_equal(t, times[[int(x) for x in s]])) if len(s) else len(t) == 0,
                'times': [float(x).hex() for x in times]}
    if k == 'flatten':
        from bycycle.utils.dataframes import flatten_dfs
        tabs = [pd.DataFrame({'rowid': np.arange(sz, dtype=int) + 100 * i, 'v': np.arange(sz, dtype=float)}) for i, sz in enumerate(c['sizes'])]
        if c['two_d']:
            dfs = [[tabs[i * c['n1'] + j] for j in range(c['n1'])] for i in range(c['n0'])]
            nl = len(c['labels'])
            labels = [c['labels'][i * c['n1']:(i + 1) * c['n1']] for i in range(c['n0'])] if nl == c['n0'] * c['n1'] else list(c['labels'])
        else:
            dfs, labels = tabs, list(c['labels'])
        try:
            r = flatten_dfs(dfs, labels)
        except Exception as e:
            return {'err': exc_kind(e), 'msg': str(e)[:160]}
        return {'pairs': [[int(r['rowid'].iloc[i]), int(r['Label'].iloc[i])] for i in range(len(r))],
                'v_ok': bool(all(float(r['v'].iloc[i]) == float(int(r['rowid'].iloc[i]) % 100) for i in range(len(r))))}
    if k == 'split':
        from bycycle.utils.dataframes import split_samples_df, drop_samples_df
        names = [('sample_c%d' % i if s else 'feat_c%d' % i) for i, s in enumerate(c['cols'])]
        df = pd.DataFrame({nm: np.arange(c['nrow'], dtype=float) + i for i, nm in enumerate(names)})
        out = {}
        try:
            d = drop_samples_df(df.copy())
            out['drop_cols'] = list(d.columns)
            out['drop_ok'] = bool(all(np.array_equal(d[col], df[col]) for col in d.columns))
        except Exception as e:
            out['drop_err'] = exc_kind(e)
        try:
            f, s = split_samples_df(df.copy())
            out['split_f'], out['split_s'] = list(f.columns), list(s.columns)
            out['split_ok'] = bool(all(np.array_equal(f[col], df[col]) for col in f.columns) and all(np.array_equal(s[col], df[col]) for col in s.columns))
        except Exception as e:
            out['split_err'] = exc_kind(e)
        out['names'] = names
        return out
    return {'harness_error': 'unknown'}


def _limits_valid(a, b):
    if a is not None and a < 0:
        return False
    if b is not None and b < 0:
        return False
    if a is not None and b is not None and a > b:
        return False
    return True


def oracle(c, o):
    k = c['kind']
    if k == 'limit_df':
        if not _limits_valid(c['start'], c['stop']):
            return None if o.get('err') == 'Value' else 'invalid limits not rejected with ValueError: %s' % o
        if 'err' in o:
            return 'raised %s (%s) for valid limits start=%s stop=%s on a %s-centred table' % (o['err'], o.get('msg'), c['start'], c['stop'], c['center'])
        a = 0 if c['start'] is None else c['start']
        fs = c['fs']
        want = []
        for i, r in enumerate(c['rows']):
            if r[1] >= a * fs and (c['stop'] is None or r[2] <= c['stop'] * fs):
                sh = int(round(fs * a)) if c['reset'] else 0
                want.append({'s': [v - sh for v in r], 'id': i})
        if o['rows'] != want:
            return 'selection/shift differs: got %s want %s' % (o['rows'][:4], want[:4])
        if not o['features_unchanged']:
            return 'feature values changed'
        if not o['input_unchanged']:
            return 'input table modified'
        return None
    if k == 'limit_signal':
        if not _limits_valid(c['start'], c['stop']):
            return None if o.get('err') == 'Value' else 'invalid limits not rejected with ValueError: %s' % {q: o[q] for q in o if q != 'times'}
        if 'err' in o:
            return 'raised %s (%s) for valid limits start=%s stop=%s' % (o['err'], o.get('msg'), c['start'], c['stop'])
        times = [float.fromhex(h) for h in o['times']]
        want = [i for i, t in enumerate(times) if (c['start'] is None or t >= c['start']) and (c['stop'] is None or t < c['stop'])]
        if o['kept'] != want or not o['times_ok']:
            return 'kept samples %s, expected %s' % (o['kept'][:6], want[:6])
        return None
    if k == 'flatten':
        n = c['n0'] * c['n1']
        if len(c['labels']) != n:
            return None if o.get('err') == 'Value' else 'label/table count mismatch not rejected with ValueError: %s' % o
        if 'err' in o:
            return 'raised %s (%s)' % (o['err'], o.get('msg'))
        want = [[100 * i + r, c['labels'][i]] for i in range(n) for r in range(c['sizes'][i])]
        if o['pairs'] != want:
            return 'flattened (row, label) pairs %s, expected %s' % (o['pairs'][:6], want[:6])
        if not o['v_ok']:
            return 'values altered by flattening'
        return None
    if k == 'split':
        if 'drop_err' in o:
            return 'drop_samples_df raised %s' % o['drop_err']
        feat = [nm for nm in o['names'] if not nm.startswith('sample_')]
        samp = [nm for nm in o['names'] if nm.startswith('sample_')]
        if o['drop_cols'] != feat or not o['drop_ok']:
            return 'drop_samples_df kept %s expected %s' % (o['drop_cols'], feat)
        if not samp:
            return None   # split with no sample column: pandas refuses to concat nothing; outside the property
        if 'split_err' in o:
            return 'split_samples_df raised %s' % o['split_err']
        if o['split_f'] != feat or o['split_s'] != samp or not o['split_ok']:
            return 'split_samples_df gave %s / %s' % (o['split_f'], o['split_s'])
        return None


def nontrivial(c, o):
    k = c['kind']
    if k == 'limit_df':
        return 'rows' in o and 0 < len(o['rows']) < len(c['rows'])
    if k == 'limit_signal':
        return 'kept' in o and 0 < len(o['kept']) < c['n']
    if k == 'flatten':
        return 'pairs' in o and c['n0'] * c['n1'] >= 2
    return True


def kind_of(c, o):
    return c['kind'] + ('/' + c['center'] if 'center' in c else '') + ('/err' if 'err' in o else '')


def _optf(x):
    return 'None' if x is None else '(Some %s)' % coqio.fl(x)


def coq_case(c, o):
    k = c['kind']
    res_err = '(Err %s)' % pipeline.ERRMAP.get(o.get('err'), 'EOther')
    if k == 'limit_df':
        rows = coqio.lst(['((%s), %d%%N)' % (', '.join(coqio.Z(v) + '%Z' for v in r), i) for i, r in enumerate(c['rows'])]) if c['rows'] else 'nil'
        inp = '(%s, %s, %s, %s, %s)' % (rows, coqio.fl(c['fs']), _optf(c['start']), _optf(c['stop']), coqio.B(c['reset']))
        if 'err' in o:
            return inp, res_err
        return inp, '(Ok %s)' % (coqio.lst(['((%s), %d%%N)' % (', '.join(coqio.Z(v) + '%Z' for v in r['s']), r['id']) for r in o['rows']]) if o['rows'] else 'nil')
    if k == 'limit_signal':
        ts = [float.fromhex(h) for h in o['times']]
        inp = '(%s, %s, %s)' % (coqio.flist(ts), _optf(c['start']), _optf(c['stop']))
        if 'err' in o:
            return inp, res_err
        return inp, '(Ok %s)' % (coqio.lst(['%d%%N' % i for i in o['kept']]) if o['kept'] else 'nil')
    if k == 'flatten':
        tabs = coqio.lst([coqio.lst(['%d%%N' % (100 * i + r) for r in range(sz)]) if sz else 'nil' for i, sz in enumerate(c['sizes'])])
        labs = coqio.lst(['%d%%N' % l for l in c['labels']]) if c['labels'] else 'nil'
        inp = '(%s, %s, %s, %d%%nat)' % (tabs, labs, coqio.B(c['two_d']), c['n1'])
        if 'err' in o:
            return inp, res_err
        return inp, '(Ok %s)' % (coqio.lst(['(%d%%N, %d%%N)' % (a, b) for a, b in o['pairs']]) if o['pairs'] else 'nil')
    return None
