"""C18 — limit_df, limit_signal, split/drop_samples_df, flatten_dfs are lossless selections.  Model/Window.v.

Statement oracle (only what the property text demands):
  limit_df      the returned rows are a selection of the input rows in table order; every cycle ENTIRELY inside
                [start, stop] is among them and no cycle ENTIRELY outside.  Where a cycle lies is decided by the TIME
                STAMPS of its first and last sample on the library's own time axis, t(k) = k / fs in binary64
                (arange(n) / fs): inside = t(last) >= start and t(next) <= stop; outside = t(next) < start or
                t(last) > stop; every other cycle (partial overlap) is not constrained (Props/C18.v:
                C18_keep_row_iff, C18_outside_not_kept; C18_inside_kept_real / C18_outside_not_kept_real give the
                real-number reading); every column of the input is still there
                and every non-sample value of a returned row is the value it had (NaN = NaN, dtype not compared); the
                six sample columns of all returned rows differ from the input by ONE offset: 0 without reset_indices;
                with it an integer next to fs*start, and exactly fs*start when that is a sample index.
  limit_signal  exactly the samples with start <= t < stop.
  split / drop  a column is a sample column iff its name STARTS WITH 'sample_'; both parts keep the table order of the
                columns and every value.
  flatten_dfs   rows in table order (2-D lists row-major), every value kept, row k carries the label of its table in
                the column `column_name`.
  Which exception an invalid call raises, whether the caller's table is modified, the precise selection among
  partially overlapping cycles and the rounding of an off-grid offset are NOT judged by the oracle; the model
  comparison pins them (a difference there is reported as no-failing-input-found).
"""
import math
from fractions import Fraction as Fr
import numpy as np
from harness import coqio, gen, pipeline
from harness.core import exc_kind

PROP = 'C18'
PROPS_FILE = 'Props/C18.v'
_HDR = ('From Coq Require Import List ZArith NArith String Floats.PrimFloat. Import ListNotations.\n'
        'From ByC Require Import Base.Result Harness.Compare Model.Window.\nOpen Scope float_scope.')
COQ_STREAMS = {
    'limit_df': (_HDR, 'bad_limit_df', ('limit_in', 'result (list ((Z * Z * Z * Z * Z * Z) * N))'), 300),
    'limit_signal': (_HDR, 'bad_limit_signal', ('list float * option float * option float', 'result (list N)'), 100),
    'flatten': (_HDR, 'bad_flatten', ('list (list N) * list N * bool * nat', 'result (list (N * N))'), 300),
    'split': (_HDR, 'bad_split', ('list (string * N)', 'option (list N) * option (list N * list N)'), 300),
}
RULE = ('limit_df on (a) synthetic tiled cycle tables of both centrings with int sample columns and int / float / NaN-bearing float / '
        'bool / string / >2^53 int feature columns, rows chronological, stacked or shuffled, and (b) tables computed by compute_features '
        '(pipeline.gen_case, both centrings, both burst methods); fs in {1, 30, 100, 250, 512} (a: also -1, -250, 0, -0.0, nan, inf = outside the domain, '
        'model comparison only; and 12 % of the tables moved so that the first sample of a cycle is a sample k with (k/fs)*fs > k, or the last sample of a cycle a sample k with (k/fs)*fs < k, or the other way round, and the start resp. stop put on the time stamp k/fs of exactly that sample; fs in {100, 50, 200, 30, 7, 300}), start/stop in {None, exactly on a cycle boundary, between boundaries, before/after everything, reversed}, '
        'reset_indices both; limit_signal on sample grids starting at 0 with limits None / on-grid / off-grid, and (400 quick / 4000 thorough) on time axes of spacing 1/fs, '
        'fs in {0.5, 1, 3, 30, 100, 250, 512, 1000, 2048}, whose first time stamp is NEGATIVE (event-locked epochs, some ending before 0), positive (1 .. 1e5 samples) or 0, '
        'built as (arange(n)+k0)/fs, k0/fs+arange(n)/fs, linspace or arange(t0, t1, 1/fs), limits None / exactly on a time stamp / between two / the first / '
        'the last / 0 / below the first / above the last (negative or reversed limits are refused by the library: model comparison only); split_samples_df / drop_samples_df on '
        'tables whose column names start with, contain, or nearly spell "sample_" (n_sample_*, resample_*, samples_*, Sample_*, sample, '
        'sample_) with int / float+NaN / bool / string columns, and on compute_features tables; flatten_dfs on 1-D and 2-D lists of tables '
        '(incl. empty tables) with int or string labels given as list, nested list or ndarray, default and non-default column_name, '
        'matching and mismatching label counts. '
        'non-trivial = a window that keeps some but not all rows / samples, >= 2 tables flattened, or a split with both kinds of column')
ASSUMPTIONS = ['each row is a cycle (last side < next side); rows are tiled and chronological in most cases, stacked or shuffled in the rest',
               'finite fs > 0 for the statement oracle (fs <= 0, NaN, inf: model comparison only; the model expects ValueError for fs = 0 of either sign); calls with invalid limits may raise (any class) or return what the statement says',
               'a cycle is inside / outside the window according to the binary64 time stamps k / fs of its first and last sample',
               'values are compared as values (NaN equal to NaN), never by dtype: an int column returned as float alters no value']
TRUST = ['tables of stream (b) are produced by the current compute_features; only their windowing is judged here (their content is C01-C07)']


def stream_of(c):
    return {'limit_df': 'limit_df', 'limit_signal': 'limit_signal', 'flatten': 'flatten', 'split': 'split'}.get(c['kind'], 'none')


# ----------------------------------------------------------------------------------------------------------------
# generation

def _table(rng):
    n = rng.randint(0, 9)
    rows, la = [], rng.randint(2, 30)
    lz = max(0, la - rng.randint(1, 3))
    for i in range(n):
        per = rng.randint(4, 40)
        nx = la + per
        ce = la + rng.randint(1, per - 1)
        zr = rng.randint(la, ce)
        zd = rng.randint(ce, nx)
        rows.append([ce, la, nx, zr, zd, lz])
        la, lz = nx, zd
    return rows


_NAME_TEMPLATES = [('sample_c%d', 4), ('feat_c%d', 3), ('n_sample_c%d', 1), ('resample_c%d', 1), ('samples_c%d', 1),
                   ('Sample_c%d', 1), ('SAMPLE_c%d', 1), ('sample', 1), ('sample_', 1), ('sample_sample_c%d', 1),
                   ('c%d_sample_', 1), (' sample_c%d', 1), ('sampl_c%d', 1)]
_DTYPES = ['int', 'float', 'nan', 'bool', 'str', 'big']


def _pipe(rng, tier):
    return pipeline.gen_case(rng, tier, short=False)


def cases(rng, tier):
    out = []
    quick = tier == 'quick'
    n = 1500 if quick else 15000
    for _ in range(n):
        rows = _table(rng)
        order = rng.choice(['sorted', 'sorted', 'sorted', 'stacked', 'shuffled'])
        if order == 'stacked':          # e.g. two recordings stacked by flatten_dfs and then windowed
            rows = rows + _table(rng)
        elif order == 'shuffled':       # e.g. a table re-sorted by a feature
            rng.shuffle(rows)
        fs = rng.choice([1.0, 100.0, 250.0, 512.0, 30.0])
        bounds = sorted(set([r[1] for r in rows] + [r[2] for r in rows])) or [10]

        def lim():
            r = rng.random()
            if r < 0.25:
                return None
            if r < 0.6:
                return rng.choice(bounds) / fs
            if r < 0.8:
                return (rng.choice(bounds) + rng.choice([-0.5, 0.5, 0.25])) / fs
            return rng.choice([0.0, (bounds[-1] + 50) / fs, bounds[0] / fs / 2])
        a, b = lim(), lim()
        if a is not None and b is not None and a > b and rng.random() < 0.7:
            a, b = b, a
        grid = None
        if rows and rng.random() < 0.12:
            # limits that are time stamps k / fs of a cycle's first / last sample whose round trip (k / fs) * fs is
            # not k in binary64 (7 at 100 Hz gives 7.000000000000001, 29 gives 28.999999999999996): move the table so
            # that sample k is the first sample of a cycle and start = k / fs, or the last sample of a cycle and
            # stop = k / fs.  'start/up' and 'stop/down' are the directions in which comparing k with limit * fs loses the
            # cycle that begins / ends exactly on the limit; the other two exercise the offset and the selection of
            # the neighbouring cycle.
            fs = rng.choice([100.0, 50.0, 200.0, 30.0, 7.0, 300.0])
            side = rng.choice(['start', 'stop'])
            up = rng.random() < (0.7 if side == 'start' else 0.3)
            inexact = [v for v in range(2, 700) if ((v / fs) * fs > v if up else (v / fs) * fs < v)]
            i = rng.randrange(len(rows))
            t, bnd = rng.choice(inexact), rows[i][1 if side == 'start' else 2]
            delta = t - bnd
            if min(min(r) for r in rows) + delta >= 0:
                rows = [[v + delta for v in r] for r in rows]
                bounds = [v + delta for v in bounds]
                later = [v for v in bounds if v >= rows[i][2]]
                earlier = [v for v in bounds if v <= rows[i][1]]
                if side == 'start':
                    a = t / fs
                    b = rng.choice([None, rng.choice(later) / fs, (rng.choice(later) + 0.5) / fs])
                else:
                    b = t / fs
                    a = rng.choice([None, 0.0, rng.choice(earlier) / fs, max(0.0, (rng.choice(earlier) - 0.5) / fs)])
                grid = side + ('/up' if up else '/down')
        c = {'kind': 'limit_df', 'center': rng.choice(['peak', 'trough']), 'rows': rows, 'fs': fs, 'start': a, 'stop': b,
             'reset': rng.random() < 0.6, 'index': rng.choice(['default', 'default', 'offset', 'reversed']),
             'label_col': rng.random() < 0.3}
        if grid:
            c['grid'] = grid
        if rng.random() < 0.04:         # a sampling rate outside the documented range: not judged by the oracle
            c['fs'] = rng.choice([-1.0, -250.0, 0.0, 0.0, -0.0, -0.0, float('nan'), float('inf')])
        out.append(c)
    # windows on tables computed by compute_features; the limits are resolved on the computed table (run_impl)
    for _ in range(150 if quick else 1200):
        def spec():
            r = rng.random()
            if r < 0.2:
                return ['none']
            if r < 0.65:
                return ['bound', rng.random(), 0.0]
            if r < 0.85:
                return ['bound', rng.random(), rng.choice([-0.5, 0.5, 0.25])]
            return ['far', rng.choice(['zero', 'beyond', 'early'])]
        out.append({'kind': 'limit_df', 'pipe': _pipe(rng, tier), 'a_spec': spec(), 'b_spec': spec(), 'swap': rng.random() < 0.7,
                    'fs_mode': rng.choice(['own', 'own', 'own', '512']), 'reset': rng.random() < 0.6})
    m = 400 if quick else 4000
    for _ in range(m):
        fs = rng.choice([1.0, 100.0, 250.0, 512.0, 1000.0, 30.0])
        nn = rng.randint(1, 60)

        def lim():
            r = rng.random()
            if r < 0.25:
                return None
            k = rng.randint(0, nn + 2)
            return (k / fs) if r < 0.7 else ((k + rng.choice([0.5, -0.25])) / fs)
        a, b = lim(), lim()
        if a is not None and b is not None and a > b and rng.random() < 0.8:
            a, b = b, a
        if a is not None and a < 0:
            a = 0.0
        out.append({'kind': 'limit_signal', 'fs': fs, 'n': nn, 'start': a, 'stop': b})
    k = 400 if quick else 4000
    for _ in range(k):
        two_d = rng.random() < 0.5
        n0, n1 = rng.randint(1, 3), (rng.randint(1, 3) if two_d else 1)
        sizes = [rng.randint(0, 3) for _ in range(n0 * n1)]
        if sizes[0] == 0 and rng.random() < 0.7:
            sizes[0] = 1
        nlab = n0 * n1 if rng.random() < 0.85 else n0 * n1 + rng.choice([-1, 1])
        out.append({'kind': 'flatten', 'two_d': two_d, 'n0': n0, 'n1': n1, 'sizes': sizes,
                    'labels': [rng.randint(0, 50) for _ in range(max(0, nlab))],
                    'lab_as': rng.choice(['list', 'list', 'array', 'str_list', 'str_list', 'str_array', 'flat_list']),
                    'column_name': rng.choice(['Label', 'Label', 'Label', 'group', 'sample_epoch'])})
    for _ in range(150 if quick else 1500):
        ncol = rng.randint(1, 8)
        tmpl = [t for t, w in _NAME_TEMPLATES for _ in range(w)]
        names = []
        for i in range(ncol):
            t = rng.choice(tmpl)
            nm = (t % i) if '%d' in t else t
            if nm not in names:
                names.append(nm)
        out.append({'kind': 'split', 'names': names, 'dtypes': [rng.choice(_DTYPES) for _ in names], 'nrow': rng.randint(0, 4)})
    for _ in range(30 if quick else 300):
        out.append({'kind': 'split', 'pipe': _pipe(rng, tier), 'return_samples': rng.random() < 0.85})
    # limit_signal on time axes that do NOT start at 0 (event-locked epochs start at a negative time, a segment of a
    # recording at a positive one); the limits are placed relative to the axis handed over
    for _ in range(400 if quick else 4000):
        out.append(_axis_case(rng))
    return out


def _axis_times(c):
    """The time axis of a limit_signal case: arange(0, n/fs, 1/fs) (no 'axis' key), or n samples of spacing 1/fs whose first
    time stamp is k0/fs, built the ways users build them."""
    n, fs = c['n'], c['fs']
    ax = c.get('axis')
    if not ax:
        return np.arange(0, n / fs, 1 / fs)
    k0 = ax['k0']
    if ax['how'] == 'index':
        return (np.arange(n) + k0) / fs
    if ax['how'] == 'offset':
        return k0 / fs + np.arange(n) / fs
    if ax['how'] == 'linspace':
        return np.linspace(k0 / fs, (k0 + n - 1) / fs, n)
    return np.arange(k0 / fs, (k0 + n) / fs, 1 / fs)[:n]          # 'arange'


def _axis_case(rng):
    fs = rng.choice([1.0, 100.0, 250.0, 512.0, 1000.0, 30.0, 0.5, 2048.0, 3.0])
    n = rng.randint(1, 60)
    sign = rng.choice(['neg', 'neg', 'neg', 'pos', 'pos', 'zero'])
    if sign == 'neg':         # the axis starts before the event; a fifth of them also ends before it
        k0 = -rng.randint(1, n + 1) if rng.random() < 0.8 else -rng.randint(n + 1, n + 40)
    elif sign == 'pos':
        k0 = rng.choice([rng.randint(1, 10), rng.randint(1, 300), rng.randint(1000, 100000)])
    else:
        k0 = 0
    c = {'kind': 'limit_signal', 'fs': fs, 'n': n, 'axis': {'k0': k0, 'how': rng.choice(['index', 'index', 'offset', 'linspace', 'arange'])}}
    times = [float(t) for t in _axis_times(c)]
    dt = 1 / fs
    nonneg = [t for t in times if t >= 0]

    def lim():
        if rng.random() < 0.2:
            return None
        mode = rng.choice(['on', 'on', 'on', 'between', 'between', 'below', 'above', 'first', 'last', 'zero'])
        if mode == 'on':
            return rng.choice(times)
        if mode == 'between':
            return rng.choice(times) + rng.choice([0.5, 0.25, -0.25]) * dt
        if mode == 'below':
            return times[0] - rng.choice([0.5, 1, 3, 50]) * dt
        if mode == 'above':
            return times[-1] + rng.choice([0.5, 1, 3, 50]) * dt
        return {'first': times[0], 'last': times[-1], 'zero': 0.0}[mode]
    a, b = lim(), lim()
    # the library accepts 0 <= start <= stop only: most negative limits are replaced by accepted ones (None, 0, a time
    # stamp >= 0, something after the axis); the remaining ones and reversed limits go to the model comparison (ValueError)
    if a is not None and a < 0 and rng.random() < 0.8:
        a = rng.choice([None, None, 0.0] + ([rng.choice(nonneg)] if nonneg else []))
    if b is not None and b < 0 and rng.random() < 0.8:
        b = rng.choice([None, 0.0, times[-1] + dt if times[-1] + dt >= 0 else 0.5 * dt] + ([rng.choice(nonneg), rng.choice(nonneg) + 0.5 * dt] if nonneg else []))
    if a is not None and b is not None and a > b and rng.random() < 0.85:
        a, b = b, a
    c['start'], c['stop'] = a, b
    return c


# ----------------------------------------------------------------------------------------------------------------
# running the implementation

def _col(dtype, n, i):
    if dtype == 'int':
        return np.arange(n, dtype=int) * 3 + i
    if dtype == 'float':
        return np.arange(n, dtype=float) * 0.25 + i
    if dtype == 'nan':
        return np.array([float('nan') if (j + i) % 2 == 0 else j + 0.5 for j in range(n)], dtype=float)
    if dtype == 'bool':
        return np.array([(j + i) % 2 == 0 for j in range(n)], dtype=bool)
    if dtype == 'str':
        return np.array(['r%d_%d' % (j, i) for j in range(n)], dtype=object)
    return np.array([2 ** 53 + 1 + 2 * j + i for j in range(n)], dtype=np.int64)


def _df(c):
    import pandas as pd
    sc = pipeline.sample_cols(c['center'])
    rows = c['rows']
    d = {col: np.array([r[i] for r in rows], dtype=int) for i, col in enumerate(sc)}
    n = len(rows)
    d['period'] = np.array([r[2] - r[1] for r in rows], dtype=int)
    d['volt_amp'] = np.arange(n, dtype=float) * 0.25 + 1
    d['is_burst'] = np.array([i % 2 == 0 for i in range(n)], dtype=bool)
    d['rowid'] = np.arange(n, dtype=int)
    d['amp_consistency'] = _col('nan', n, 1)
    d['recording_id'] = _col('big', n, 0)
    if c.get('label_col'):
        d['Label'] = _col('str', n, 7)
    df = pd.DataFrame(d)
    if c.get('index') == 'offset':
        df.index = np.arange(n) + 11
    elif c.get('index') == 'reversed':
        df.index = np.arange(n)[::-1]
    return df


def _pipe_table(pc):
    sig = pipeline.sig_of(pc) if hasattr(pipeline, 'sig_of') else gen.unhexlist(pc['sig'])
    return pipeline.call_compute_features(sig, pc, return_samples=True)


def _py(v):
    return v.item() if hasattr(v, 'item') else v


def _same(a, b):
    """Same value: NaN equals NaN; numbers by value whatever their type; everything else by ==."""
    a, b = _py(a), _py(b)
    if isinstance(a, float) and isinstance(b, float) and math.isnan(a) and math.isnan(b):
        return True
    if isinstance(a, (bool, int, float)) and isinstance(b, (bool, int, float)):
        if isinstance(a, float) or isinstance(b, float):
            # an int beyond 2^53 returned as float has lost its value unless the conversion is exact
            try:
                return Fr(a) == Fr(b)
            except (ValueError, OverflowError):
                return False
        return int(a) == int(b)
    try:
        return bool(a == b)
    except Exception:
        return False


def _frame_diff(res, ref, cols, ref_pos=None):
    """First column of `cols` whose values in `res` (row k) differ from `ref` (row ref_pos[k]), or None."""
    n = len(res)
    for col in cols:
        if col not in res.columns:
            return 'column %r missing' % (col,)
        a, b = res[col].tolist() if hasattr(res[col], 'tolist') else list(res[col]), ref[col].tolist()
        if len(a) != n:
            return 'column %r has %d values for %d rows' % (col, len(a), n)
        for k in range(n):
            j = k if ref_pos is None else ref_pos[k]
            if not _same(a[k], b[j]):
                return 'column %r: %r became %r' % (col, b[j], a[k])
    return None


def _resolve(spec, bounds, fs):
    if spec[0] == 'none':
        return None
    if spec[0] == 'bound':
        b = bounds[min(len(bounds) - 1, int(spec[1] * len(bounds)))]
        return max(0.0, (b + spec[2]) / fs)
    return {'zero': 0.0, 'beyond': (bounds[-1] + 50) / fs, 'early': bounds[0] / fs / 2}[spec[1]]


def _run_limit_df(c):
    from bycycle.utils.dataframes import limit_df
    if 'pipe' in c:
        pc = c['pipe']
        try:
            df = _pipe_table(pc)
        except Exception as e:
            return {'skip': 'compute_features raised %s' % exc_kind(e)}
        center = pc['center']
        sc = pipeline.sample_cols(center)
        if any(col not in df.columns for col in sc) or 'rowid' in df.columns:
            return {'skip': 'computed table lacks sample columns'}
        df = df.copy()
        df['rowid'] = np.arange(len(df), dtype=int)
        fs = 512.0 if c['fs_mode'] == '512' else float(pc['fs'])
        in_rows = [[int(df[col].iloc[i]) for col in sc] for i in range(len(df))]
        bounds = sorted(set([r[1] for r in in_rows] + [r[2] for r in in_rows])) or [10]
        a, b = _resolve(c['a_spec'], bounds, fs), _resolve(c['b_spec'], bounds, fs)
        if a is not None and b is not None and a > b and c['swap']:
            a, b = b, a
    else:
        df, center, fs, a, b = _df(c), c['center'], c['fs'], c['start'], c['stop']
        sc = pipeline.sample_cols(center)
        in_rows = [list(r) for r in c['rows']]
    out = {'in_rows': in_rows, 'fs': fs, 'start': a, 'stop': b, 'center': center}
    before = df.copy(deep=True)
    try:
        r = limit_df(df, fs, start=a, stop=b, reset_indices=c['reset'])
    except Exception as e:
        out.update({'err': exc_kind(e), 'msg': str(e)[:160]})
        return out
    try:
        ids = [int(x) for x in r['rowid'].tolist()]
        out['rows'] = [{'s': [int(r[col].iloc[i]) for col in sc], 'id': ids[i]} for i in range(len(r))]
    except Exception as e:
        out['unreadable'] = 'returned table cannot be read: %s: %s' % (type(e).__name__, str(e)[:120])
        return out
    out['columns_missing'] = sorted(str(x) for x in before.columns if x not in r.columns)
    feat = [col for col in before.columns if col not in sc and col in r.columns]
    if all(0 <= i < len(before) for i in ids):
        out['feature_diff'] = _frame_diff(r, before, feat, ref_pos=ids)
    else:
        out['feature_diff'] = None           # reported as a selection failure by the oracle
    out['input_unchanged'] = bool(before.equals(df))
    return out


def _run_split(c):
    import pandas as pd
    from bycycle.utils.dataframes import split_samples_df, drop_samples_df
    if 'pipe' in c:
        pc = c['pipe']
        try:
            sig = pipeline.sig_of(pc) if hasattr(pipeline, 'sig_of') else gen.unhexlist(pc['sig'])
            df = pipeline.call_compute_features(sig, pc, return_samples=c['return_samples'])
        except Exception as e:
            return {'skip': 'compute_features raised %s' % exc_kind(e)}
    else:
        df = pd.DataFrame({nm: _col(dt, c['nrow'], i) for i, (nm, dt) in enumerate(zip(c['names'], c['dtypes']))})
    names = [str(x) for x in df.columns]
    out = {'names': names, 'nrow': len(df)}
    ref = df.copy(deep=True)
    try:
        d = drop_samples_df(df.copy(deep=True))
        out['drop_cols'] = [str(x) for x in d.columns]
        out['drop_diff'] = ('%d rows became %d' % (len(ref), len(d))) if len(d) != len(ref) else \
            _frame_diff(d, ref, [x for x in d.columns if x in ref.columns])
    except Exception as e:
        out['drop_err'] = exc_kind(e)
    try:
        f, s = split_samples_df(df.copy(deep=True))
        out['split_f'], out['split_s'] = [str(x) for x in f.columns], [str(x) for x in s.columns]
        out['split_diff'] = ('%d rows became %d / %d' % (len(ref), len(f), len(s))) if (len(f) != len(ref) or len(s) != len(ref)) else \
            (_frame_diff(f, ref, [x for x in f.columns if x in ref.columns]) or _frame_diff(s, ref, [x for x in s.columns if x in ref.columns]))
    except Exception as e:
        out['split_err'] = exc_kind(e)
    return out


def _lab(c, i):
    v = c['labels'][i]
    return ('L%d' % v) if c['lab_as'].startswith('str') else v


def _run_flatten(c):
    import pandas as pd
    from bycycle.utils.dataframes import flatten_dfs
    tabs = [pd.DataFrame({'rowid': np.arange(sz, dtype=int) + 100 * i, 'v': np.arange(sz, dtype=float),
                          'w': _col('nan', sz, i), 'name': _col('str', sz, i), 'sample_x': _col('int', sz, i)})
            for i, sz in enumerate(c['sizes'])]
    refs = [t.copy(deep=True) for t in tabs]
    nl = len(c['labels'])
    flat = [_lab(c, i) for i in range(nl)]
    as_ = c.get('lab_as', 'list')
    n0, n1 = c['n0'], c['n1']
    if c['two_d']:
        dfs = [[tabs[i * n1 + j] for j in range(n1)] for i in range(n0)]
        nested = nl == n0 * n1 and as_ != 'flat_list'
        labels = [flat[i * n1:(i + 1) * n1] for i in range(n0)] if nested else list(flat)
    else:
        dfs, labels = tabs, list(flat)
    if as_.endswith('array'):
        labels = np.array(labels)
    cn = c.get('column_name', 'Label')
    try:
        r = flatten_dfs(dfs, labels) if cn == 'Label' else flatten_dfs(dfs, labels, column_name=cn)
    except Exception as e:
        return {'err': exc_kind(e), 'msg': str(e)[:160]}
    out = {}
    try:
        ids = [int(x) for x in r['rowid'].tolist()]
    except Exception as e:
        return {'unreadable': 'returned table cannot be read: %s: %s' % (type(e).__name__, str(e)[:120])}
    if cn not in r.columns:
        out['no_label_column'] = True
        out['pairs'] = [[i, -1] for i in ids]
    else:
        labs = []
        for x in r[cn].tolist():
            x = _py(x)
            if isinstance(x, str):
                labs.append(int(x[1:]) if x[:1] == 'L' and x[1:].isdigit() else -1)
            else:
                labs.append(int(x) if isinstance(x, (int, float)) and not isinstance(x, bool) and x == x and float(x).is_integer() else -1)
        out['pairs'] = [[i, l] for i, l in zip(ids, labs)]
    ref = pd.concat(refs) if refs else None
    pos = {int(v): k for k, v in enumerate(ref['rowid'].tolist())}
    if all(i in pos for i in ids):
        out['value_diff'] = _frame_diff(r, ref, list(ref.columns), ref_pos=[pos[i] for i in ids])
    else:
        out['value_diff'] = 'rows that are in no input table'
    return out


def run_impl(c):
    k = c['kind']
    if k == 'limit_df':
        return _run_limit_df(c)
    if k == 'limit_signal':
        from bycycle.utils.timeseries import limit_signal
        times = _axis_times(c)
        sig = np.arange(len(times), dtype=float)
        try:
            s, t = limit_signal(times, sig, start=c['start'], stop=c['stop'])
        except Exception as e:
            return {'err': exc_kind(e), 'msg': str(e)[:160], 'times': [float(x).hex() for x in times]}
        return {'kept': [int(x) for x in s], 'times_ok': bool(np.array_equal(t, times[[int(x) for x in s]])) if len(s) else len(t) == 0,
                'times': [float(x).hex() for x in times]}
    if k == 'flatten':
        return _run_flatten(c)
    if k == 'split':
        return _run_split(c)
    return {'harness_error': 'unknown'}


# ----------------------------------------------------------------------------------------------------------------
# statement oracle

def _limits_valid(a, b):
    if a is not None and a < 0:
        return False
    if b is not None and b < 0:
        return False
    if a is not None and b is not None and a > b:
        return False
    return True


def _judge_limit_df(c, o):
    in_rows, fs, start, stop = o['in_rows'], o['fs'], o['start'], o['stop']
    if not (fs > 0 and math.isfinite(fs)):
        return None                      # times are undefined: outside the property (the model pins the behaviour)
    if 'err' in o:
        if not _limits_valid(start, stop):
            return None                  # an invalid window may be refused, with whatever exception
        return 'raised %s (%s) for valid limits start=%s stop=%s on a %s-centred table' % (o['err'], o.get('msg'), start, stop, o['center'])
    if 'unreadable' in o:
        return o['unreadable']
    lo = 0.0 if start is None else start
    n = len(in_rows)
    ids = [r['id'] for r in o['rows']]
    if any(not (0 <= i < n) for i in ids) or any(b <= a for a, b in zip(ids, ids[1:])):
        return 'returned rows are not a selection of the input rows in table order: row ids %s' % ids[:12]
    got = set(ids)
    # the time stamp of sample k on the library's time axis arange(n) / fs: binary64 k / fs
    t = lambda k: k / fs
    inside = [i for i, r in enumerate(in_rows) if t(r[1]) >= lo and (stop is None or t(r[2]) <= stop)]
    lost = [i for i in inside if i not in got]
    if lost:
        return 'selection: cycle(s) %s lying entirely inside [start, stop] were dropped (start=%s stop=%s fs=%s, samples %s)' % (
            lost[:5], start, stop, fs, [in_rows[i][1:3] for i in lost[:5]])
    extra = [i for i in ids if t(in_rows[i][2]) < lo or (stop is not None and t(in_rows[i][1]) > stop)]
    if extra:
        return 'selection: cycle(s) %s lying entirely outside [start, stop] were kept (start=%s stop=%s fs=%s, samples %s)' % (
            extra[:5], start, stop, fs, [in_rows[i][1:3] for i in extra[:5]])
    if o['columns_missing']:
        return 'columns lost: %s' % o['columns_missing']
    if o['feature_diff']:
        return 'feature values changed: %s' % o['feature_diff']
    offs = sorted(set(in_rows[r['id']][k] - r['s'][k] for r in o['rows'] for k in range(6)))
    if len(offs) > 1:
        return 'shift: sample columns are not shifted by one common offset (offsets %s)' % offs[:6]
    if offs:
        if not c['reset'] and offs[0] != 0:
            return 'shift: sample columns shifted by %d although reset_indices is False' % offs[0]
        if c['reset']:
            x = (Fr(0) if start is None else Fr(start)) * Fr(fs)    # fs * start, exactly
            if abs(Fr(offs[0]) - x) >= 1 or (abs(x - round(x)) < Fr(1, 10 ** 6) and offs[0] != round(x)):
                return 'shift: offset %d is not the sample index of the window start fs*start = %s' % (offs[0], float(x))
    return None


def oracle(c, o):
    if 'skip' in o:
        return None
    k = c['kind']
    if k == 'limit_df':
        return _judge_limit_df(c, o)
    if k == 'limit_signal':
        if 'err' in o:
            if not _limits_valid(c['start'], c['stop']):
                return None
            return 'raised %s (%s) for valid limits start=%s stop=%s' % (o['err'], o.get('msg'), c['start'], c['stop'])
        times = [float.fromhex(h) for h in o['times']]
        want = [i for i, t in enumerate(times) if (c['start'] is None or t >= c['start']) and (c['stop'] is None or t < c['stop'])]
        if o['kept'] != want or not o['times_ok']:
            return 'kept samples %s, expected %s' % (o['kept'][:6], want[:6])
        return None
    if k == 'flatten':
        n = c['n0'] * c['n1']
        if len(c['labels']) != n:
            return None                  # as many labels as tables is the documented domain; the model pins ValueError
        if 'err' in o:
            return 'raised %s (%s)' % (o['err'], o.get('msg'))
        if 'unreadable' in o:
            return o['unreadable']
        if o.get('no_label_column'):
            return 'no column %r carrying the labels' % c.get('column_name', 'Label')
        want = [[100 * i + r, c['labels'][i]] for i in range(n) for r in range(c['sizes'][i])]
        if o['pairs'] != want:
            return 'flattened (row, label) pairs %s, expected %s' % (o['pairs'][:6], want[:6])
        if o['value_diff']:
            return 'values altered by flattening: %s' % o['value_diff']
        return None
    if k == 'split':
        if 'drop_err' in o:
            return 'drop_samples_df raised %s' % o['drop_err']
        feat = [nm for nm in o['names'] if not nm.startswith('sample_')]
        samp = [nm for nm in o['names'] if nm.startswith('sample_')]
        if o['drop_cols'] != feat:
            return 'drop_samples_df kept %s expected %s' % (o['drop_cols'], feat)
        if o['drop_diff']:
            return 'drop_samples_df altered a value: %s' % o['drop_diff']
        if not samp:
            return None   # split with no sample column: pandas refuses to concat nothing; outside the property
        if 'split_err' in o:
            return 'split_samples_df raised %s' % o['split_err']
        if o['split_f'] != feat or o['split_s'] != samp:
            return 'split_samples_df gave %s / %s, expected %s / %s' % (o['split_f'], o['split_s'], feat, samp)
        if o['split_diff']:
            return 'split_samples_df altered a value: %s' % o['split_diff']
        return None


def nontrivial(c, o):
    if 'skip' in o:
        return False
    k = c['kind']
    if k == 'limit_df':
        return 'rows' in o and 0 < len(o['rows']) < len(o['in_rows'])
    if k == 'limit_signal':
        return 'kept' in o and 0 < len(o['kept']) < len(o['times'])
    if k == 'flatten':
        return 'pairs' in o and c['n0'] * c['n1'] >= 2
    if k == 'split':
        ns = sum(1 for nm in o.get('names', []) if nm.startswith('sample_'))
        return 0 < ns < len(o.get('names', []))
    return True


def kind_of(c, o):
    k = c['kind'] + ('/computed' if 'pipe' in c else '')
    if 'skip' in o:
        return k + '/skip: ' + o['skip']
    if c['kind'] == 'limit_df':
        k += '/' + o.get('center', '?')
        fs = o.get('fs', 1)
        if not (fs > 0 and math.isfinite(fs)):
            k += '/fs<=0' if fs <= 0 else '/fs-nan-inf'
        if c.get('grid'):
            k += '/grid:' + c['grid']    # a limit on the time stamp k/fs of a cycle boundary k with (k/fs)*fs != k
        if o.get('input_unchanged') is False:
            k += '/input-modified'       # not a clause of C18; recorded only
    if c['kind'] == 'limit_signal' and c.get('axis'):
        k0 = c['axis']['k0']
        k += '/axis-from-' + ('negative' if k0 < 0 else 'positive' if k0 > 0 else 'zero')
        k += '/start-' + ('none' if c['start'] is None else 'neg' if c['start'] < 0 else 'given')
        if 'kept' in o:
            k += '/all' if len(o['kept']) == len(o['times']) else '/none' if not o['kept'] else '/some'
    return k + ('/err' if 'err' in o else '')


# ----------------------------------------------------------------------------------------------------------------
# model comparison

def _optf(x):
    return 'None' if x is None else '(Some %s)' % coqio.fl(x)


def _cstr(s):
    return '"%s"%%string' % s.replace('"', '""')


def coq_case(c, o):
    if 'skip' in o or 'unreadable' in o:
        return None
    k = c['kind']
    res_err = '(Err %s)' % pipeline.ERRMAP.get(o.get('err'), 'EOther')
    if k == 'limit_df':
        rows_in = o['in_rows']
        rows = coqio.lst(['((%s), %d%%N)' % (', '.join(coqio.Z(v) + '%Z' for v in r), i) for i, r in enumerate(rows_in)]) if rows_in else 'nil'
        inp = '(%s, %s, %s, %s, %s)' % (rows, coqio.fl(o['fs']), _optf(o['start']), _optf(o['stop']), coqio.B(c['reset']))
        if 'err' in o:
            return inp, res_err
        if any(r['id'] < 0 for r in o['rows']):
            return None
        return inp, '(Ok %s)' % (coqio.lst(['((%s), %d%%N)' % (', '.join(coqio.Z(v) + '%Z' for v in r['s']), r['id']) for r in o['rows']]) if o['rows'] else 'nil')
    if k == 'limit_signal':
        ts = [float.fromhex(h) for h in o['times']]
        inp = '(%s, %s, %s)' % (coqio.flist(ts), _optf(c['start']), _optf(c['stop']))
        if 'err' in o:
            return inp, res_err
        return inp, '(Ok %s)' % (coqio.lst(['%d%%N' % i for i in o['kept']]) if o['kept'] else 'nil')
    if k == 'flatten':
        tabs = coqio.lst([coqio.lst(['%d%%N' % (100 * i + r) for r in range(sz)]) if sz else 'nil' for i, sz in enumerate(c['sizes'])])
        labs = coqio.lst(['%d%%N' % l for l in c['labels']]) if c['labels'] else 'nil'
        inp = '(%s, %s, %s, %d%%nat)' % (tabs, labs, coqio.B(c['two_d']), c['n1'])
        if 'err' in o:
            return inp, res_err
        if any(a < 0 or b < 0 for a, b in o['pairs']):
            return None                  # unreadable label / row: judged by the oracle
        return inp, '(Ok %s)' % (coqio.lst(['(%d%%N, %d%%N)' % (a, b) for a, b in o['pairs']]) if o['pairs'] else 'nil')
    if k == 'split':
        names = o['names']
        if any(not all(32 <= ord(ch) < 127 for ch in nm) for nm in names):
            return None
        idx = {nm: i for i, nm in enumerate(names)}
        if len(idx) != len(names):
            return None

        def ids(cols):
            if any(x not in idx for x in cols):
                return None
            return coqio.lst(['%d%%N' % idx[x] for x in cols]) if cols else 'nil'
        inp = coqio.lst(['(%s, %d%%N)' % (_cstr(nm), i) for i, nm in enumerate(names)]) if names else 'nil'
        dr = ids(o['drop_cols']) if 'drop_cols' in o else None
        sf = ids(o['split_f']) if 'split_f' in o else None
        ss = ids(o['split_s']) if 'split_s' in o else None
        return inp, '(%s, %s)' % ('None' if dr is None else '(Some %s)' % dr,
                                  'None' if sf is None or ss is None else '(Some (%s, %s))' % (sf, ss))
    return None
