"""C19 — invalid settings are rejected (ValueError), valid ones accepted.  Model/Validate.v."""
import itertools
import math
import numpy as np
from harness import coqio
from harness.core import exc_kind

PROP = 'C19'
PROPS_FILE = 'Props/C19.v'
_HDR = ('From Coq Require Import List ZArith NArith Floats.PrimFloat. Import ListNotations.\n'
        'From ByC Require Import Base.Result Harness.Compare Model.Validate.\nOpen Scope float_scope.')
COQ_STREAMS = {
    'shape': (_HDR, 'bad_check_shape', ('sigdims * kwshape * axis', 'bool'), 2000),
    'entry': (_HDR, 'bad_group_accepts', ('sigdims * kwshape * axis', 'bool'), 2000),
    'range': (_HDR, 'bad_in_range', ('float * float * float', 'bool'), 2000),
    'ampthr': (_HDR, 'bad_amp_threshes', ('float * float', 'bool'), 2000),
}
RULE = ('exhaustive grid: array shapes {2-D, 3-D} x extents 1..3 x axis in {0, 1, (0,1), None, 2, "x"} x option-list shapes '
        '{None, dict, 1-D len 1..4, 2-D extents 1..3 x 1..3, 3-D, ragged}: the decision function on the whole grid; the public '
        'entry points (compute_features_2d/3d, BycycleGroup.fit) on a seeded sample (quick) or the whole grid (thorough); each '
        'scalar parameter at, just inside and just outside its range through its public entry point; every enumerated option '
        'with each documented value and an unknown one; dimensionality and fitted-state guards. non-trivial = a list-shaped '
        'option value, or a parameter on a range boundary')
EXHAUSTIVE = {'quick': True, 'thorough': True}
ASSUMPTIONS = ['the place where a ValueError is raised is free (fs = 0 is rejected by neurodsp, fs < 0 by bycycle)']
AXES = {'0': 0, '1': 1, '01': (0, 1), 'None': None, '2': 2, 'x': 'x'}
AXC = {'0': 'Ax0', '1': 'Ax1', '01': 'Ax01', 'None': 'AxNone', '2': 'AxOther', 'x': 'AxOther'}


def _grid():
    dims = [('D2', (n0,)) for n0 in (1, 2, 3)] + [('D3', (n0, n1)) for n0 in (1, 2, 3) for n1 in (1, 2, 3)]
    kws = [('KNone',), ('KDict',)] + [('K1', d) for d in (1, 2, 3, 4)] + \
          [('K2', a, b) for a in (1, 2, 3) for b in (1, 2, 3)] + [('K3',), ('KRagged',)]
    for d in dims:
        for k in kws:
            for a in AXES:
                yield {'dims': [d[0]] + list(d[1]), 'kw': list(k), 'axis': a}


def cases(rng, tier):
    out = []
    grid = list(_grid())
    for g in grid:
        out.append(dict(g, kind='shape'))
    ent = grid if tier == 'thorough' else rng.sample(grid, 170)
    for g in ent:
        out.append(dict(g, kind='entry', via=rng.choice(['func', 'func', 'group'])))
    eps = 1e-9
    for name in ['amp_fraction_threshold', 'amp_consistency_threshold', 'period_consistency_threshold',
                 'monotonicity_threshold', 'burst_fraction_threshold']:
        for v in [-eps, -5e-324, 0.0, -0.0, eps, 0.5, 1.0 - eps, 1.0, math.nextafter(1.0, 2.0), 1.0 + eps, 2.0, -1.0]:
            out.append({'kind': 'range', 'param': name, 'v': v, 'lo': 0.0, 'hi': 1.0})
    for n in [-2, -1, -0.5, 0, 1, 3]:
        for quiet in (False, True):          # quiet: no cycle passes the thresholds (shortcut paths must still validate)
            out.append({'kind': 'min_n', 'n': n, 'via': 'cycles', 'quiet': quiet})
            out.append({'kind': 'min_n', 'n': n, 'via': 'amp', 'quiet': quiet})
            out.append({'kind': 'min_n', 'n': n, 'via': 'filter', 'quiet': quiet})
            out.append({'kind': 'min_n', 'n': n, 'via': 'compute_features', 'quiet': quiet})
    for lo, hi in [(1, 2), (2, 1), (-0.1, 1), (1, 1), (0.5, 1.5), (0, 2), (1.0 + eps, 1.0), (-eps, 0.5), (3, 2.999)]:
        out.append({'kind': 'ampthr', 'lo': float(lo), 'hi': float(hi)})
    for fs in [-1.0, -eps, 0.0, 100.0]:
        out.append({'kind': 'fs', 'fs': fs, 'via': rng.choice(['compute_features', 'find_extrema', 'shape'])})
    for fs in [-1.0, 0.0, 100.0]:
        for via in ['compute_features', 'find_extrema', 'shape', 'cyclepoints', 'band_amp']:
            out.append({'kind': 'fs', 'fs': fs, 'via': via})
    for opt, vals in [('center_extrema', ['peak', 'trough', 'centre', None]), ('burst_method', ['cycles', 'amp', 'both', None]),
                      ('first_extrema', ['peak', 'trough', None, 'rise']), ('direction_amp', ['both', 'next', 'last', 'prev']),
                      ('direction_period', ['both', 'next', 'last', 'prev']), ('direction_edge', ['both', 'next', 'last', 'prev']),
                      ('progress', [None, 'tqdm', 'bar']), ('fit_dim', [1, 2, 0]), ('group_dim', [2, 3, 1, 4]),
                      ('plot_fitted', [True, False]), ('shape_center', ['peak', 'trough', 'x']), ('shape_n_cycles', [3, 1, -1]), ('band_amp_n_cycles', [3, -2]),
                      ('burst_features_method', ['cycles', 'amp', 'x']), ('first_extrema_override', [True])]:
        for v in vals:
            out.append({'kind': 'option', 'opt': opt, 'v': v})
    return out


_SIG = None


def _sig(n=240, k=0):
    t = np.arange(n)
    rng = np.random.default_rng(7 + k)
    return np.sin(2 * np.pi * t / 20 + 0.3 * k) * (1 + 0.2 * np.sin(2 * np.pi * t / 97)) + 0.05 * rng.standard_normal(n)


def _kwargs_obj(kw):
    d = {'center_extrema': 'peak'}
    if kw[0] == 'KNone':
        return None
    if kw[0] == 'KDict':
        return dict(d)
    if kw[0] == 'K1':
        return [dict(d) for _ in range(kw[1])]
    if kw[0] == 'K2':
        return [[dict(d) for _ in range(kw[2])] for _ in range(kw[1])]
    if kw[0] == 'K3':
        return [[[dict(d), dict(d)], [dict(d), dict(d)]], [[dict(d), dict(d)], [dict(d), dict(d)]]]
    return [[dict(d), dict(d)], [dict(d)]]


def _sigs(dims):
    if dims[0] == 'D2':
        return np.array([_sig(240, i) for i in range(dims[1])])
    return np.array([[_sig(240, i * 3 + j) for j in range(dims[2])] for i in range(dims[1])])


def _attempt(f):
    try:
        f()
        return {'r': 'ok'}
    except Exception as e:
        return {'r': exc_kind(e), 'msg': str(e)[:120]}


def run_impl(c):
    k = c['kind']
    if k == 'shape':
        from bycycle.group.utils import check_kwargs_shape
        sigs = np.zeros((c['dims'][1], 5)) if c['dims'][0] == 'D2' else np.zeros((c['dims'][1], c['dims'][2], 5))
        obj = _kwargs_obj(c['kw'])

        def f():
            kw = np.array(obj) if isinstance(obj, list) else obj
            check_kwargs_shape(sigs, kw, AXES[c['axis']])
        return _attempt(f)
    if k == 'entry':
        sigs = _sigs(c['dims'])
        obj = _kwargs_obj(c['kw'])
        ax = AXES[c['axis']]
        if c['via'] == 'group':
            from bycycle import BycycleGroup
            if obj is not None and not isinstance(obj, dict):
                c = dict(c, via='func')
            else:
                return _attempt(lambda: BycycleGroup(thresholds={'min_n_cycles': 3}).fit(sigs, 100, (3, 8), axis=ax, n_jobs=1))
        from bycycle.group import compute_features_2d, compute_features_3d
        fn = compute_features_2d if sigs.ndim == 2 else compute_features_3d
        return _attempt(lambda: fn(sigs, 100, (3, 8), compute_features_kwargs=obj, axis=ax, n_jobs=1))
    import pandas as pd
    sig = _sig()
    if k == 'range':
        from bycycle.burst import detect_bursts_cycles, detect_bursts_amp
        df = pd.DataFrame({'amp_fraction': [.5, .6, .7, .8], 'amp_consistency': [np.nan, .6, .7, np.nan],
                           'period_consistency': [np.nan, .6, .7, np.nan], 'monotonicity': [.9, .9, .9, .9],
                           'burst_fraction': [1., 1., 0., 1.]})
        if c['param'] == 'burst_fraction_threshold':
            return _attempt(lambda: detect_bursts_amp(df, burst_fraction_threshold=c['v']))
        return _attempt(lambda: detect_bursts_cycles(df, **{c['param']: c['v']}))
    if k == 'min_n':
        from bycycle.burst import detect_bursts_cycles, detect_bursts_amp
        from bycycle.burst.utils import check_min_burst_cycles
        df = pd.DataFrame({'amp_fraction': [.5, .6, .7, .8], 'amp_consistency': [np.nan, .6, .7, np.nan],
                           'period_consistency': [np.nan, .6, .7, np.nan], 'monotonicity': [.9, .9, .9, .9],
                           'burst_fraction': [1., 1., 0., 1.]})
        if c.get('quiet'):
            df['monotonicity'] = 0.1
            df['burst_fraction'] = 0.0
        if c['via'] == 'cycles':
            return _attempt(lambda: detect_bursts_cycles(df, min_n_cycles=c['n']))
        if c['via'] == 'amp':
            return _attempt(lambda: detect_bursts_amp(df, min_n_cycles=c['n']))
        if c['via'] == 'compute_features':
            from bycycle.features import compute_features
            thr = {'min_n_cycles': c['n']}
            if c.get('quiet'):
                thr['monotonicity_threshold'] = 1.0
            return _attempt(lambda: compute_features(sig, 100, (3, 8), threshold_kwargs=thr))
        arr = np.array([False, False, False]) if c.get('quiet') else np.array([True, False, True])
        return _attempt(lambda: check_min_burst_cycles(arr, min_n_cycles=c['n']))
    if k == 'ampthr':
        from bycycle.features import compute_features
        return _attempt(lambda: compute_features(sig, 100, (3, 8), burst_method='amp', threshold_kwargs={},
                                                 burst_kwargs={'amp_threshes': (c['lo'], c['hi'])}))
    if k == 'fs':
        fs = c['fs']
        fr = (3, 8)
        if c['via'] == 'compute_features':
            from bycycle.features import compute_features
            return _attempt(lambda: compute_features(sig, fs, fr, threshold_kwargs={}))
        if c['via'] == 'find_extrema':
            from bycycle.cyclepoints import find_extrema
            return _attempt(lambda: find_extrema(sig, fs, fr))
        if c['via'] == 'cyclepoints':
            from bycycle.features import compute_cyclepoints
            return _attempt(lambda: compute_cyclepoints(sig, fs, fr))
        if c['via'] == 'band_amp':
            from bycycle.features import compute_cyclepoints
            from bycycle.features.shape import compute_band_amp
            dfs = compute_cyclepoints(sig, 100, fr)
            return _attempt(lambda: compute_band_amp(dfs, sig, fs, fr))
        from bycycle.features import compute_shape_features
        return _attempt(lambda: compute_shape_features(sig, fs, fr))
    if k == 'option':
        from bycycle.features import compute_features, compute_shape_features, compute_burst_features
        o, v = c['opt'], c['v']
        if o == 'center_extrema':
            return _attempt(lambda: compute_features(sig, 100, (3, 8), center_extrema=v, threshold_kwargs={}))
        if o == 'shape_center':
            return _attempt(lambda: compute_shape_features(sig, 100, (3, 8), center_extrema=v))
        if o == 'shape_n_cycles':
            return _attempt(lambda: compute_shape_features(sig, 100, (3, 8), n_cycles=v))
        if o == 'band_amp_n_cycles':
            from bycycle.features import compute_cyclepoints
            from bycycle.features.shape import compute_band_amp
            dfs = compute_cyclepoints(sig, 100, (3, 8))
            return _attempt(lambda: compute_band_amp(dfs, sig, 100, (3, 8), n_cycles=v))
        if o == 'burst_method':
            return _attempt(lambda: compute_features(sig, 100, (3, 8), burst_method=v, threshold_kwargs={}))
        if o == 'burst_features_method':
            dfs = compute_shape_features(sig, 100, (3, 8))
            return _attempt(lambda: compute_burst_features(dfs, sig, burst_method=v, burst_kwargs={'fs': 100, 'f_range': (3, 8)}))
        if o == 'first_extrema':
            from bycycle.cyclepoints import find_extrema
            return _attempt(lambda: find_extrema(sig, 100, (3, 8), first_extrema=v))
        if o == 'first_extrema_override':
            return _attempt(lambda: compute_shape_features(sig, 100, (3, 8), find_extrema_kwargs={'first_extrema': 'trough'}))
        if o.startswith('direction'):
            from bycycle.features.burst import compute_amp_consistency, compute_period_consistency
            from bycycle.burst.utils import recompute_edge
            df = compute_features(sig, 100, (3, 8), threshold_kwargs={})
            if o == 'direction_amp':
                return _attempt(lambda: compute_amp_consistency(df, direction=v))
            if o == 'direction_period':
                return _attempt(lambda: compute_period_consistency(df, direction=v))
            return _attempt(lambda: recompute_edge(df.copy(), 2, v))
        if o == 'progress':
            from bycycle.group import compute_features_2d
            sigs = np.array([sig, sig[::-1]])
            return _attempt(lambda: compute_features_2d(sigs, 100, (3, 8), n_jobs=1, progress=v))
        if o == 'fit_dim':
            from bycycle import Bycycle
            arr = sig if v == 1 else (np.array([sig, sig]) if v == 2 else np.array(1.0))
            return _attempt(lambda: Bycycle(thresholds={'min_n_cycles': 3}).fit(arr, 100, (3, 8)))
        if o == 'group_dim':
            from bycycle import BycycleGroup
            arr = {1: sig, 2: np.array([sig, sig]), 3: np.array([[sig, sig]]), 4: np.array([[[sig]]])}[v]
            return _attempt(lambda: BycycleGroup(thresholds={'min_n_cycles': 3}).fit(arr, 100, (3, 8), n_jobs=1))
        if o == 'plot_fitted':
            from bycycle import Bycycle
            import matplotlib.pyplot as plt
            bm = Bycycle(thresholds={'amp_fraction_threshold': 0., 'amp_consistency_threshold': .5,
                                     'period_consistency_threshold': .5, 'monotonicity_threshold': .8, 'min_n_cycles': 3})
            if v:
                bm.fit(sig, 100, (3, 8))
            r = _attempt(lambda: bm.plot(plot_only_results=True))
            plt.close('all')
            return r
    return {'harness_error': 'unknown case'}


def _expected(c):
    """Documented validity (True = accepted)."""
    k = c['kind']
    if k in ('shape', 'entry'):
        d, kw, a = c['dims'], c['kw'], c['axis']
        listy = kw[0] not in ('KNone', 'KDict')
        axis_valid = a in (('0', 'None') if d[0] == 'D2' else ('0', '1', '01'))
        if k == 'shape' and not listy:
            return True
        if not axis_valid:
            return False
        if not listy:
            return True
        if d[0] == 'D2':
            return kw == ['K1', d[1]]
        if a == '0':
            return kw == ['K1', d[1]]
        if a == '1':
            return kw == ['K1', d[2]]
        return kw == ['K2', d[1], d[2]]
    if k == 'range':
        return c['lo'] <= c['v'] <= c['hi']
    if k == 'min_n':
        return c['n'] >= 0
    if k == 'ampthr':
        return 0 <= c['lo'] <= c['hi']
    if k == 'fs':
        return c['fs'] > 0
    if k == 'option':
        valid = {'center_extrema': ['peak', 'trough'], 'shape_center': ['peak', 'trough'], 'burst_method': ['cycles', 'amp'],
                 'burst_features_method': ['cycles', 'amp'], 'first_extrema': ['peak', 'trough', None],
                 'direction_amp': ['both', 'next', 'last'], 'direction_period': ['both', 'next', 'last'],
                 'direction_edge': ['both', 'next', 'last'], 'progress': [None, 'tqdm', 'tqdm.notebook'],
                 'fit_dim': [1], 'group_dim': [2, 3], 'plot_fitted': [True], 'first_extrema_override': [],
                 'shape_n_cycles': [3, 1], 'band_amp_n_cycles': [3]}
        return c['v'] in valid[c['opt']]


def oracle(c, o):
    want = _expected(c)
    if want:
        return None if o['r'] == 'ok' else 'valid setting rejected (%s: %s)' % (o['r'], o.get('msg'))
    if o['r'] == 'ok':
        return 'invalid setting accepted and analysed'
    if o['r'] != 'Value':
        return 'invalid setting raised %s instead of ValueError (%s)' % (o['r'], o.get('msg'))
    return None


def nontrivial(c, o):
    if c['kind'] in ('shape', 'entry'):
        return c['kw'][0] in ('K1', 'K2')
    return True


def kind_of(c, o):
    return c['kind'] + '/' + o.get('r', '?')


def stream_of(c):
    return {'shape': 'shape', 'entry': 'entry', 'range': 'range', 'ampthr': 'ampthr'}.get(c['kind'], 'none')


def coq_case(c, o):
    k = c['kind']
    acc = coqio.B(o['r'] == 'ok')
    if k in ('shape', 'entry'):
        d, kw = c['dims'], c['kw']
        ds = '(D2 %d%%nat)' % d[1] if d[0] == 'D2' else '(D3 %d%%nat %d%%nat)' % (d[1], d[2])
        ks = kw[0] if len(kw) == 1 else '(%s %s)' % (kw[0], ' '.join('%d%%nat' % x for x in kw[1:]))
        return '(%s, %s, %s)' % (ds, ks, AXC[c['axis']]), acc
    if k == 'range':
        return '(%s, %s, %s)' % (coqio.fl(c['v']), coqio.fl(c['lo']), coqio.fl(c['hi'])), acc
    if k == 'ampthr':
        return '(%s, %s)' % (coqio.fl(c['lo']), coqio.fl(c['hi'])), acc
    return None
