"""C19 — invalid settings are rejected (ValueError), valid ones accepted.  Model/Validate.v."""
import itertools
import math
import numpy as np
from harness import coqio
from harness.core import exc_kind

PROP = 'C19'
PROPS_FILE = 'Props/C19.v'
_HDR = ('From Coq Require Import List ZArith NArith String Floats.PrimFloat. Import ListNotations.\n'
        'From ByC Require Import Base.Result Harness.Compare Model.Validate.\nOpen Scope float_scope.')
COQ_STREAMS = {
    'shape': (_HDR, 'bad_check_shape', ('sigdims * kwshape * axis', 'bool'), 2000),
    'entry': (_HDR, 'bad_group_accepts', ('sigdims * kwshape * axis', 'bool'), 2000),
    'range': (_HDR, 'bad_in_range', ('float * float * float', 'bool'), 2000),
    'ampthr': (_HDR, 'bad_amp_threshes', ('float * float', 'bool'), 2000),
    'min_n': (_HDR, 'bad_min_n', ('Z', 'bool'), 2000),
    'min_n2': (_HDR, 'bad_min_n_pair', ('option Z * option Z', 'bool'), 2000),
    'option': (_HDR, 'bad_option', ('optname * option string', 'bool'), 2000),
    'optval': (_HDR, 'bad_optval', ('optname * pyval', 'bool'), 2000),
    'fs': (_HDR, 'bad_fs', ('float', 'bool'), 2000),
    'guard': (_HDR, 'bad_guard', ('guard', 'bool'), 2000),
}
RULE = ('exhaustive grid: array shapes {2-D, 3-D} x extents 1..3 x axis in {0, 1, (0,1), None, 2, "x"} x option-list shapes '
        '{None, dict, 1-D len 1..4, 2-D extents 1..3 x 1..3, 3-D, ragged}: the decision function check_kwargs_shape on the whole '
        'grid (ragged lists only through the entry points, which build the array); the public entry points: every array class x '
        'axis through BycycleGroup.fit, every valid list-shaped combination and every 3-D array x 2-D list x axis 0 / 1 through '
        'compute_features_2d/3d, a seeded sample of the rest (quick) or the whole grid (thorough); LARGE extents (kinds .../large-extent): '
        'check_kwargs_shape alone on arrays of zeros with 256 / 257 / 300 / 1000 and seeded 258..1199 rows, 3-D arrays with one large '
        'dimension or n0 * n1 > 256 from two moderate ones ((16, 17), (20, 13), (256, 3..5), ...), lists of exactly the documented '
        'shape, off by one or by 256 in either dimension, capped at 255 / 256, transposed, of the flattened length, x every axis value; and a few real calls of '
        'compute_features_2d / _3d / BycycleGroup.fit on 257-272 signals of 240 samples (documented list shape accepted and '
        'analysed, off-by-one lists rejected); each scalar parameter at, just '
        'inside and just outside its range and at +/-inf through its public entry point; a bad sampling rate through every entry '
        'point that checks it (features, cyclepoints, burst features, objects, groups, limit_df, the four plot functions); bad '
        'thresholds / centre / burst method / reversed amplitude thresholds / min_n_cycles through Bycycle.fit and '
        'BycycleGroup.fit; min_n_cycles in BOTH places it can be given (kind min_n2): burst_kwargs x thresholds, each absent / valid '
        '(0, 3) / negative (-1, -2), amplitude method (and thresholds alone with the cycles method), through compute_features, '
        'Bycycle and BycycleGroup (given thresholds and the default ones, which carry a valid count; 2-D axis 0 / None, 3-D axis 0 / 1), '
        'compute_features_2d with one dictionary / a per-signal list / axis None / axis None + list, compute_features_3d axis 0 / 1 / '
        '(0,1) + 2-D list, compute_burst_features; the count first or last in its dictionary; with and without any burst in the signal; '
        'every enumerated option with each documented value and an unknown one (tables in Model/Validate.v); '
        'every enumerated option (centre extremum, burst method, first_extrema, direction, progress, axis) with its documented '
        'values and with unknown values of every type - the falsy ones \'\', False, 0, 0.0, b\'\', (), [], truthy ones, None '
        'where it is not documented, and each documented string in another case, padded with a blank, as bytes, in a tuple, in '
        'a list - through its leaf function and through every public entry point that forwards it (compute_features, '
        'compute_shape_features, compute_cyclepoints, compute_burst_features, Bycycle, BycycleGroup 2-D / 3-D, '
        'compute_features_2d / _3d with one option dictionary or a per-signal list, each axis); '
        'dimensionality and fitted-state guards; ONE INVALID SETTING x THE OTHER OPTIONS (kind cross): for the functions with several '
        'options - compute_burst_fraction / compute_burst_features(amp) (fs, amp_threshes, min_n_cycles, min_burst_duration, '
        'filter_kwargs), find_extrema / compute_cyclepoints (fs, boundary, first_extrema, pad, filter_kwargs), compute_shape_features '
        '(fs, center_extrema, n_cycles, find_extrema_kwargs: boundary / pad / filter_kwargs), compute_band_amp (fs, n_cycles), '
        'detect_bursts_cycles (four thresholds, min_n_cycles), detect_bursts_amp (threshold, min_n_cycles), limit_df (fs, start, stop, '
        'reset_indices), compute_features with the cycles and with the amp method (fs, centre, burst method, thresholds, min_n_cycles, '
        'burst_kwargs, find_extrema_kwargs, return_samples) - every invalid value of one setting with the other options at non-default '
        'VALID values: rotating rows (all other options non-default, every (option, value) occurs), rows with exactly one other '
        'option non-default, seeded rows; every row x every invalid value through the leaf functions and compute_features, and '
        'through Bycycle, BycycleGroup 2-D / 3-D, compute_features_2d (dict, per-signal list, axis None) / _3d (axis 0 / 1 / (0,1)) '
        'the rotating rows with the invalid values in turn plus a seeded third of the single-option rows, and only one (seeded) of '
        'BycycleGroup 3-D / compute_features_2d with a dict / compute_features_3d axis 0 / 1 per run (quick) or everything '
        '(thorough); the same call with the setting at its first valid value is run as a control (no verdict when the other options '
        'alone are refused). non-trivial = a list-shaped option value, a BycycleGroup.fit call, a scalar / '
        'enumerated parameter case, or a cross case whose control call is accepted')
EXHAUSTIVE = {'quick': True, 'thorough': True}
TRUST = ['inside the group functions multiprocessing.Pool is replaced, in-process and for the duration of one call, by a serial '
         'stand-in with the same interface (context manager + imap): a rejected setting makes the library leave `with Pool` '
         'through Pool.terminate(), which can dead-lock in CPython; validation itself is untouched']
ASSUMPTIONS = ['"every documented valid combination of array shape, axis and option-list shape is accepted" (and "option lists whose shape '
               'does not match the array and axis" are rejected) is read for every extent: the small extents of the quantifier are the '
               'part that is enumerated exhaustively, the large-extent cases are a finite sample of the rest (the theorems have no bound)',
               'the place where a ValueError is raised is free (fs = 0 is rejected by limit_df / plot_burst_detect_param '
               'themselves, elsewhere by neurodsp or matplotlib; fs < 0 by bycycle)',
               'a value that Python compares equal to a documented one but has another type (axis False, 0.0, True, 1.0, '
               '(0.0, 1.0)) is neither a documented nor an unknown value: no verdict',
               'NaN thresholds and the first_extrema override of compute_shape_features are not clauses of the property: they are '
               'compared with the model only',
               'min_n_cycles in two dictionaries (kind min_n2): a count in burst_kwargs is only a setting of the amplitude method (the '
               'cycles method never reads burst_kwargs; not generated there). The whole 5 x 5 grid is generated for every entry point '
               'since the repairs 5602cfc / 890cd9b in /repo (two classes had been excluded as PENDING-DEFECT 1, 2 while the '
               'implementation accepted them: notes/wp/WP15_defect_{1,2}.md)',
               'kind cross: a negative min_n_cycles given to compute_burst_fraction / compute_burst_features together with a '
               'min_burst_duration (which then takes precedence in the detector) is still a negative min_n_cycles: it must raise '
               'ValueError; invalid start / stop of limit_df and the acceptance of non-default valid option values are not '
               'clauses of the property (model comparison only); the model judges the one varied setting alone, i.e. '
               'independently of the other options']
AXES = {'0': 0, '1': 1, '01': (0, 1), 'None': None, '2': 2, 'x': 'x'}
AXC = {'0': 'Ax0', '1': 'Ax1', '01': 'Ax01', 'None': 'AxNone', '2': 'AxOther', 'x': 'AxOther'}


def _grid():
    dims = [('D2', (n0,)) for n0 in (1, 2, 3)] + [('D3', (n0, n1)) for n0 in (1, 2, 3) for n1 in (1, 2, 3)]
    kws = [('KNone',), ('KDict',)] + [('K1', d) for d in (1, 2, 3, 4)] + \
          [('K2', a, b) for a in (1, 2, 3) for b in (1, 2, 3)] + [('K3',), ('KRagged',)]
    for d in dims:
        for k in kws:
            for a in AXES:
                yield {'dims': [d[0]] + list(d[1]), 'kw': list(k), 'axis': a}


INF = float('inf')


def _enc(v):
    """Special floats travel as strings so that evidence and replay files stay strict JSON."""
    if isinstance(v, float) and (math.isinf(v) or math.isnan(v)):
        return repr(v)
    return v


def _num(v):
    return float(v) if isinstance(v, str) and v in ('inf', '-inf', 'nan') else v

FS_VIAS = ['compute_features', 'find_extrema', 'shape', 'cyclepoints', 'band_amp', 'burst_features_amp', 'burst_fraction',
           'bycycle_fit', 'group_fit2', 'group_fit3', 'features_2d', 'features_3d', 'limit_df', 'plot_df', 'plot_array',
           'plot_summary', 'plot_param']
OBJ_SETTINGS = [
    # (setting class, keyword arguments of the object, documented-valid?)
    ('thr', {'thresholds': {'amp_fraction_threshold': math.nextafter(1.0, 2.0)}}, False),
    ('thr', {'thresholds': {'monotonicity_threshold': -1e-9}}, False),
    ('thr', {'thresholds': {'period_consistency_threshold': INF}}, False),
    ('thr', {'thresholds': {'amp_consistency_threshold': -INF}}, False),
    ('thr', {'thresholds': {'amp_fraction_threshold': 1.0, 'monotonicity_threshold': 0.0}}, True),
    ('thr', {'burst_method': 'amp', 'thresholds': {'burst_fraction_threshold': 1.5}}, False),
    ('thr', {'burst_method': 'amp', 'thresholds': {'burst_fraction_threshold': 1.0}}, True),
    ('min_n', {'thresholds': {'min_n_cycles': -1}}, False),
    ('min_n', {'burst_method': 'amp', 'thresholds': {'min_n_cycles': -1}}, False),
    ('min_n', {'thresholds': {'min_n_cycles': 0}}, True),
    ('centre', {'center_extrema': 'x'}, False),
    ('centre', {'center_extrema': None}, False),
    ('centre', {'center_extrema': 'trough'}, True),
    ('burst_method', {'burst_method': 'x'}, False),
    ('burst_method', {'burst_method': 'amp'}, True),
    ('ampthr', {'burst_method': 'amp', 'burst_kwargs': {'amp_threshes': (2.0, 1.0)}}, False),
    ('ampthr', {'burst_method': 'amp', 'burst_kwargs': {'amp_threshes': (-0.1, 1.0)}}, False),
    ('ampthr', {'burst_method': 'amp', 'burst_kwargs': {'amp_threshes': (1.0, 2.0)}}, True),
]


# ---------------------------------------------------------------------------------------------------------------------
# enumerated options with values of every Python type (kind 'optval')
NAN = float('nan')
OPT_DOC = {'centre': ['peak', 'trough'], 'burst_method': ['cycles', 'amp'], 'first_extrema': ['peak', 'trough', None],
           'direction': ['both', 'next', 'last'], 'progress': [None, 'tqdm', 'tqdm.notebook']}
OPT_COQ = {'centre': 'OCenter', 'burst_method': 'OBurstMethod', 'first_extrema': 'OFirstExtrema', 'direction': 'ODirection',
           'progress': 'OProgress'}
AXIS_DOC = {2: [0, None], 3: [0, 1, (0, 1)]}
# entry points per option: (name, leaf?)
OPT_VIAS = {
    'centre': [('shape', True), ('compute_features', False), ('Bycycle', False), ('Group2', False), ('Group3', False),
               ('2d', False), ('2d_list', False), ('2d_none', False), ('2d_none_list', False), ('3d', False), ('3d_1', False),
               ('3d_01', False)],
    'burst_method': [('burst_features', True), ('compute_features', True), ('Bycycle', False), ('Group2', False),
                     ('Group3', False), ('2d', False), ('2d_list', False), ('2d_none', False), ('2d_none_list', False),
                     ('3d', False), ('3d_1', False), ('3d_01', False)],
    'first_extrema': [('find_extrema', True), ('cyclepoints', False), ('shape', False), ('compute_features', False)],
    'direction': [('amp', True), ('period', True), ('edge', True)],
    'progress': [('progress_bar', True), ('2d', False), ('2d_none', False), ('3d', False), ('3d_1', False), ('3d_01', False),
                 ('Group2', False), ('Group2_none', False), ('Group3', False)],
    'axis': [('2d', True), ('3d', True), ('Group2', False), ('Group3', False)],
}
# entry points that refuse even the documented values (an implementation choice, DESIGN section 3): model comparison only
OPT_NO_VERDICT = {('first_extrema', 'shape'), ('first_extrema', 'compute_features')}
# a documented value that one forwarding entry point cannot handle (compute_cyclepoints builds its table for a leading
# peak; first_extrema='trough' ends in pandas' 'All arrays must be of the same length'): no verdict, not in the model stream
OPT_NO_VERDICT_VALUES = {('first_extrema', 'cyclepoints', 'trough'),
                         # with axis=None the centre of a later entry is documented to be overridden by the first entry's;
                         # an explicit None there is indistinguishable from leaving the key out (which is valid)
                         ('centre', '2d_none_list', None)}


def _no_verdict_value(opt, via, v):
    return (v is None or isinstance(v, str)) and (opt, via, v) in OPT_NO_VERDICT_VALUES
# (option, entry point) pairs for which unknown values are not generated: none at present (the two classes excluded here
# as PENDING-DEFECT 1 / 2 — burst method / centre of later entries and `progress` not validated with axis=None,
# notes/wp/WP10b_defect_{1,2}.md — are repaired in /repo dff010f, 359f26a and generated again)
OPT_PENDING = set()


def _encv(v):
    """JSON-safe encoding of an arbitrary option value."""
    if v is None:
        return ['none']
    if isinstance(v, bool):
        return ['bool', v]
    if isinstance(v, int):
        return ['int', v]
    if isinstance(v, float):
        return ['float', repr(v)]
    if isinstance(v, str):
        return ['str', v]
    if isinstance(v, bytes):
        return ['bytes', v.decode('latin1')]
    if isinstance(v, tuple):
        return ['tuple', [_encv(x) for x in v]]
    if isinstance(v, list):
        return ['list', [_encv(x) for x in v]]
    raise TypeError(v)


def _decv(e):
    t = e[0]
    if t == 'none':
        return None
    if t in ('bool', 'int', 'str'):
        return e[1]
    if t == 'float':
        return float(e[1])
    if t == 'bytes':
        return e[1].encode('latin1')
    if t == 'tuple':
        return tuple(_decv(x) for x in e[1])
    return [_decv(x) for x in e[1]]


def _pyeq(v, d):
    """v == d as Python's `==` / `in` see it (False == 0, 1.0 == 1, [0, 1] != (0, 1)); None only by identity."""
    if d is None or v is None:
        return v is None and d is None
    try:
        return bool(v == d)
    except Exception:
        return False


def _exact(v, d):
    """v is the documented value d itself: equal and of the same type, items included."""
    if type(v) is not type(d):
        return False
    if isinstance(d, tuple):
        return len(v) == len(d) and all(_exact(a, b) for a, b in zip(v, d))
    return _pyeq(v, d)


def _str_variants(d):
    out = [d.capitalize(), d.upper(), ' ' + d, d + ' ', d + '\n', d.encode('ascii'), (d,), [d], d[:-1], d + 's']
    return [x for x in out if x != d]


def _unknown_values(opt, ndim=None):
    """(always, variants): unknown values of every type; `variants` are the near misses of each documented string."""
    if opt == 'axis':
        doc = AXIS_DOC[ndim]
        cand = ['', b'', (), [], 'x', '0', 'None', 'axis', 2, -1, 3, (1, 0), (0,), (1,), [0, 1], [0], (0, 1, 2), (0, 0), 0.5,
                NAN, (0, '1'), ('0', '1'), None, 1, (0, 1), False, 0.0, True, 1.0, (0.0, 1.0), (False, True), -0.0]
        return [v for v in cand if not any(_exact(v, d) for d in doc)], []
    doc = OPT_DOC[opt]
    always = ['', False, 0, 0.0, b'', (), [], True, 1, 'x', 'None', 'none', NAN, -1, (None,), [None], 'peaks']
    if None not in doc:
        always.append(None)
    for other in OPT_DOC.values():              # the documented strings of the OTHER options
        always.extend(x for x in other if isinstance(x, str) and x not in doc and x not in always)
    variants = []
    for d in doc:
        if isinstance(d, str):
            variants.extend(x for x in _str_variants(d) if x not in doc)
    return always, variants


def _optval_cases(rng, tier):
    out = []
    for opt, vias in OPT_VIAS.items():
        for via, leaf in vias:
            ndim = (3 if '3' in via else 2) if opt == 'axis' else None
            doc = AXIS_DOC[ndim] if opt == 'axis' else OPT_DOC[opt]
            vals = list(doc)
            if (opt, via) not in OPT_PENDING:
                always, variants = _unknown_values(opt, ndim)
                vals += always
                if leaf or tier == 'thorough':
                    vals += variants
                else:
                    vals += rng.sample(variants, min(6, len(variants)))
            for v in vals:
                out.append({'kind': 'optval', 'opt': opt, 'via': via, 'v': _encv(v)})
    return out


# ---------------------------------------------------------------------------------------------------------------------
# min_n_cycles given in burst_kwargs and / or in the thresholds (kind 'min_n2')
MIN_N2_VALUES = [None, 0, 3, -1, -2]
MIN_N2_VIAS = ['compute_features', 'Bycycle', 'Bycycle_default', 'Group2', 'Group2_none', 'Group2_default', 'Group3', 'Group3_1',
               '2d', '2d_list', '2d_none', '2d_none_list', '3d', '3d_1', '3d_01', 'burst_features']
MIN_N2_QUIET = ('compute_features', 'Bycycle', '2d_none')     # also on a signal without any burst (shortcut paths)


def _min_n2_pending(c):
    """Input classes kept out of the generator until /repo is repaired (COMMON.md rule 5b): none at present.  The two classes
    excluded here as PENDING-DEFECT 1 / 2 (notes/wp/WP15_defect_{1,2}.md: amplitude method with a valid count in burst_kwargs and a
    negative one in the thresholds, whose entry was overwritten unseen; a negative count in burst_kwargs through
    compute_burst_features, never validated) are repaired in /repo 5602cfc, 890cd9b and generated and judged again."""
    return None


def _min_n2_cases(rng, tier):
    out = []
    for via in MIN_N2_VIAS:
        default_thr = via.endswith('_default') or via == 'burst_features'        # no thresholds argument at this entry point
        for method in ('amp', 'cycles'):
            if via == 'burst_features' and method == 'cycles':
                continue
            for b in (MIN_N2_VALUES if method == 'amp' else [None]):             # the cycles method does not read burst_kwargs
                for t in ([None] if default_thr else MIN_N2_VALUES):
                    for quiet in ((False, True) if via in MIN_N2_QUIET else (False,)):
                        c = {'kind': 'min_n2', 'via': via, 'method': method, 'bk': b, 'thr': t, 'quiet': quiet,
                             'first': rng.random() < 0.5}
                        if _min_n2_pending(c) is None:
                            out.append(c)
    return out


def _min_n2_dicts(c, good=False):
    """(burst_kwargs, thresholds) of one case; good = the same dictionaries without any count"""
    amp = c['method'] == 'amp'
    bk = {'amp_threshes': (5.0, 6.0) if c['quiet'] else (0.5, 1.5)} if amp else None
    thr = {'burst_fraction_threshold': 0.5} if amp else {'monotonicity_threshold': 1.0 if c['quiet'] else 0.5,
                                                          'amp_fraction_threshold': 0.99 if c['quiet'] else 0.0}

    def put(d, n):
        if n is None or good:
            return d
        return dict({'min_n_cycles': n}, **d) if c['first'] else dict(d, min_n_cycles=n)
    return (put(bk, c['bk']) if amp else None), put(thr, c['thr'])


def _run_min_n2(c):
    from bycycle.features import compute_features, compute_shape_features, compute_burst_features
    from bycycle.group import compute_features_2d, compute_features_3d
    from bycycle import Bycycle, BycycleGroup
    sig, fr, via, method = _sig(), (3, 8), c['via'], c['method']
    sigs2 = np.array([_sig(240, 0), _sig(240, 1)])
    sigs3 = np.array([[_sig(240, 0), _sig(240, 1)]])

    def cfk(good=False):
        bk, thr = _min_n2_dicts(c, good)
        d = {'burst_method': method, 'threshold_kwargs': thr}
        if bk is not None:
            d['burst_kwargs'] = bk
        return d

    bk, thr = _min_n2_dicts(c)
    if via == 'compute_features':
        return compute_features(sig, 100, fr, burst_method=method, burst_kwargs=bk, threshold_kwargs=thr)
    if via == 'burst_features':
        dfs = compute_shape_features(sig, 100, fr)
        return compute_burst_features(dfs, sig, burst_method='amp', burst_kwargs=dict(bk, fs=100, f_range=fr))
    if via.startswith(('Bycycle', 'Group')):
        kw = {'burst_method': method, 'burst_kwargs': bk}
        if not via.endswith('_default'):
            kw['thresholds'] = thr
        if via.startswith('Bycycle'):
            return Bycycle(**kw).fit(sig, 100, fr)
        fit = {'Group2': {}, 'Group2_none': {'axis': None}, 'Group2_default': {}, 'Group3': {}, 'Group3_1': {'axis': 1}}[via]
        return BycycleGroup(**kw).fit(sigs3 if via.startswith('Group3') else sigs2, 100, fr, n_jobs=1, **fit)
    if via == '2d':
        return compute_features_2d(sigs2, 100, fr, compute_features_kwargs=cfk(), n_jobs=1)
    if via == '2d_list':
        return compute_features_2d(sigs2, 100, fr, compute_features_kwargs=[cfk(True), cfk()], n_jobs=1)
    if via == '2d_none':
        return compute_features_2d(sigs2, 100, fr, compute_features_kwargs=cfk(), axis=None, n_jobs=1)
    if via == '2d_none_list':
        # one analysis of the flattened array with the first entry's options, then every entry's own thresholds: the counts go
        # into both entries
        return compute_features_2d(sigs2, 100, fr, compute_features_kwargs=[cfk(), cfk()], axis=None, n_jobs=1)
    if via == '3d':
        return compute_features_3d(sigs3, 100, fr, compute_features_kwargs=cfk(), n_jobs=1)
    if via == '3d_1':
        return compute_features_3d(sigs3, 100, fr, compute_features_kwargs=cfk(), axis=1, n_jobs=1)
    if via == '3d_01':
        return compute_features_3d(sigs3, 100, fr, compute_features_kwargs=[[cfk(True), cfk()]], axis=(0, 1), n_jobs=1)
    raise KeyError(via)



# ---------------------------------------------------------------------------------------------------------------------
# an invalid value of ONE setting crossed with non-default VALID values of the OTHER options of the same function
# (kind 'cross'): a validation must not depend on which other options are present
_D = '<default>'                             # first valid value of an optional parameter: the keyword is left out
X_EPS = 1e-9


def _x_fs():
    return {'valid': [100.0, 50.0, 128.0], 'bad': [-1.0, 0.0, -INF], 'stream': 'fs'}


def _x_min_n():
    return {'valid': [_D, 0, 1, 5], 'bad': [-1, -2], 'stream': 'min_n'}


def _x_thr():
    return {'valid': [_D, 0.0, 0.3, 1.0], 'bad': [-X_EPS, math.nextafter(1.0, 2.0), INF], 'stream': 'range01'}


def _x_filt():
    return {'valid': [_D, {'n_cycles': 5}, {'n_seconds': 0.5}], 'bad': []}


def _x_fx():
    return {'fx.boundary': {'valid': [_D, 1, 10], 'bad': []}, 'fx.pad': {'valid': [_D, False], 'bad': []},
            'fx.filter_kwargs': _x_filt()}


def _x_bk():
    return {'amp_threshes': {'valid': [_D, (0.5, 1.5), (0.0, 3.0), (1.0, 1.0)],
                             'bad': [(2.0, 1.0), (-0.1, 1.0), (1.0 + X_EPS, 1.0)], 'stream': 'ampthr'},
            'min_n_cycles': _x_min_n(), 'min_burst_duration': {'valid': [_D, 0.1, 0.5], 'bad': []},
            'filter_kwargs': _x_filt()}


def _x_centre():
    return {'valid': [_D, 'trough'], 'bad': ['x', None, 'Peak'], 'stream': 'optval', 'coq': 'OCenter'}


CF_VIAS = ['compute_features', 'Bycycle', 'Group2', 'Group3', '2d', '2d_list', '2d_none', '3d', '3d_1', '3d_01']
X_CF_ROTATING = ['Group3', '2d', '3d', '3d_1']            # quick tier: one of these per run (seeded), thorough: all
X_FULL_VIAS = ('leaf', 'compute_features', 'burst_features', 'cyclepoints')       # every row x every invalid value in both tiers


def _x_spec():
    thr4 = ['amp_fraction_threshold', 'amp_consistency_threshold', 'period_consistency_threshold', 'monotonicity_threshold']
    sp = {}
    sp['burst_fraction'] = {'vias': ['leaf', 'burst_features'], 'params': dict({'fs': _x_fs()}, **_x_bk())}
    sp['find_extrema'] = {'vias': ['leaf', 'cyclepoints'], 'params': {
        'fs': _x_fs(), 'boundary': {'valid': [_D, 1, 10], 'bad': []},
        'first_extrema': {'valid': [_D, 'trough', None], 'bad': ['x', '', 'Peak', 0], 'stream': 'optval', 'coq': 'OFirstExtrema'},
        'pad': {'valid': [_D, False], 'bad': []}, 'filter_kwargs': _x_filt()}}
    sp['shape'] = {'vias': ['leaf'], 'params': dict({'fs': _x_fs(), 'center_extrema': _x_centre(),
                                                      'n_cycles': {'valid': [_D, 2, 5], 'bad': [-1, -2.5], 'stream': 'range0inf'}},
                                                     **_x_fx())}
    sp['band_amp'] = {'vias': ['leaf'], 'params': {'fs': _x_fs(),
                                                   'n_cycles': {'valid': [_D, 2, 5], 'bad': [-1, -2.5], 'stream': 'range0inf'}}}
    sp['cycles'] = {'vias': ['leaf'], 'params': dict({k: _x_thr() for k in thr4}, min_n_cycles=_x_min_n())}
    sp['amp'] = {'vias': ['leaf'], 'params': {'burst_fraction_threshold': _x_thr(), 'min_n_cycles': _x_min_n()}}
    # start / stop are not named by the property: their invalid values are compared with the model only ('noverdict')
    sp['limit_df'] = {'vias': ['leaf'], 'params': {
        'fs': _x_fs(), 'start': {'valid': [_D, 0.0, 0.2], 'bad': [-0.1], 'stream': 'start', 'noverdict': True},
        'stop': {'valid': [_D, 1.0, 2.0], 'bad': [-1.0], 'stream': 'stop', 'noverdict': True},
        'reset_indices': {'valid': [_D, False], 'bad': []}}}
    top = {'fs': _x_fs(), 'center_extrema': _x_centre()}
    sp['cf_cycles'] = {'vias': CF_VIAS, 'params': dict(
        top, burst_method={'valid': [_D, 'cycles'], 'bad': ['x', None, ''], 'stream': 'optval', 'coq': 'OBurstMethod'},
        **dict({'thr.' + k: _x_thr() for k in thr4}, **{'thr.min_n_cycles': _x_min_n()}),
        **_x_fx(), return_samples={'valid': [_D, False], 'bad': []})}
    sp['cf_amp'] = {'vias': CF_VIAS, 'params': dict(
        top, burst_method={'valid': ['amp'], 'bad': ['x', None, ''], 'stream': 'optval', 'coq': 'OBurstMethod'},
        **{'thr.burst_fraction_threshold': _x_thr(), 'thr.min_n_cycles': _x_min_n()},
        **{'bk.' + k: v for k, v in _x_bk().items()}, **_x_fx(), return_samples={'valid': [_D, False], 'bad': []})}
    return sp


X_SPEC = _x_spec()
# a documented value that one forwarding entry point cannot take (see OPT_NO_VERDICT_VALUES): kept at its default there
X_VIA_FIXED = {('find_extrema', 'cyclepoints'): {'first_extrema'}}


def _x_rows(rng, params, focus, fixed, n_random):
    """Settings of the OTHER options (index into 'valid'; 0 = default, left out).  'rot' rows: every other option at a
    non-default valid value, rotating so that every (option, value) occurs; 'one' rows: exactly one other option at a
    non-default value; 'rnd' rows: each other option at a seeded value (default included)."""
    others = [q for q in params if q != focus and q not in fixed and len(params[q]['valid']) > 1]
    rot, one, rnd = [], [], []
    if others:
        off = {q: rng.randrange(8) for q in others}
        for j in range(max(len(params[q]['valid']) - 1 for q in others)):
            rot.append({q: 1 + (j + off[q]) % (len(params[q]['valid']) - 1) for q in others})
        for q in others:
            for w in range(1, len(params[q]['valid'])):
                one.append({q: w})
        for _ in range(n_random):
            r = {q: rng.randrange(len(params[q]['valid'])) for q in others}
            rnd.append({q: w for q, w in r.items() if w})
    return rot, one, rnd


def _x_show(fn, c):
    return ', '.join('%s=%r' % kv for kv in sorted(_x_vals(c).items(), key=lambda kv: kv[0] != c['focus']))


def _cross_cases(rng, tier):
    out = []

    def put(fn, via, focus, fk, fi, ctx):
        c = {'kind': 'cross', 'fn': fn, 'via': via, 'focus': focus, 'fk': fk, 'fi': fi, 'ctx': dict(ctx)}
        c['show'] = _x_show(fn, c)
        out.append(c)

    for fn, sp in X_SPEC.items():
        params = sp['params']
        vias = list(sp['vias'])
        if tier == 'quick' and vias == CF_VIAS:
            # 3-D group / plain dict entry points hand every signal to compute_features like their 2-D siblings: one of them per run
            vias = [v for v in vias if v not in X_CF_ROTATING] + [rng.choice(X_CF_ROTATING)]
        for via in vias:
            fixed = X_VIA_FIXED.get((fn, via), set())
            full = via in X_FULL_VIAS or tier == 'thorough'
            for focus, ps in params.items():
                rot, one, rnd = _x_rows(rng, params, focus, fixed, 2 if full else 1)
                nb = len(ps['bad'])
                if nb and full:
                    for row in rot + one + rnd:
                        for i in range(nb):
                            put(fn, via, focus, 'bad', i, row)
                elif nb:
                    # forwarding entry points, quick tier: the rotating rows (every other option x every non-default value)
                    # with the invalid values taken in turn, plus a seeded third of the single-option rows
                    rows = list(rot)
                    while rows and len(rows) < nb:
                        rows.append(rot[len(rows) % len(rot)])
                    o = rng.randrange(nb)
                    for j, row in enumerate(rows):
                        put(fn, via, focus, 'bad', (j + o) % nb, row)
                    for row in rng.sample(one, (len(one) + 2) // 3) + rnd:
                        put(fn, via, focus, 'bad', rng.randrange(nb), row)
                # the valid values of the focus (0 = the control of the rows above) in the first rotating row
                if focus not in fixed and (via in X_FULL_VIAS or via == 'Bycycle' or tier == 'thorough'):
                    for i in range(len(ps['valid'])):
                        put(fn, via, focus, 'valid', i, rot[0] if rot else {})
    return out


def _x_vals(c, control=False):
    """name -> value of every option that is passed (defaults left out); control: the focus at its first valid value"""
    params = X_SPEC[c['fn']]['params']
    vals = {}
    for q, ps in params.items():
        if q == c['focus']:
            v = ps['valid'][0] if control else ps[c['fk']][c['fi']]
        else:
            v = ps['valid'][c['ctx'].get(q, 0)]
        if not (isinstance(v, str) and v == _D):
            vals[q] = v
    return vals


def _x_sub(vals, prefix):
    import copy
    return {k[len(prefix):]: copy.deepcopy(v) for k, v in vals.items() if k.startswith(prefix)}


_X_CACHE = {}


def _x_cached(key, f):
    if key not in _X_CACHE:
        _X_CACHE[key] = f()
    return _X_CACHE[key]


def _x_call(fn, via, vals):
    """One call of the entry point `via` of function family `fn` with the options `vals`."""
    import copy
    from bycycle.features import compute_features, compute_shape_features, compute_cyclepoints, compute_burst_features
    sig, fr = _sig(), (3, 8)
    vals = copy.deepcopy(vals)
    if fn == 'burst_fraction':
        from bycycle.features.burst import compute_burst_fraction
        dfs = _x_cached('cyclepoints', lambda: compute_cyclepoints(sig, 100, fr)).copy()
        fs = vals.pop('fs')
        if via == 'leaf':
            return compute_burst_fraction(dfs, sig, fs, fr, **vals)
        return compute_burst_features(dfs, sig, burst_method='amp', burst_kwargs=dict(vals, fs=fs, f_range=fr))
    if fn == 'find_extrema':
        fs = vals.pop('fs')
        if via == 'leaf':
            from bycycle.cyclepoints import find_extrema
            return find_extrema(sig, fs, fr, **vals)
        return compute_cyclepoints(sig, fs, fr, **vals)
    if fn == 'shape':
        fx = _x_sub(vals, 'fx.')
        kw = {k: v for k, v in vals.items() if not k.startswith('fx.') and k != 'fs'}
        if fx:
            kw['find_extrema_kwargs'] = fx
        return compute_shape_features(sig, vals['fs'], fr, **kw)
    if fn == 'band_amp':
        from bycycle.features.shape import compute_band_amp
        dfs = _x_cached('cyclepoints', lambda: compute_cyclepoints(sig, 100, fr)).copy()
        fs = vals.pop('fs')
        return compute_band_amp(dfs, sig, fs, fr, **vals)
    if fn == 'cycles':
        from bycycle.burst import detect_bursts_cycles
        return detect_bursts_cycles(_frame(), **vals)
    if fn == 'amp':
        from bycycle.burst import detect_bursts_amp
        return detect_bursts_amp(_frame(), **vals)
    if fn == 'limit_df':
        from bycycle.utils import limit_df
        df = _x_cached('features', lambda: compute_features(sig, 100, fr, threshold_kwargs=dict(_PLOT_THR))).copy()
        fs = vals.pop('fs')
        return limit_df(df, fs, **vals)
    # compute_features and everything that forwards to it
    fs = vals['fs']

    def cfk(v):
        kw = {k: copy.deepcopy(v[k]) for k in ('center_extrema', 'burst_method') if k in v}
        kw['threshold_kwargs'] = _x_sub(v, 'thr.')
        if _x_sub(v, 'bk.'):
            kw['burst_kwargs'] = _x_sub(v, 'bk.')
        if _x_sub(v, 'fx.'):
            kw['find_extrema_kwargs'] = _x_sub(v, 'fx.')
        return kw

    kw = cfk(vals)
    rs = {'return_samples': vals['return_samples']} if 'return_samples' in vals else {}
    if via == 'compute_features':
        return compute_features(sig, fs, fr, **kw, **rs)
    if via in ('Bycycle', 'Group2', 'Group3'):
        okw = dict({k: v for k, v in kw.items() if k != 'threshold_kwargs'}, thresholds=kw['threshold_kwargs'], **rs)
        if via == 'Bycycle':
            from bycycle import Bycycle
            return Bycycle(**okw).fit(sig, fs, fr)
        from bycycle import BycycleGroup
        sigs = np.array([_sig(240, 0), _sig(240, 1)])
        return BycycleGroup(**okw).fit(sigs if via == 'Group2' else np.array([sigs]), fs, fr, n_jobs=1)
    from bycycle.group import compute_features_2d, compute_features_3d
    sigs2 = np.array([_sig(240, 0), _sig(240, 1)])
    sigs3 = np.array([sigs2])
    if via == '2d':
        return compute_features_2d(sigs2, fs, fr, compute_features_kwargs=kw, n_jobs=1, **rs)
    if via == '2d_list':
        # the other entry: the same options with every setting of this case that has a default left at it
        first = cfk({k: v for k, v in vals.items() if X_SPEC[fn]['params'][k]['valid'][0] != _D})
        return compute_features_2d(sigs2, fs, fr, compute_features_kwargs=[first, kw], n_jobs=1, **rs)
    if via == '2d_none':
        return compute_features_2d(sigs2, fs, fr, compute_features_kwargs=kw, axis=None, n_jobs=1, **rs)
    if via == '3d':
        return compute_features_3d(sigs3, fs, fr, compute_features_kwargs=kw, n_jobs=1, **rs)
    if via == '3d_1':
        return compute_features_3d(sigs3, fs, fr, compute_features_kwargs=kw, axis=1, n_jobs=1, **rs)
    if via == '3d_01':
        first = cfk({k: v for k, v in vals.items() if X_SPEC[fn]['params'][k]['valid'][0] != _D})
        return compute_features_3d(sigs3, fs, fr, compute_features_kwargs=[[first, kw]], axis=(0, 1), n_jobs=1, **rs)
    raise KeyError(via)


def _run_cross(c):
    o = _attempt(lambda: _x_call(c['fn'], c['via'], _x_vals(c)))
    if c['fk'] == 'bad':
        # the same call with the focus at its first valid value: is the CONTEXT (the other options) accepted at all?
        key = 'ctl|%s|%s|%s|%s' % (c['fn'], c['via'], c['focus'], sorted(c['ctx'].items()))
        o['ctl'] = _x_cached(key, lambda: _attempt(lambda: _x_call(c['fn'], c['via'], _x_vals(c, control=True)))['r'])
    return o


def _x_param(c):
    return X_SPEC[c['fn']]['params'][c['focus']]


def _x_model(c):
    """(stream, input literal) of the model function that judges the focus value alone"""
    ps = _x_param(c)
    v = ps[c['fk']][c['fi']]
    st = ps.get('stream')
    if st is None or (isinstance(v, str) and v == _D):
        return None
    if st == 'fs':
        return 'fs', coqio.fl(float(v))
    if st == 'min_n':
        return 'min_n', '%s%%Z' % coqio.Z(v)
    if st == 'range01':
        return 'range', '(%s, 0, 1)' % coqio.fl(float(v))
    if st == 'range0inf':
        return 'range', '(%s, 0, infinity)' % coqio.fl(float(v))
    if st == 'ampthr':
        return 'ampthr', '(%s, %s)' % (coqio.fl(float(v[0])), coqio.fl(float(v[1])))
    if st in ('start', 'stop'):
        other = _x_vals(c).get('stop' if st == 'start' else 'start')
        if st == 'start':
            return 'range', '(%s, 0, %s)' % (coqio.fl(float(v)), 'infinity' if other is None else coqio.fl(float(other)))
        return 'range', '(%s, %s, infinity)' % (coqio.fl(float(v)), coqio.fl(0.0 if other is None else float(other)))
    if st == 'optval':
        pv = _pyval(v)
        return None if pv is None else ('optval', '(%s, %s)' % (ps['coq'], pv))
    return None


class _SerialPool:
    """Stand-in for multiprocessing.Pool inside bycycle.group.features while settings are validated: same interface as
    used there (context manager + imap), the work done in this process.  Reason: `with Pool(...)` leaves through
    Pool.terminate() when a worker's ValueError propagates, and CPython's terminate() can dead-lock when the worker is
    killed while it still holds the result-queue lock (under load: about one in a few hundred rejected calls, each stall
    costing the watchdog's 150 s); this property sends hundreds of rejected settings through the group functions per
    run.  What is validated, and where, is unchanged; real pools are exercised by C11 / C12."""

    def __init__(self, *args, **kwargs):
        pass

    def __enter__(self):
        return self

    def __exit__(self, *exc):
        return False

    def imap(self, func, iterable, chunksize=1):
        return map(func, iterable)


class _serial_pools:
    """In-process, restored afterwards; if the module no longer has a name `Pool` nothing is replaced."""

    def __enter__(self):
        self.mod, self.old = None, None
        try:
            import bycycle.group.features as gf
            if hasattr(gf, 'Pool'):
                self.mod, self.old = gf, gf.Pool
                gf.Pool = _SerialPool
        except ImportError:
            pass
        return self

    def __exit__(self, *exc):
        if self.mod is not None:
            self.mod.Pool = self.old
        return False


def _run_optval(opt, via, v):
    """One call of a public entry point with option `opt` = v."""
    from bycycle.features import compute_features, compute_shape_features, compute_cyclepoints, compute_burst_features
    from bycycle.group import compute_features_2d, compute_features_3d
    sig, fr = _sig(), (3, 8)

    def sigs2():
        return np.array([_sig(240, 0), _sig(240, 1)])

    def sigs3():
        return np.array([[_sig(240, 0), _sig(240, 1)]])

    def grp(ndim, kw, **fit):
        from bycycle import BycycleGroup
        kw.setdefault('thresholds', {})
        return BycycleGroup(**kw).fit(sigs2() if ndim == 2 else sigs3(), 100, fr, n_jobs=1, **fit)

    def via_group_functions(key, good):
        """The option inside compute_features_kwargs of the group functions."""
        if via == '2d':
            return compute_features_2d(sigs2(), 100, fr, compute_features_kwargs={key: v}, n_jobs=1)
        if via == '2d_list':
            return compute_features_2d(sigs2(), 100, fr, compute_features_kwargs=[{key: good}, {key: v}], n_jobs=1)
        if via == '2d_none':
            return compute_features_2d(sigs2(), 100, fr, compute_features_kwargs={key: v}, axis=None, n_jobs=1)
        if via == '2d_none_list':
            # one analysis of the flattened array with the first entry's options: a documented value goes into both entries
            first = v if any(_exact(v, d) for d in OPT_DOC[opt]) else good
            return compute_features_2d(sigs2(), 100, fr, compute_features_kwargs=[{key: first}, {key: v}], axis=None, n_jobs=1)
        if via == '3d':
            return compute_features_3d(sigs3(), 100, fr, compute_features_kwargs={key: v}, n_jobs=1)
        if via == '3d_1':
            return compute_features_3d(sigs3(), 100, fr, compute_features_kwargs={key: v}, axis=1, n_jobs=1)
        if via == '3d_01':
            return compute_features_3d(sigs3(), 100, fr, compute_features_kwargs=[[{key: good}, {key: v}]], axis=(0, 1), n_jobs=1)
        raise KeyError(via)

    if opt in ('centre', 'burst_method'):
        key = 'center_extrema' if opt == 'centre' else 'burst_method'
        if via == 'shape':
            return compute_shape_features(sig, 100, fr, center_extrema=v)
        if via == 'burst_features':
            dfs = compute_shape_features(sig, 100, fr)
            return compute_burst_features(dfs, sig, burst_method=v, burst_kwargs={'fs': 100, 'f_range': fr})
        if via == 'compute_features':
            return compute_features(sig, 100, fr, threshold_kwargs={}, **{key: v})
        if via == 'Bycycle':
            from bycycle import Bycycle
            return Bycycle(thresholds={}, **{key: v}).fit(sig, 100, fr)
        if via in ('Group2', 'Group3'):
            return grp(int(via[-1]), {key: v})
        return via_group_functions(key, OPT_DOC[opt][0])
    if opt == 'first_extrema':
        if via == 'find_extrema':
            from bycycle.cyclepoints import find_extrema
            return find_extrema(sig, 100, fr, first_extrema=v)
        if via == 'cyclepoints':
            return compute_cyclepoints(sig, 100, fr, first_extrema=v)
        if via == 'shape':
            return compute_shape_features(sig, 100, fr, find_extrema_kwargs={'first_extrema': v})
        return compute_features(sig, 100, fr, find_extrema_kwargs={'first_extrema': v}, threshold_kwargs={})
    if opt == 'direction':
        from bycycle.features.burst import compute_amp_consistency, compute_period_consistency
        from bycycle.burst.utils import recompute_edge
        df = compute_features(sig, 100, fr, threshold_kwargs={})
        if via == 'amp':
            return compute_amp_consistency(df, direction=v)
        if via == 'period':
            return compute_period_consistency(df, direction=v)
        return recompute_edge(df.copy(), 2, v)
    if opt == 'progress':
        if via == 'progress_bar':
            from bycycle.group.utils import progress_bar
            return list(progress_bar(iter([1, 2]), v, 2))
        if via == '2d':
            return compute_features_2d(sigs2(), 100, fr, n_jobs=1, progress=v)
        if via == '2d_none':
            return compute_features_2d(sigs2(), 100, fr, n_jobs=1, progress=v, axis=None)
        if via == '3d':
            return compute_features_3d(sigs3(), 100, fr, n_jobs=1, progress=v)
        if via == '3d_1':
            return compute_features_3d(sigs3(), 100, fr, n_jobs=1, progress=v, axis=1)
        if via == '3d_01':
            return compute_features_3d(sigs3(), 100, fr, n_jobs=1, progress=v, axis=(0, 1))
        if via == 'Group2':
            return grp(2, {}, progress=v)
        if via == 'Group2_none':
            return grp(2, {}, progress=v, axis=None)
        return grp(3, {}, progress=v)
    if opt == 'axis':
        if via == '2d':
            return compute_features_2d(sigs2(), 100, fr, n_jobs=1, axis=v)
        if via == '3d':
            return compute_features_3d(sigs3(), 100, fr, n_jobs=1, axis=v)
        return grp(int(via[-1]), {}, axis=v)
    raise KeyError(opt)


def _optval_expected(c):
    opt, via, v = c['opt'], c['via'], _decv(c['v'])
    doc = AXIS_DOC[3 if '3' in via else 2] if opt == 'axis' else OPT_DOC[opt]
    if (opt, via) in OPT_NO_VERDICT or _no_verdict_value(opt, via, v):
        return None
    if any(_exact(v, d) for d in doc):
        return True
    if any(_pyeq(v, d) for d in doc):
        return None                          # e.g. axis=False / 0.0: equal to the documented 0 for Python, another type
    return False


def _axis_class(v):
    for d, name in ((0, 'Ax0'), (1, 'Ax1'), ((0, 1), 'Ax01')):
        if _pyeq(v, d):
            return name
    return 'AxNone' if v is None else 'AxOther'


def _coq_str(x):
    return '"%s"%%string' % x.replace('"', '""')


def _pyval(v):
    """Model/Validate.v pyval literal (None when the value has no literal: non-ASCII text, nested containers)."""
    if v is None:
        return 'PNone'
    if isinstance(v, bool):
        return '(PBool %s)' % coqio.B(v)
    if isinstance(v, int):
        return '(PInt %s%%Z)' % coqio.Z(v)
    if isinstance(v, float):
        return '(PFloat %s)' % coqio.fl(v)
    if isinstance(v, (str, bytes)):
        t = v if isinstance(v, str) else v.decode('latin1')
        if not all(32 <= ord(ch) < 127 for ch in t):
            return None
        return '(%s %s)' % ('PStr' if isinstance(v, str) else 'PBytes', _coq_str(t))
    if isinstance(v, (tuple, list)):
        items = []
        for x in v:
            if x is None:
                items.append('None')
            elif isinstance(x, str) and all(32 <= ord(ch) < 127 for ch in x):
                items.append('(Some %s)' % _coq_str(x))
            else:
                return None
        return '(%s %s)' % ('PTuple' if isinstance(v, tuple) else 'PList', coqio.lst(items))
    return None


def _valid_entry(g):
    d, kw, a = g['dims'], g['kw'], g['axis']
    if d[0] == 'D2':
        return a in ('0', 'None') and kw == ['K1', d[1]]
    return (a == '0' and kw == ['K1', d[1]]) or (a == '1' and kw == ['K1', d[2]]) or (a == '01' and kw == ['K2', d[1], d[2]])


BIG_EXTENTS = [256, 257, 300, 1000]          # around and beyond one byte; the rule has no upper bound on extents


def _big_shape_grid(rng, tier):
    """LARGE extents for the decision function alone (no analysis: arrays of zeros, lists of that many dicts): 2-D arrays
    with 256 ... 1000 rows (plus seeded extents), 3-D arrays with one large first / second dimension and with n0 * n1 > 256
    from two moderate ones; lists of exactly the documented shape, off by one in either dimension, transposed, of the
    flattened length, shorter / longer by 256, capped at 255 / 256, half, double; every axis value.  Same case format as the small grid (kind 'shape')."""
    extra = sorted(rng.sample(range(258, 1200), 2 if tier == 'quick' else 8))
    out = []
    for n in BIG_EXTENTS + extra:
        kws = {('KNone',), ('KDict',), ('K1', n - 1), ('K1', n), ('K1', n + 1), ('K2', n, 1), ('K2', 1, n), ('K2', n, 2),
               ('K1', 1), ('K1', 255), ('K1', 256), ('K1', n - 256), ('K1', n + 256), ('K1', n // 2), ('K1', 2 * n)}
        for k in sorted(kws):
            if any(x < 1 for x in k[1:]):
                continue
            for a in AXES:
                out.append({'dims': ['D2', n], 'kw': list(k), 'axis': a})
    m = rng.choice([3, 4, 5])
    pairs = [(257, 1), (1, 257), (300, 2), (2, 300), (16, 17), (17, 16), (20, 13), (1000, 1), (1, 1000), (256, m), (m, 256)]
    pairs += [(extra[0], 1), (2, extra[-1])]
    for n0, n1 in pairs:
        kws = {('KNone',), ('KDict',), ('K1', n0 * n1), ('K2', n0, n1), ('K2', n1, n0), ('K2', n0 * n1, 1), ('K2', 1, n0 * n1)}
        for d in (-1, 0, 1, -256, 256):                   # off by one; off by 256 (a length that wraps around in one byte)
            kws |= {('K1', n0 + d), ('K1', n1 + d), ('K2', n0 + d, n1), ('K2', n0, n1 + d)}
        kws |= {('K1', 256), ('K2', min(n0, 256), min(n1, 256)), ('K2', min(n0, 255), min(n1, 255))}
        for k in sorted(kws):
            if any(x < 1 for x in k[1:]) or (k[0] == 'K2' and k[1] * k[2] > 4000):
                continue                                  # empty lists are outside the quantifier; keep the lists moderate
            for a in AXES:
                out.append({'dims': ['D3', n0, n1], 'kw': list(k), 'axis': a})
    return out


def _big_entry_cases(rng, tier):
    """A few REAL entry-point calls on about 260 short signals (240 samples each; ~2 s per accepted call): the documented
    list shape (accepted, analysed) and its off-by-one neighbours (rejected before any analysis), and BycycleGroup.fit
    on such arrays."""
    n = rng.choice([257, 258, 260, 263])
    out = []
    for dims, ax, good in ((['D2', n], '0', ['K1', n]), (['D2', 257], 'None', ['K1', 257]),
                           (['D3', 20, 13], '01', ['K2', 20, 13]), (['D3', 257, 1], '0', ['K1', 257]),
                           (['D3', 1, n], '1', ['K1', n])):
        bad = [[good[0]] + [x + d if q == p else x for q, x in enumerate(good[1:])]
               for p in range(len(good) - 1) for d in (-1, 1, -256, 256) if good[1 + p] + d >= 1]
        if good[0] == 'K2':
            bad.append(['K1', good[1] * good[2]])
        else:
            bad.append(['K2', good[1], 1])
        for kw in [good] + bad:
            out.append({'kind': 'entry', 'via': 'func', 'dims': dims, 'kw': kw, 'axis': ax, 'big': True})
    for dims, ax in ((['D2', 258], '0'), (['D3', 17, 16], '01')) + ((['D3', 1, 257], '1'), (['D3', 259, 1], '0'),) * (tier != 'quick'):
        out.append({'kind': 'entry', 'via': 'group', 'dims': dims, 'kw': ['KDict'], 'axis': ax, 'big': True})
    return out


def cases(rng, tier):
    out = []
    grid = list(_grid())
    for g in grid:
        if g['kw'][0] != 'KRagged':          # a ragged list never reaches check_kwargs_shape as an array: entry points only
            out.append(dict(g, kind='shape'))
    # entry points.  (a) every array class x axis through BycycleGroup.fit (its options are one dictionary)
    for g in grid:
        if g['kw'] == ['KDict']:
            out.append(dict(g, kind='entry', via='group'))
    # (b) every valid list-shaped combination, (c) every 3-D array x 2-D list x axis 0 / 1, through the functions
    always = [g for g in grid if _valid_entry(g) or (g['dims'][0] == 'D3' and g['kw'][0] == 'K2' and g['axis'] in ('0', '1'))]
    rest = [g for g in grid if g not in always]
    for g in always + (rest if tier == 'thorough' else rng.sample(rest, 100)):
        out.append(dict(g, kind='entry', via='func'))
    eps = 1e-9
    for name in ['amp_fraction_threshold', 'amp_consistency_threshold', 'period_consistency_threshold',
                 'monotonicity_threshold', 'burst_fraction_threshold']:
        for v in [-eps, -5e-324, 0.0, -0.0, eps, 0.5, 1.0 - eps, 1.0, math.nextafter(1.0, 2.0), 1.0 + eps, 2.0, -1.0,
                  INF, -INF, float('nan')]:
            out.append({'kind': 'range', 'param': name, 'v': _enc(v), 'lo': 0.0, 'hi': 1.0})
    for n in [-2, -1, -0.5, 0, 1, 3, -INF]:
        for quiet in (False, True):          # quiet: no cycle passes the thresholds (shortcut paths must still validate)
            for via in ('cycles', 'amp', 'filter', 'compute_features'):
                out.append({'kind': 'min_n', 'n': _enc(n), 'via': via, 'quiet': quiet})
    for lo, hi in [(1, 2), (2, 1), (-0.1, 1), (1, 1), (0.5, 1.5), (0, 2), (1.0 + eps, 1.0), (-eps, 0.5), (3, 2.999), (-INF, 1), (INF, 1)]:
        out.append({'kind': 'ampthr', 'lo': _enc(float(lo)), 'hi': _enc(float(hi))})
    for via in FS_VIAS:
        for fs in [-1.0, -eps, 0.0, -0.0, -INF, float('nan'), 100.0]:
            out.append({'kind': 'fs', 'fs': _enc(fs), 'via': via})
    for cls in ('Bycycle', 'Group2', 'Group3'):
        for i in range(len(OBJ_SETTINGS)):
            out.append({'kind': 'obj', 'cls': cls, 'setting': i})
    for opt, vals in [('center_extrema', ['peak', 'trough', 'centre', None]), ('burst_method', ['cycles', 'amp', 'both', None]),
                      ('first_extrema', ['peak', 'trough', None, 'rise']), ('direction_amp', ['both', 'next', 'last', 'prev']),
                      ('direction_period', ['both', 'next', 'last', 'prev']), ('direction_edge', ['both', 'next', 'last', 'prev']),
                      ('progress', [None, 'tqdm', 'tqdm.notebook', 'bar']), ('fit_dim', [1, 2, 0]), ('group_dim', [2, 3, 1, 4]),
                      ('plot_fitted', [True, False]), ('shape_center', ['peak', 'trough', 'x']), ('shape_n_cycles', [3, 1, -1, -INF]),
                      ('band_amp_n_cycles', [3, -2]),
                      ('burst_features_method', ['cycles', 'amp', 'x']), ('first_extrema_override', ['trough'])]:
        for v in vals:
            out.append({'kind': 'option', 'opt': opt, 'v': _enc(v)})
    out.extend(_optval_cases(rng, tier))
    out.extend(_min_n2_cases(rng, tier))
    # large extents last (their own draws come after all others: the streams above are as before)
    out.extend(dict(g, kind='shape', big=True) for g in _big_shape_grid(rng, tier))
    out.extend(_big_entry_cases(rng, tier))
    # one invalid setting x non-default valid values of the other options (own draws after all others)
    out.extend(_cross_cases(rng, tier))
    return out


_SIG = None


def _sig(n=240, k=0):
    t = np.arange(n)
    rng = np.random.default_rng(7 + k)
    return np.sin(2 * np.pi * t / 20 + 0.3 * k) * (1 + 0.2 * np.sin(2 * np.pi * t / 97)) + 0.05 * rng.standard_normal(n)


def _kwargs_obj(kw):
    d = {'center_extrema': 'peak'}
    if kw[0] == 'KNone':
        return None
    if kw[0] == 'KDict':
        return dict(d)
    if kw[0] == 'K1':
        return [dict(d) for _ in range(kw[1])]
    if kw[0] == 'K2':
        return [[dict(d) for _ in range(kw[2])] for _ in range(kw[1])]
    if kw[0] == 'K3':
        return [[[dict(d), dict(d)], [dict(d), dict(d)]], [[dict(d), dict(d)], [dict(d), dict(d)]]]
    return [[dict(d), dict(d)], [dict(d)]]


def _sigs(dims):
    if dims[0] == 'D2':
        return np.array([_sig(240, i) for i in range(dims[1])])
    w = max(3, dims[2])
    return np.array([[_sig(240, i * w + j) for j in range(dims[2])] for i in range(dims[1])])


def _attempt(f):
    try:
        f()
        return {'r': 'ok'}
    except Exception as e:
        return {'r': exc_kind(e), 'msg': str(e)[:120]}


def _frame():
    import pandas as pd
    return pd.DataFrame({'amp_fraction': [.5, .6, .7, .8], 'amp_consistency': [np.nan, .6, .7, np.nan],
                         'period_consistency': [np.nan, .6, .7, np.nan], 'monotonicity': [.9, .9, .9, .9],
                         'burst_fraction': [1., 1., 0., 1.]})


_PLOT_THR = {'amp_fraction_threshold': 0., 'amp_consistency_threshold': .5, 'period_consistency_threshold': .5,
             'monotonicity_threshold': .8}


def _run_fs(via, fs):
    sig = _sig()
    fr = (3, 8)
    from bycycle.features import compute_features, compute_cyclepoints, compute_shape_features, compute_burst_features
    if via == 'compute_features':
        return _attempt(lambda: compute_features(sig, fs, fr, threshold_kwargs={}))
    if via == 'find_extrema':
        from bycycle.cyclepoints import find_extrema
        return _attempt(lambda: find_extrema(sig, fs, fr))
    if via == 'cyclepoints':
        return _attempt(lambda: compute_cyclepoints(sig, fs, fr))
    if via == 'shape':
        return _attempt(lambda: compute_shape_features(sig, fs, fr))
    if via == 'band_amp':
        from bycycle.features.shape import compute_band_amp
        dfs = compute_cyclepoints(sig, 100, fr)
        return _attempt(lambda: compute_band_amp(dfs, sig, fs, fr))
    if via == 'burst_features_amp':
        dfs = compute_shape_features(sig, 100, fr)
        return _attempt(lambda: compute_burst_features(dfs, sig, burst_method='amp', burst_kwargs={'fs': fs, 'f_range': fr}))
    if via == 'burst_fraction':
        from bycycle.features.burst import compute_burst_fraction
        dfs = compute_cyclepoints(sig, 100, fr)
        return _attempt(lambda: compute_burst_fraction(dfs, sig, fs, fr))
    if via == 'bycycle_fit':
        from bycycle import Bycycle
        return _attempt(lambda: Bycycle(thresholds={'min_n_cycles': 3}).fit(sig, fs, fr))
    if via in ('group_fit2', 'group_fit3', 'features_2d', 'features_3d'):
        sigs = np.array([_sig(240, 0), _sig(240, 1)])
        if via.endswith('3') or via.endswith('3d'):
            sigs = np.array([sigs])
        if via.startswith('group'):
            from bycycle import BycycleGroup
            return _attempt(lambda: BycycleGroup(thresholds={'min_n_cycles': 3}).fit(sigs, fs, fr, n_jobs=1))
        from bycycle.group import compute_features_2d, compute_features_3d
        fn = compute_features_2d if sigs.ndim == 2 else compute_features_3d
        return _attempt(lambda: fn(sigs, fs, fr, n_jobs=1))
    df = compute_features(sig, 100, fr, threshold_kwargs=dict(_PLOT_THR))
    if via == 'limit_df':
        from bycycle.utils import limit_df
        return _attempt(lambda: limit_df(df, fs, start=0.1, stop=1.0))
    import matplotlib.pyplot as plt
    from bycycle import plts
    try:
        if via == 'plot_df':
            return _attempt(lambda: plts.plot_cyclepoints_df(df, sig, fs))
        if via == 'plot_array':
            return _attempt(lambda: plts.plot_cyclepoints_array(sig, fs, peaks=df['sample_peak'].values))
        if via == 'plot_summary':
            return _attempt(lambda: plts.plot_burst_detect_summary(df, sig, fs, dict(_PLOT_THR)))
        if via == 'plot_param':
            return _attempt(lambda: plts.plot_burst_detect_param(df, sig, fs, 'monotonicity', .8))
    finally:
        plt.close('all')
    return {'harness_error': 'unknown fs entry point'}


def run_impl(c):
    with _serial_pools():
        return _run_impl(c)


def _run_impl(c):
    import warnings
    warnings.simplefilter('ignore')
    k = c['kind']
    if k == 'shape':
        from bycycle.group.utils import check_kwargs_shape
        sigs = np.zeros((c['dims'][1], 5)) if c['dims'][0] == 'D2' else np.zeros((c['dims'][1], c['dims'][2], 5))
        obj = _kwargs_obj(c['kw'])
        kw = np.array(obj) if isinstance(obj, list) else obj          # homogeneous lists only (see cases)
        return _attempt(lambda: check_kwargs_shape(sigs, kw, AXES[c['axis']]))
    if k == 'entry':
        sigs = _sigs(c['dims'])
        obj = _kwargs_obj(c['kw'])
        ax = AXES[c['axis']]
        if c['via'] == 'group':
            from bycycle import BycycleGroup
            return _attempt(lambda: BycycleGroup(thresholds={'min_n_cycles': 3}).fit(sigs, 100, (3, 8), axis=ax, n_jobs=1))
        from bycycle.group import compute_features_2d, compute_features_3d
        fn = compute_features_2d if sigs.ndim == 2 else compute_features_3d
        return _attempt(lambda: fn(sigs, 100, (3, 8), compute_features_kwargs=obj, axis=ax, n_jobs=1))
    sig = _sig()
    if k == 'range':
        from bycycle.burst import detect_bursts_cycles, detect_bursts_amp
        df = _frame()
        v = _num(c['v'])
        if c['param'] == 'burst_fraction_threshold':
            return _attempt(lambda: detect_bursts_amp(df, burst_fraction_threshold=v))
        return _attempt(lambda: detect_bursts_cycles(df, **{c['param']: v}))
    if k == 'min_n':
        from bycycle.burst import detect_bursts_cycles, detect_bursts_amp
        from bycycle.burst.utils import check_min_burst_cycles
        df = _frame()
        n = _num(c['n'])
        if c.get('quiet'):
            df['monotonicity'] = 0.1
            df['burst_fraction'] = 0.0
        if c['via'] == 'cycles':
            return _attempt(lambda: detect_bursts_cycles(df, min_n_cycles=n))
        if c['via'] == 'amp':
            return _attempt(lambda: detect_bursts_amp(df, min_n_cycles=n))
        if c['via'] == 'compute_features':
            from bycycle.features import compute_features
            thr = {'min_n_cycles': n}
            if c.get('quiet'):
                thr['monotonicity_threshold'] = 1.0
            return _attempt(lambda: compute_features(sig, 100, (3, 8), threshold_kwargs=thr))
        arr = np.array([False, False, False]) if c.get('quiet') else np.array([True, False, True])
        return _attempt(lambda: check_min_burst_cycles(arr, min_n_cycles=n))
    if k == 'ampthr':
        from bycycle.features import compute_features
        return _attempt(lambda: compute_features(sig, 100, (3, 8), burst_method='amp', threshold_kwargs={},
                                                 burst_kwargs={'amp_threshes': (_num(c['lo']), _num(c['hi']))}))
    if k == 'fs':
        return _run_fs(c['via'], _num(c['fs']))
    if k == 'optval':
        v = _decv(c['v'])
        return _attempt(lambda: _run_optval(c['opt'], c['via'], v))
    if k == 'min_n2':
        return _attempt(lambda: _run_min_n2(c))
    if k == 'cross':
        return _run_cross(c)
    if k == 'obj':
        import copy
        kw = copy.deepcopy(OBJ_SETTINGS[c['setting']][1])
        kw.setdefault('thresholds', {})
        if c['cls'] == 'Bycycle':
            from bycycle import Bycycle
            return _attempt(lambda: Bycycle(**kw).fit(sig, 100, (3, 8)))
        from bycycle import BycycleGroup
        sigs = np.array([_sig(240, 0), _sig(240, 1)])
        if c['cls'] == 'Group3':
            sigs = np.array([sigs])
        return _attempt(lambda: BycycleGroup(**kw).fit(sigs, 100, (3, 8), n_jobs=1))
    if k == 'option':
        from bycycle.features import compute_features, compute_shape_features, compute_burst_features
        o, v = c['opt'], _num(c['v'])
        if o == 'center_extrema':
            return _attempt(lambda: compute_features(sig, 100, (3, 8), center_extrema=v, threshold_kwargs={}))
        if o == 'shape_center':
            return _attempt(lambda: compute_shape_features(sig, 100, (3, 8), center_extrema=v))
        if o == 'shape_n_cycles':
            return _attempt(lambda: compute_shape_features(sig, 100, (3, 8), n_cycles=v))
        if o == 'band_amp_n_cycles':
            from bycycle.features import compute_cyclepoints
            from bycycle.features.shape import compute_band_amp
            dfs = compute_cyclepoints(sig, 100, (3, 8))
            return _attempt(lambda: compute_band_amp(dfs, sig, 100, (3, 8), n_cycles=v))
        if o == 'burst_method':
            return _attempt(lambda: compute_features(sig, 100, (3, 8), burst_method=v, threshold_kwargs={}))
        if o == 'burst_features_method':
            dfs = compute_shape_features(sig, 100, (3, 8))
            return _attempt(lambda: compute_burst_features(dfs, sig, burst_method=v, burst_kwargs={'fs': 100, 'f_range': (3, 8)}))
        if o == 'first_extrema':
            from bycycle.cyclepoints import find_extrema
            return _attempt(lambda: find_extrema(sig, 100, (3, 8), first_extrema=v))
        if o == 'first_extrema_override':
            return _attempt(lambda: compute_shape_features(sig, 100, (3, 8), find_extrema_kwargs={'first_extrema': v}))
        if o.startswith('direction'):
            from bycycle.features.burst import compute_amp_consistency, compute_period_consistency
            from bycycle.burst.utils import recompute_edge
            df = compute_features(sig, 100, (3, 8), threshold_kwargs={})
            if o == 'direction_amp':
                return _attempt(lambda: compute_amp_consistency(df, direction=v))
            if o == 'direction_period':
                return _attempt(lambda: compute_period_consistency(df, direction=v))
            return _attempt(lambda: recompute_edge(df.copy(), 2, v))
        if o == 'progress':
            from bycycle.group import compute_features_2d
            sigs = np.array([sig, sig[::-1]])
            return _attempt(lambda: compute_features_2d(sigs, 100, (3, 8), n_jobs=1, progress=v))
        if o == 'fit_dim':
            from bycycle import Bycycle
            arr = sig if v == 1 else (np.array([sig, sig]) if v == 2 else np.array(1.0))
            return _attempt(lambda: Bycycle(thresholds={'min_n_cycles': 3}).fit(arr, 100, (3, 8)))
        if o == 'group_dim':
            from bycycle import BycycleGroup
            arr = {1: sig, 2: np.array([sig, sig]), 3: np.array([[sig, sig]]), 4: np.array([[[sig]]])}[v]
            return _attempt(lambda: BycycleGroup(thresholds={'min_n_cycles': 3}).fit(arr, 100, (3, 8), n_jobs=1))
        if o == 'plot_fitted':
            from bycycle import Bycycle
            import matplotlib.pyplot as plt
            bm = Bycycle(thresholds=dict(_PLOT_THR, min_n_cycles=3))
            if v:
                bm.fit(sig, 100, (3, 8))
            r = _attempt(lambda: bm.plot(plot_only_results=True))
            plt.close('all')
            return r
    return {'harness_error': 'unknown case'}


OPTION_TABLES = {       # documented values (mirrors Model/Validate.v: documented_options)
    'center_extrema': ('OCenter', ['peak', 'trough']), 'shape_center': ('OCenter', ['peak', 'trough']),
    'burst_method': ('OBurstMethod', ['cycles', 'amp']), 'burst_features_method': ('OBurstMethod', ['cycles', 'amp']),
    'first_extrema': ('OFirstExtrema', ['peak', 'trough', None]),
    'direction_amp': ('ODirection', ['both', 'next', 'last']), 'direction_period': ('ODirection', ['both', 'next', 'last']),
    'direction_edge': ('ODirection', ['both', 'next', 'last']), 'progress': ('OProgress', [None, 'tqdm', 'tqdm.notebook']),
    'first_extrema_override': ('OShapeFirstExtrema', []),
}
GUARDS = {'fit_dim': ('GFit %d%%nat', [1]), 'group_dim': ('GGroup %d%%nat', [2, 3]), 'plot_fitted': ('GPlot %s', [True])}


def _expected(c):
    """Documented validity (True = accepted, False = ValueError, None = not a clause of the property)."""
    k = c['kind']
    if k in ('shape', 'entry'):
        d, kw, a = c['dims'], c['kw'], c['axis']
        listy = kw[0] not in ('KNone', 'KDict')
        axis_valid = a in (('0', 'None') if d[0] == 'D2' else ('0', '1', '01'))
        if k == 'shape' and not listy:
            return True
        if not axis_valid:
            return False
        if not listy:
            return True
        if d[0] == 'D2':
            return kw == ['K1', d[1]]
        if a == '0':
            return kw == ['K1', d[1]]
        if a == '1':
            return kw == ['K1', d[2]]
        return kw == ['K2', d[1], d[2]]
    if k == 'range':
        v = _num(c['v'])
        if math.isnan(v):
            return None                      # neither inside nor outside [0, 1]: model comparison only
        return c['lo'] <= v <= c['hi']
    if k == 'min_n':
        return _num(c['n']) >= 0
    if k == 'min_n2':                        # a negative count, wherever it is given, must be rejected; the cycles method has no
        return not any(n is not None and n < 0 for n in (c['bk'], c['thr']))     # burst_kwargs count (never generated there)
    if k == 'ampthr':
        return 0 <= _num(c['lo']) <= _num(c['hi'])
    if k == 'fs':
        fs = _num(c['fs'])
        return None if math.isnan(fs) else fs > 0          # NaN is neither positive nor non-positive: model comparison only
    if k == 'obj':
        return OBJ_SETTINGS[c['setting']][2]
    if k == 'optval':
        return _optval_expected(c)
    if k == 'cross':
        # an invalid value must be rejected whatever the other options are; the acceptance of non-default valid scalar
        # options is not a clause of the property (model comparison only), nor are limit_df's start / stop
        return False if c['fk'] == 'bad' and not _x_param(c).get('noverdict') else None
    if k == 'option':
        o, v = c['opt'], _num(c['v'])
        if o == 'first_extrema_override':
            return None                      # refusing a valid first_extrema here is an implementation choice
        if o in OPTION_TABLES:
            return v in OPTION_TABLES[o][1]
        if o in GUARDS:
            return v in GUARDS[o][1]
        return v >= 0                        # shape_n_cycles / band_amp_n_cycles


def oracle(c, o):
    want = _expected(c)
    if want is None:
        return None
    if c['kind'] == 'cross':
        if o.get('ctl') != 'ok':
            return None                      # the other options alone are not accepted: no verdict about the invalid one
        if o['r'] == 'ok':
            return 'invalid setting accepted and analysed: %s through %s with %s returned a result' % (c['fn'], c['via'], c['show'])
    if want:
        return None if o['r'] == 'ok' else 'valid setting rejected (%s: %s)' % (o['r'], o.get('msg'))
    if o['r'] == 'ok':
        if c['kind'] == 'min_n2':
            given = ', '.join('%s min_n_cycles=%r' % (w, n) for w, n in (('burst_kwargs', c['bk']), ('thresholds', c['thr'])) if n is not None)
            return 'invalid setting accepted and analysed: %s method through %s with %s returned a table' % (c['method'], c['via'], given)
        return 'invalid setting accepted and analysed'
    if o['r'] != 'Value':
        return 'invalid setting raised %s instead of ValueError (%s)' % (o['r'], o.get('msg'))
    return None


def nontrivial(c, o):
    if c['kind'] in ('shape', 'entry'):
        return c['kw'][0] in ('K1', 'K2') or c.get('via') == 'group'
    if c['kind'] == 'cross':                 # the other options are accepted on their own (bad focus) / the call ran (valid focus)
        return o.get('ctl') == 'ok' if c['fk'] == 'bad' else o.get('r') == 'ok'
    return True


def kind_of(c, o):
    k = c['kind']
    if k == 'entry':
        k += '/' + c['via']
    elif k == 'fs':
        k += '/' + c['via']
    elif k == 'obj':
        k += '/' + c['cls'] + '/' + OBJ_SETTINGS[c['setting']][0]
    elif k == 'optval':
        k += '/' + c['opt'] + '/' + c['via'] + '/' + c['v'][0]
    elif k == 'min_n2':
        cls = lambda n: 'absent' if n is None else ('negative' if n < 0 else 'valid')
        k += '/%s/%s/burst_kwargs:%s/thresholds:%s' % (c['via'], c['method'], cls(c['bk']), cls(c['thr']))
    elif k == 'cross':
        n = len(c['ctx'])
        k += '/%s/%s/%s:%s/others:%s' % (c['fn'], c['via'], c['focus'], 'invalid' if c['fk'] == 'bad' else 'valid',
                                         'default' if n == 0 else ('one' if n == 1 else 'several'))
        if c['fk'] == 'bad' and o.get('ctl') != 'ok':
            k += '/context-rejected'
    if c.get('big'):
        k += '/large-extent'
    return k + '/' + o.get('r', '?')


def _obj_model(c):
    """Model input of an object-level case: the offending (or control) setting, judged by the same model function as
    the leaf entry point."""
    cls, kw, _ = OBJ_SETTINGS[c['setting']]
    if cls == 'thr':
        bad = [(k, v) for k, v in kw['thresholds'].items()]
        worst = [v for k, v in bad if not 0 <= v <= 1] or [bad[0][1]]
        return 'range', '(%s, 0, 1)' % coqio.fl(worst[0])
    if cls == 'min_n':
        return 'min_n', '%s%%Z' % coqio.Z(kw['thresholds']['min_n_cycles'])
    if cls == 'centre':
        return 'option', '(OCenter, %s)' % _ostr(kw['center_extrema'])
    if cls == 'burst_method':
        return 'option', '(OBurstMethod, %s)' % _ostr(kw['burst_method'])
    lo, hi = kw['burst_kwargs']['amp_threshes']
    return 'ampthr', '(%s, %s)' % (coqio.fl(lo), coqio.fl(hi))


def _ostr(v):
    return 'None' if v is None else '(Some "%s"%%string)' % v


def stream_of(c):
    k = c['kind']
    if k == 'obj':
        return _obj_model(c)[0]
    if k == 'optval':
        return 'entry' if c['opt'] == 'axis' else 'optval'
    if k == 'cross':
        return _x_model(c)[0]
    if k == 'option':
        o = c['opt']
        return 'option' if o in OPTION_TABLES else ('guard' if o in GUARDS else 'range')
    return k


def coq_case(c, o):
    k = c['kind']
    acc = coqio.B(o['r'] == 'ok')
    if k in ('shape', 'entry'):
        d, kw = c['dims'], c['kw']
        ds = '(D2 %d%%nat)' % d[1] if d[0] == 'D2' else '(D3 %d%%nat %d%%nat)' % (d[1], d[2])
        ks = kw[0] if len(kw) == 1 else '(%s %s)' % (kw[0], ' '.join('%d%%nat' % x for x in kw[1:]))
        return '(%s, %s, %s)' % (ds, ks, AXC[c['axis']]), acc
    if k == 'range':
        return '(%s, %s, %s)' % (coqio.fl(_num(c['v'])), coqio.fl(c['lo']), coqio.fl(c['hi'])), acc
    if k == 'ampthr':
        return '(%s, %s)' % (coqio.fl(_num(c['lo'])), coqio.fl(_num(c['hi']))), acc
    if k == 'min_n':
        n = _num(c['n'])
        if isinstance(n, float) and (math.isinf(n) or n != int(n)):
            return None                      # the model's count is an integer
        return '%s%%Z' % coqio.Z(n), acc
    if k == 'min_n2':
        oz = lambda n: 'None' if n is None else '(Some %s%%Z)' % coqio.Z(n)
        return '(%s, %s)' % (oz(c['bk']), oz(c['thr'])), acc
    if k == 'fs':
        if math.isnan(_num(c['fs'])):
            return None                      # no clause of the property; entry points differ (plot_burst_detect_param draws)
        return coqio.fl(_num(c['fs'])), acc
    if k == 'obj':
        return _obj_model(c)[1], acc
    if k == 'cross':
        m = _x_model(c)
        if m is None or (c['fk'] == 'bad' and o.get('ctl') != 'ok'):
            return None                      # no model of this option alone / the other options are not accepted on their own
        return m[1], acc
    if k == 'optval':
        opt, via, v = c['opt'], c['via'], _decv(c['v'])
        if opt == 'axis':
            ds = '(D3 1%nat 2%nat)' if '3' in via else '(D2 2%nat)'
            return '(%s, %s, %s)' % (ds, 'KDict' if via.startswith('Group') else 'KNone', _axis_class(v)), acc
        if (opt, via) in OPT_PENDING or _no_verdict_value(opt, via, v):
            return None                      # PENDING: documented values only, the entry point does not look at the value
        pv = _pyval(v)
        if pv is None:
            return None
        name = 'OShapeFirstExtrema' if (opt, via) in OPT_NO_VERDICT else OPT_COQ[opt]
        return '(%s, %s)' % (name, pv), acc
    if k == 'option':
        o, v = c['opt'], _num(c['v'])
        if o in OPTION_TABLES:
            return '(%s, %s)' % (OPTION_TABLES[o][0], _ostr(v)), acc
        if o in GUARDS:
            return '(%s)' % (GUARDS[o][0] % (coqio.B(v) if o == 'plot_fitted' else v)), acc
        return '(%s, 0, infinity)' % coqio.fl(v), acc
    return None
