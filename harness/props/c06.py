"""C06 — detect_bursts_cycles / compute_features(burst_method='cycles') vs Model/Labels.v.
Every successful call is followed by a SECOND call of detect_bursts_cycles on the table that was returned (it carries
an is_burst column by then) with one threshold or min_n_cycles raised: "on a fixed table raising ... only removes
labels" is checked on the implementation, not only proved on the model."""
import math
import numpy as np
from harness import coqio, tablelayout
from harness.core import exc_kind

PROP = 'C06'
PROPS_FILE = 'Props/C06.v'
from harness import pipeline
COQ_STREAMS = {
    'table': ('From Coq Require Import List ZArith NArith Floats.PrimFloat. Import ListNotations.\n'
              'From ByC Require Import Base.Result Harness.Compare Model.Labels Model.TableRuns.\nOpen Scope float_scope.',
              'bad_labels_cycles2', ('lc2_in', 'lab_obs * option lab_obs'), 300),
    'pipe': (pipeline.COQ_HEADER, pipeline.COQ_RUNNER, pipeline.COQ_TYPES, pipeline.SHARD),
}
TRUST = pipeline.TRUST


def stream_of(c):
    return 'table' if c['kind'] == 'table' else 'pipe'

RULE = ('synthetic cycle tables whose four feature columns take values on, one ulp below and one ulp above the '
        'thresholds (plus 0, 1, NaN, inf), default and non-default row labels, about 40 % of the tables with their columns '
        'in another order than the library\'s own (sorted by name, reversed, shuffled) and some with an unrelated extra '
        'column (labels and features are read by name), threshold vectors from a grid in [0,1]^4 and out-of-range/NaN values, '
        'min_n_cycles in -1..6; plus compute_features(burst_method="cycles") on generated signals with the '
        'thresholds the caller passed (routing + defaults, min_n_cycles 0..4; the returned table re-ordered the same way before the second call); '
        'about 15 % of these calls (+bk) also carry a non-empty burst_kwargs dictionary (options of the amplitude method, '
        'which the unchanged library accepts and ignores when burst_method="cycles") whose min_n_cycles differs from the '
        'thresholds\' count, made through compute_features and through Bycycle.fit: labels = rule with the thresholds\' count. Every returned table is labelled a second '
        'time by detect_bursts_cycles with one threshold raised (+0.1, to the next double, or to the feature value of one '
        'of its rows) or min_n_cycles + 1: second labels = rule, and a subset of the first. Settings outside the '
        'quantifier (thresholds outside [0,1] or NaN, negative min_n_cycles) and the dtype of the label column are '
        'compared with the model only. non-trivial = at least 3 rows and at least one label of each value, or a '
        'rejected setting')
ASSUMPTIONS = ['the statement oracle judges thresholds in [0,1]^4 and integer min_n_cycles >= 0 only (the quantifier); '
               'error classes for other settings, acceptance of NaN thresholds, the empty label column of a table '
               'without cycles and the boolean dtype of is_burst are pinned by the model comparison (table stream) '
               'or recorded in the evidence (pipeline stream: nonbool_label_columns)',
               'label values are read through bool()',
               'pipeline stream, +bk cases: burst_kwargs (options of the amplitude method) given together with '
               'burst_method="cycles" are accepted by the library; the statement oracle judges the labels of the '
               'compute_features table and of the Bycycle.fit table with the THRESHOLDS\' min_n_cycles (else 3); that the two '
               'tables are equal, or that Bycycle.fit raises where compute_features does not, is compared through the model '
               'comparison only']
DEFAULTS = {'amp_fraction_threshold': 0., 'amp_consistency_threshold': .5,
            'period_consistency_threshold': .5, 'monotonicity_threshold': .8, 'min_n_cycles': 3}
KEYS = ['amp_fraction_threshold', 'amp_consistency_threshold', 'period_consistency_threshold', 'monotonicity_threshold']
COLS = ['amp_fraction', 'amp_consistency', 'period_consistency', 'monotonicity']


def _hexrow(r):
    return [float(x).hex() if not (isinstance(x, float) and math.isnan(x)) else 'nan' for x in r]


def _unhex(h):
    return float('nan') if h == 'nan' else float.fromhex(h)


def cases(rng, tier):
    out = []
    ntab = 1500 if tier == 'quick' else 15000
    grid = [0.0, 0.1, 0.25, 0.5, 0.75, 0.8, 1.0]
    for _ in range(ntab):
        thr = [rng.choice(grid) for _ in range(4)]
        r = rng.random()
        if r < 0.04:
            thr[rng.randrange(4)] = rng.choice([-0.01, 1.01, math.nextafter(1.0, 2.0), -5e-324, 2.0])
        elif r < 0.06:
            thr[rng.randrange(4)] = float('nan')
        n = rng.choice([-1, 0, 1, 2, 3, 3, 3, 4, 5, 6])
        nrows = rng.choice([0, 1, 2, 3, 5, 8, 12, 20, 40])
        pq = rng.choice([0.5, 0.75, 0.9])      # probability that a ROW qualifies (all four columns above their threshold)
        rows = []
        for _ in range(nrows):
            row = []
            fails = set() if rng.random() < pq else set(rng.sample(range(4), rng.choice([1, 1, 2, 4])))
            for k in range(4):
                t = thr[k] if not math.isnan(thr[k]) else 0.5
                if k not in fails:
                    v = rng.choice([math.nextafter(t, 2.0), 1.0, min(1.0, t + 0.2), math.nextafter(t, 2.0), float('inf')]
                                   if rng.random() < 0.1 else [math.nextafter(t, 2.0), 1.0, min(1.0, t + 0.2)])
                else:
                    v = rng.choice([t, math.nextafter(t, -2.0), 0.0, float('nan'), max(0.0, t - 0.2)])
                row.append(v)
            rows.append(_hexrow(row))
        nkeys = rng.choice([4, 4, 4, 3, 2, 0])
        given = sorted(rng.sample(range(4), nkeys))
        out.append({'kind': 'table', 'thr': _hexrow(thr), 'given': given, 'n': n, 'n_given': rng.random() < 0.8,
                    'rows': rows, 'index': rng.choice(['default', 'default', 'offset', 'reversed', 'sparse']),
                    'raise': _gen_raise(rng)})
    npipe = 90 if tier == 'quick' else 900
    for _ in range(npipe):
        c = pipeline.gen_case(rng, tier, methods=('cycles',), fek_prob=0.3)
        if rng.random() < 0.12:
            c['thr'] = dict(c['thr'] or {}, min_n_cycles=0)     # 0 is a documented value (every run is long enough)
        c['raise'] = _gen_raise(rng)
        if c.get('other'):
            # options of the method that is not selected (pipeline.other_method_options): also through the object interface
            c['fit'] = True
        out.append(c)
    # column layout of the table handed to detect_bursts_cycles (table stream: both calls; pipeline stream: the second
    # call on the returned table). Drawn after everything else, so that the cases themselves are those of earlier runs.
    for c in out:
        c['cols'] = tablelayout.gen_layout(rng)
    return out


def _gen_raise(rng):
    """Which setting the second call (on the returned table) raises, and how."""
    return {'what': rng.choice([0, 1, 2, 3, 0, 1, 2, 3, 'n']), 'how': rng.choice(['+0.1', 'next', 'row', 'row']),
            'row': rng.randrange(1000)}


def _rs(c):
    """The case's second-call specification (corpus cases and replays written before it existed: min_n_cycles + 1)."""
    return c.get('raise') or {'what': 'n', 'how': '+0.1', 'row': 0}


def _raised(spec, eff, n, rows):
    """Settings of the second call: one threshold raised inside [0,1] (never lowered), or min_n_cycles + 1."""
    eff2, n2 = list(eff), n
    if spec['what'] == 'n':
        return eff2, n + 1
    k = spec['what']
    t = eff[k]
    if t != t:
        return eff2, n2
    t2 = min(1.0, t + 0.1)
    if spec['how'] == 'next' and t < 1.0:
        t2 = math.nextafter(t, 2.0)
    elif spec['how'] == 'row' and rows:
        v = rows[spec['row'] % len(rows)][k]
        if t <= v <= 1.0:
            t2 = v          # exactly the feature value of a row: that row stops qualifying (strict >)
    eff2[k] = t2
    return eff2, n2


def _kwargs(c):
    thr = [_unhex(h) for h in c['thr']]
    kw = {KEYS[k]: thr[k] for k in c['given']}
    if c['n_given']:
        kw['min_n_cycles'] = c['n']
    return kw


def _effective(c):
    thr = [_unhex(h) for h in c['thr']]
    eff = [thr[k] if k in c['given'] else DEFAULTS[KEYS[k]] for k in range(4)]
    n = c['n'] if c['n_given'] else 3
    return eff, n


def run_impl(c):
    if c['kind'] == 'table':
        import pandas as pd
        from bycycle.burst import detect_bursts_cycles
        rows = [[_unhex(h) for h in r] for r in c['rows']]
        df = pd.DataFrame({COLS[k]: np.array([r[k] for r in rows], dtype=float) for k in range(4)})
        df['period'] = np.arange(len(rows), dtype=float)
        # a cycle table need not carry the default 0..n-1 row labels (e.g. a window cut out by limit_df)
        ix = c.get('index', 'default')
        if ix == 'offset':
            df.index = np.arange(len(rows)) + 7
        elif ix == 'reversed':
            df.index = np.arange(len(rows))[::-1]
        elif ix == 'sparse':
            df.index = np.arange(len(rows)) * 3 + 1
        # ... nor its columns in the library's order, and it may carry columns of the user's own
        df = tablelayout.apply_layout(df, c.get('cols'))
        before = df.copy()
        kw = _kwargs(c)
        try:
            res = detect_bursts_cycles(df, **kw)
        except Exception as e:
            return {'err': exc_kind(e)}
        out = _read_labels(res, before)
        # second call, on the table that was returned, with one setting raised
        eff, n = _effective(c)
        eff2, n2 = _raised(_rs(c), eff, n, rows)
        kw2 = dict(kw)
        if _rs(c)['what'] == 'n':
            kw2['min_n_cycles'] = n2
        else:
            kw2[KEYS[_rs(c)['what']]] = eff2[_rs(c)['what']]
        lay = c.get('cols')
        if lay and lay.get('order', 'lib') != 'lib':
            # the returned table (now with an is_burst column) is brought into the same kind of order again
            res = tablelayout.apply_layout(res, {'order': lay['order'], 'seed': lay.get('seed', 0) + 1})
        try:
            res2 = detect_bursts_cycles(res, **kw2)
            out['second'] = _read_labels(res2, before)
        except Exception as e:
            out['second'] = {'err': exc_kind(e)}
        return out
    o = pipeline.run_pipe(c)
    if 'rows' in o:
        o['second'] = _pipe_second(c)
    return o


def _read_labels(res, before):
    col = res['is_burst']
    isbool = bool(getattr(col, 'dtype', None) == np.bool_) or len(col) == 0     # an empty column carries no label
    col = np.asarray(col)
    if col.ndim != 1 or len(col) != len(before) or any(v is None or (isinstance(v, float) and v != v) for v in col.tolist()):
        return {'labels': [False] * len(before), 'features_unchanged': False, 'bad_label_column': True, 'dtype_bool': isbool}
    same = all(k in res.columns and tablelayout.same_column(res[k], before[k]) for k in before.columns)
    return {'labels': [bool(x) for x in col], 'features_unchanged': bool(same), 'dtype_bool': isbool}


def _pipe_second(c):
    """The analysis once more (to hold the returned DataFrame), then detect_bursts_cycles on that table with one
    setting raised. Everything the oracle needs is taken from THIS table."""
    from bycycle.burst import detect_bursts_cycles
    from harness import gen
    try:
        df = pipeline.call_compute_features(gen.unhexlist(c['sig']), c, return_samples=True)
        df = tablelayout.apply_layout(df, c.get('cols'))       # e.g. the user sorted the columns before re-labelling
        before = df[COLS + ([tablelayout.extra_name(c.get('cols'))] if tablelayout.extra_name(c.get('cols')) else [])].copy()
        first = _read_labels(df, before)
        rows = [[float(before[k].iloc[i]) for k in COLS] for i in range(len(before))]
        rs = pipeline.resolved(c)
        eff2, n2 = _raised(_rs(c), [float(t) for t in rs['thr']], rs['n'], rows)
        kw2 = {KEYS[k]: eff2[k] for k in range(4)}
        kw2['min_n_cycles'] = n2
        second = _read_labels(detect_bursts_cycles(df, **kw2), before)
    except Exception as e:
        return {'err': exc_kind(e), 'errmsg': str(e)[:200]}
    return {'rows': [_hexrow(r) for r in rows], 'first': first, 'thr2': _hexrow(eff2), 'n2': n2, 'second': second}


def _spec_labels(eff, n, rows):
    q = [all(r[k] > eff[k] for k in range(4)) for r in rows]
    if q:
        q[0] = False
        q[-1] = False
    out, i = [False] * len(q), 0
    while i < len(q):
        if q[i]:
            j = i
            while j < len(q) and q[j]:
                j += 1
            if j - i >= n:
                out[i:j] = [True] * (j - i)
            i = j
        else:
            i += 1
    return out


def _judge(lab, eff, n, rows, what):
    """One labelled table against the statement: one label per cycle, labels = threshold-and-run rule."""
    if lab.get('bad_label_column'):
        return '%s: is_burst column is not one label per cycle' % what
    want = _spec_labels(eff, n, rows)
    if lab['labels'] != want:
        return '%s: labels differ from threshold-and-run rule: got %s want %s' % (what, lab['labels'], want)
    if not lab['features_unchanged']:
        return '%s: feature columns changed by labelling' % what
    return None


def _judge_second(first, second, eff2, n2, rows, desc):
    """Second call on the returned table with raised settings: the rule again, and no label added."""
    if 'err' in second:
        return 'labelling the returned table again (%s) raised %s' % (desc, second['err'])
    msg = _judge(second, eff2, n2, rows, 'second call on the returned table (%s)' % desc)
    if msg:
        return msg
    if any(b and not a for a, b in zip(first['labels'], second['labels'])):
        return 'raising a setting on a fixed table (%s) added a burst label: %s -> %s' % (desc, first['labels'], second['labels'])
    return None


def oracle(c, o):
    if c['kind'] != 'table':
        msg = pipeline.oracle_labels_cycles(c, o)
        if msg or 'rows' not in o or 'second' not in o:
            return msg
        s = o['second']
        if 'err' in s:
            return 'analysis repeated to hold the returned table raised %s (%s)' % (s['err'], s.get('errmsg', ''))
        rs = pipeline.resolved(c)
        rows = [[_unhex(h) for h in r] for r in s['rows']]
        msg = _judge(s['first'], [float(t) for t in rs['thr']], rs['n'], rows, 'returned table')
        if msg:
            return msg
        return _judge_second(s['first'], s['second'], [_unhex(h) for h in s['thr2']], s['n2'], rows,
                             'thresholds %s, min_n_cycles %s' % ([_unhex(h) for h in s['thr2']], s['n2']))
    eff, n = _effective(c)
    rows = [[_unhex(h) for h in r] for r in c['rows']]
    if not all(0 <= t <= 1 for t in eff) or n < 0:
        return None          # outside the quantifier ([0,1]^4, min_n_cycles >= 0): model comparison only
    if not rows:
        # a table without cycles: nothing to label; only a non-empty label column would contradict the statement
        return 'labels for a table without cycles: %s' % o if o.get('labels') else None
    if 'err' in o:
        return 'raised %s on a valid table' % o['err']
    msg = _judge(o, eff, n, rows, 'first call')
    if msg:
        return msg
    if 'second' not in o:
        return None
    eff2, n2 = _raised(_rs(c), eff, n, rows)
    return _judge_second(o, o['second'], eff2, n2, rows, 'thresholds %s, min_n_cycles %s' % (eff2, n2))


def nontrivial(c, o):
    if c['kind'] != 'table':
        return pipeline.nontrivial_table(c, o, need_labels=True)
    if 'err' in o:
        return len(c['rows']) > 0
    return len(o['labels']) >= 3 and any(o['labels']) and not all(o['labels'])


_STATS = {'second_calls': 0, 'second_calls_removing_a_label': 0, 'nonbool_label_columns': 0, 'pipe_min_n_cycles_0': 0}


def kind_of(c, o):
    # called once per case by the evidence writer: also collects the statistics of extra_evidence
    if c['kind'] == 'table':
        labs = [o, o.get('second')] if 'labels' in o else []
    else:
        s = o.get('second') or {}
        labs = [s.get('first'), s.get('second')] if 'first' in s else []
        if (c.get('thr') or {}).get('min_n_cycles') == 0:
            _STATS['pipe_min_n_cycles_0'] += 1
    if len(labs) == 2 and labs[1] and 'labels' in labs[1]:
        _STATS['second_calls'] += 1
        if sum(labs[1]['labels']) < sum(labs[0]['labels']):
            _STATS['second_calls_removing_a_label'] += 1
    _STATS['nonbool_label_columns'] += sum(1 for l in labs if l and l.get('dtype_bool') is False)
    if c['kind'] == 'table':
        return c['kind'] + tablelayout.tag(c.get('cols')) + ('/err' if 'err' in o else '')
    return pipeline.kind_of(c, o) + ('/2nd-call' + tablelayout.tag(c.get('cols')) if c.get('cols') else '')


def extra_evidence():
    return {'c06_statistics': dict(_STATS), 'pipeline_stream': pipeline.extra_evidence()}


def coq_case(c, o):
    if c['kind'] != 'table':
        return pipeline.coq_case(c, o)
    eff, n = _effective(c)
    rows = [[_unhex(h) for h in r] for r in c['rows']]
    eff2, n2 = _raised(_rs(c), eff, n, rows)
    inp = '((%s), %s, ((%s), %s), %s)' % (', '.join(coqio.fl(t) for t in eff), coqio.Z(n) + '%Z',
                                          ', '.join(coqio.fl(t) for t in eff2), coqio.Z(n2) + '%Z',
                                          coqio.lst(['(%s)' % ', '.join(coqio.fl(v) for v in r) for r in rows]) if rows
                                          else '(@nil (float*float*float*float))')
    return inp, '(%s, %s)' % (res_labels(o), '(Some %s)' % res_labels(o['second']) if 'second' in o else 'None')


ERRMAP = {'Value': 'EValue', 'Index': 'EIndex', 'Key': 'EKey', 'Type': 'EType'}


def res_labels(o):
    if 'err' in o:
        return '(Err %s)' % ERRMAP.get(o['err'], 'EOther')
    # (dtype is bool, values); a column that is not one label per cycle cannot equal any model output
    if o.get('bad_label_column'):
        return '(Err EOther)'
    return '(Ok (%s, %s))' % (coqio.B(o.get('dtype_bool', True)), coqio.barr(len(o['labels']), coqio.mask_of(o['labels'])))


def shrink(c):
    if c['kind'] != 'table':
        return
    rows = c['rows']
    for i in range(len(rows)):
        yield dict(c, rows=rows[:i] + rows[i + 1:])
