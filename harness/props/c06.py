"""C06 — detect_bursts_cycles / compute_features(burst_method='cycles') vs Model/Labels.v."""
import math
import numpy as np
from harness import coqio
from harness.core import exc_kind

PROP = 'C06'
PROPS_FILE = 'Props/C06.v'
from harness import pipeline
COQ_STREAMS = {
    'table': ('From Coq Require Import List ZArith Floats.PrimFloat. Import ListNotations.\n'
              'From ByC Require Import Base.Result Harness.Compare Model.Labels.\nOpen Scope float_scope.',
              'bad_labels_cycles',
              ('(float * float * float * float) * Z * list (float * float * float * float)', 'result (list bool)'), 300),
    'pipe': (pipeline.COQ_HEADER, pipeline.COQ_RUNNER, pipeline.COQ_TYPES, pipeline.SHARD),
}
TRUST = pipeline.TRUST


def stream_of(c):
    return 'table' if c['kind'] == 'table' else 'pipe'

RULE = ('synthetic cycle tables whose four feature columns take values on, one ulp below and one ulp above the '
        'thresholds (plus 0, 1, NaN, inf), default and non-default row labels, threshold vectors from a grid in [0,1]^4 and out-of-range/NaN values, '
        'min_n_cycles in -1..6; plus compute_features(burst_method="cycles") on generated signals with the '
        'thresholds the caller passed (routing + defaults). non-trivial = at least 3 rows and at least one label of '
        'each value, or a rejected setting')
DEFAULTS = {'amp_fraction_threshold': 0., 'amp_consistency_threshold': .5,
            'period_consistency_threshold': .5, 'monotonicity_threshold': .8, 'min_n_cycles': 3}
KEYS = ['amp_fraction_threshold', 'amp_consistency_threshold', 'period_consistency_threshold', 'monotonicity_threshold']
COLS = ['amp_fraction', 'amp_consistency', 'period_consistency', 'monotonicity']


def _hexrow(r):
    return [float(x).hex() if not (isinstance(x, float) and math.isnan(x)) else 'nan' for x in r]


def _unhex(h):
    return float('nan') if h == 'nan' else float.fromhex(h)


def cases(rng, tier):
    out = []
    ntab = 1500 if tier == 'quick' else 15000
    grid = [0.0, 0.1, 0.25, 0.5, 0.75, 0.8, 1.0]
    for _ in range(ntab):
        thr = [rng.choice(grid) for _ in range(4)]
        r = rng.random()
        if r < 0.04:
            thr[rng.randrange(4)] = rng.choice([-0.01, 1.01, math.nextafter(1.0, 2.0), -5e-324, 2.0])
        elif r < 0.06:
            thr[rng.randrange(4)] = float('nan')
        n = rng.choice([-1, 0, 1, 2, 3, 3, 3, 4, 5, 6])
        nrows = rng.choice([0, 1, 2, 3, 5, 8, 12, 20, 40])
        pq = rng.choice([0.5, 0.8, 0.95])
        rows = []
        for _ in range(nrows):
            row = []
            for k in range(4):
                t = thr[k] if not math.isnan(thr[k]) else 0.5
                if rng.random() < pq:
                    v = rng.choice([math.nextafter(t, 2.0), 1.0, min(1.0, t + 0.2), math.nextafter(t, 2.0), float('inf')]
                                   if rng.random() < 0.1 else [math.nextafter(t, 2.0), 1.0, min(1.0, t + 0.2)])
                else:
                    v = rng.choice([t, math.nextafter(t, -2.0), 0.0, float('nan'), max(0.0, t - 0.2)])
                row.append(v)
            rows.append(_hexrow(row))
        nkeys = rng.choice([4, 4, 4, 3, 2, 0])
        given = sorted(rng.sample(range(4), nkeys))
        out.append({'kind': 'table', 'thr': _hexrow(thr), 'given': given, 'n': n, 'n_given': rng.random() < 0.8,
                    'rows': rows, 'index': rng.choice(['default', 'default', 'offset', 'reversed', 'sparse'])})
    npipe = 90 if tier == 'quick' else 900
    for _ in range(npipe):
        out.append(pipeline.gen_case(rng, tier, methods=('cycles',), fek_prob=0.3))
    return out


def _kwargs(c):
    thr = [_unhex(h) for h in c['thr']]
    kw = {KEYS[k]: thr[k] for k in c['given']}
    if c['n_given']:
        kw['min_n_cycles'] = c['n']
    return kw


def _effective(c):
    thr = [_unhex(h) for h in c['thr']]
    eff = [thr[k] if k in c['given'] else DEFAULTS[KEYS[k]] for k in range(4)]
    n = c['n'] if c['n_given'] else 3
    return eff, n


def run_impl(c):
    if c['kind'] == 'table':
        import pandas as pd
        from bycycle.burst import detect_bursts_cycles
        rows = [[_unhex(h) for h in r] for r in c['rows']]
        df = pd.DataFrame({COLS[k]: np.array([r[k] for r in rows], dtype=float) for k in range(4)})
        df['period'] = np.arange(len(rows), dtype=float)
        # a cycle table need not carry the default 0..n-1 row labels (e.g. a window cut out by limit_df)
        ix = c.get('index', 'default')
        if ix == 'offset':
            df.index = np.arange(len(rows)) + 7
        elif ix == 'reversed':
            df.index = np.arange(len(rows))[::-1]
        elif ix == 'sparse':
            df.index = np.arange(len(rows)) * 3 + 1
        before = df.copy()
        try:
            res = detect_bursts_cycles(df, **_kwargs(c))
        except Exception as e:
            return {'err': exc_kind(e)}
        col = np.asarray(res['is_burst'])
        if len(col) != len(rows) or any(v is None or (isinstance(v, float) and v != v) for v in col.tolist()):
            return {'labels': [False] * len(rows), 'features_unchanged': False, 'bad_label_column': True}
        lab = [bool(x) for x in col]
        same = all(np.array_equal(np.asarray(res[col]), np.asarray(before[col]), equal_nan=True) for col in before.columns)
        return {'labels': lab, 'features_unchanged': bool(same)}
    return pipeline.run_pipe(c)


def _spec_labels(eff, n, rows):
    q = [all(r[k] > eff[k] for k in range(4)) for r in rows]
    if q:
        q[0] = False
        q[-1] = False
    out, i = [False] * len(q), 0
    while i < len(q):
        if q[i]:
            j = i
            while j < len(q) and q[j]:
                j += 1
            if j - i >= n:
                out[i:j] = [True] * (j - i)
            i = j
        else:
            i += 1
    return out


def oracle(c, o):
    if c['kind'] != 'table':
        return pipeline.oracle_labels_cycles(c, o)
    eff, n = _effective(c)
    rows = [[_unhex(h) for h in r] for r in c['rows']]
    bad_thr = any((t < 0) or (t > 1) for t in eff)
    if bad_thr:
        return None if o.get('err') == 'Value' else 'threshold outside [0,1] not rejected with ValueError: %s' % o
    if not rows:
        return None if o.get('labels') == [] else 'empty table not labelled by an empty column: %s' % o
    if n < 0:
        return None if o.get('err') == 'Value' else 'negative min_n_cycles not rejected: %s' % o
    if 'err' in o:
        return 'raised %s on a valid table' % o['err']
    want = _spec_labels(eff, n, rows)
    if o['labels'] != want:
        return 'labels differ from threshold-and-run rule: got %s want %s' % (o['labels'], want)
    if o.get('bad_label_column'):
        return 'is_burst column is not one boolean per row'
    if not o['features_unchanged']:
        return 'feature columns changed by labelling'
    # monotonicity probe: raising each threshold by one step / n by one never adds a label
    for k in range(4):
        eff2 = list(eff)
        eff2[k] = min(1.0, eff[k] + 0.1)
        w2 = _spec_labels(eff2, n, rows)
        if any(b and not a for a, b in zip(want, w2)):
            return 'monotonicity (oracle self-check)'
    return None


def nontrivial(c, o):
    if c['kind'] != 'table':
        return pipeline.nontrivial_table(c, o, need_labels=True)
    if 'err' in o:
        return len(c['rows']) > 0
    return len(o['labels']) >= 3 and any(o['labels']) and not all(o['labels'])


def kind_of(c, o):
    return c['kind'] + ('/err' if 'err' in o else '') if c['kind'] == 'table' else pipeline.kind_of(c, o)


def coq_case(c, o):
    if c['kind'] != 'table':
        return pipeline.coq_case(c, o)
    eff, n = _effective(c)
    rows = [[_unhex(h) for h in r] for r in c['rows']]
    inp = '((%s), %s, %s)' % (', '.join(coqio.fl(t) for t in eff), coqio.Z(n) + '%Z',
                              coqio.lst(['(%s)' % ', '.join(coqio.fl(v) for v in r) for r in rows]) if rows
                              else '(@nil (float*float*float*float))')
    return inp, res_labels(o)


ERRMAP = {'Value': 'EValue', 'Index': 'EIndex', 'Key': 'EKey', 'Type': 'EType'}


def res_labels(o):
    if 'err' in o:
        return '(Err %s)' % ERRMAP.get(o['err'], 'EOther')
    return '(Ok %s)' % coqio.blist(o['labels'])


def shrink(c):
    if c['kind'] != 'table':
        return
    rows = c['rows']
    for i in range(len(rows)):
        yield dict(c, rows=rows[:i] + rows[i + 1:])
