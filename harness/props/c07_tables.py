"""C07, table stream — detect_bursts_amp called DIRECTLY on synthetic burst_fraction columns, twice.

Not a registered driver: a stream for harness/props/c07.py to import (written by WP3, which does not own c07.py).
It covers the two clauses of C07 that the pipeline stream cannot reach on the implementation:
  * "a cycle is labelled is_burst exactly when it lies in a run of at least min_n_cycles consecutive cycles with
    burst_fraction >= burst_fraction_threshold" on tables whose fractions sit on / one ulp around the threshold;
  * "raising burst_fraction_threshold on a fixed table never adds a burst label": the second call is made on the
    table RETURNED by the first (it carries an is_burst column by then) with a threshold t' >= t.
Model: Model/TableRuns.v `run_labels_amp2` (two calls of Model/Labels.v `labels_amp`), runner `bad_labels_amp2`;
theorem `Proofs/TableRuns.v two_calls_amp_mono`.

How c07.py can use it (all names below exist in this module):
    from harness.props import c07_tables as T
    COQ_STREAMS = {'pipe': (pipeline.COQ_HEADER, pipeline.COQ_RUNNER, pipeline.COQ_TYPES, pipeline.SHARD),
                   T.STREAM: T.COQ_STREAM}
    def stream_of(c): return T.STREAM if T.mine(c) else 'pipe'
    cases      : out.extend(T.cases(rng, tier))
    run_impl   : if T.mine(c): return T.run_impl(c)
    oracle / nontrivial / kind_of / coq_case / shrink : dispatch the same way.

The statement oracle judges only what C07 states: thresholds in [0,1], integer min_n_cycles >= 0, fractions that
a cycle can have (in [0,1], not NaN). NaN fractions, thresholds outside [0,1] / NaN, negative counts, empty tables and
the dtype of the label column are compared with the model only."""
import math
import numpy as np
from harness import coqio, tablelayout
from harness.core import exc_kind

STREAM = 'table_amp'
KIND = 'table_amp'
COQ_HEADER = ('From Coq Require Import List ZArith NArith Floats.PrimFloat. Import ListNotations.\n'
              'From ByC Require Import Base.Result Harness.Compare Model.Labels Model.TableRuns.\nOpen Scope float_scope.')
COQ_RUNNER = 'bad_labels_amp2'
COQ_TYPES = ('la2_in', 'lab_obs * option lab_obs')
SHARD = 300
COQ_STREAM = (COQ_HEADER, COQ_RUNNER, COQ_TYPES, SHARD)
RULE = ('detect_bursts_amp on synthetic burst_fraction columns (values on, one ulp below / above the threshold, 0, 1, '
        'NaN), burst_fraction_threshold from a grid in [0,1] plus out-of-range / NaN values, min_n_cycles in -1..6, '
        'default and non-default row labels, about 40 % of the tables with their columns in another order (sorted, '
        'reversed, shuffled) and some with an unrelated extra column; called a second time on the returned table with a threshold t\' >= t '
        '(+0.1, next double, the fraction of one of its rows) or min_n_cycles + 1')
ERRMAP = {'Value': 'EValue', 'Index': 'EIndex', 'Key': 'EKey', 'Type': 'EType'}


def mine(c):
    return c.get('kind') == KIND


def _hex(x):
    return 'nan' if x != x else float(x).hex()


def _unhex(h):
    return float('nan') if h == 'nan' else float.fromhex(h)


def cases(rng, tier):
    out = []
    ntab = 700 if tier == 'quick' else 7000
    grid = [0.0, 0.1, 0.25, 1 / 3, 0.5, 0.75, 0.9, 1.0, 1.0]
    for _ in range(ntab):
        t = rng.choice(grid)
        r = rng.random()
        if r < 0.03:
            t = rng.choice([-0.01, 1.01, math.nextafter(1.0, 2.0), -5e-324, 2.0])
        elif r < 0.045:
            t = float('nan')
        n = rng.choice([-1, 0, 1, 2, 3, 3, 3, 4, 5, 6])
        nrows = rng.choice([0, 1, 2, 3, 5, 8, 12, 20, 40])
        p = rng.choice([0.5, 0.75, 0.9])
        with_nan = rng.random() < 0.1
        tt = t if (t == t and 0 <= t <= 1) else 0.5
        fr = []
        for _ in range(nrows):
            if with_nan and rng.random() < 0.15:
                v = float('nan')
            elif rng.random() < p:     # reaches the threshold (>=)
                v = rng.choice([tt, tt, min(1.0, math.nextafter(tt, 2.0)), 1.0, min(1.0, tt + 0.2)])
            else:
                v = rng.choice([max(0.0, math.nextafter(tt, -1.0)), 0.0, max(0.0, tt - 0.2)])
            fr.append(_hex(v))
        out.append({'kind': KIND, 't': _hex(t), 't_given': rng.random() < 0.85, 'n': n, 'n_given': rng.random() < 0.8,
                    'fr': fr, 'index': rng.choice(['default', 'default', 'offset', 'reversed', 'sparse']),
                    'raise': {'what': rng.choice(['t', 't', 't', 't', 'n']), 'how': rng.choice(['+0.1', 'next', 'row', 'row', 'same']),
                              'row': rng.randrange(1000)}})
    for c in out:       # column layout, drawn last so that the tables themselves are those of earlier runs
        c['cols'] = tablelayout.gen_layout(rng)
    return out


def _effective(c):
    return (_unhex(c['t']) if c['t_given'] else 1.0), (c['n'] if c['n_given'] else 3)


def _kwargs(c):
    kw = {}
    if c['t_given']:
        kw['burst_fraction_threshold'] = _unhex(c['t'])
    if c['n_given']:
        kw['min_n_cycles'] = c['n']
    return kw


def _raised(c):
    """Settings of the second call: threshold t' >= t inside [0,1], or min_n_cycles + 1."""
    t, n = _effective(c)
    spec = c.get('raise') or {'what': 't', 'how': '+0.1', 'row': 0}
    fr = [_unhex(h) for h in c['fr']]
    if spec['what'] == 'n':
        return t, n + 1
    if t != t or spec['how'] == 'same':
        return t, n
    t2 = min(1.0, t + 0.1)
    if spec['how'] == 'next' and t < 1.0:
        t2 = math.nextafter(t, 2.0)
    elif spec['how'] == 'row' and fr:
        v = fr[spec['row'] % len(fr)]
        if t <= v <= 1.0:
            t2 = v
    return t2, n


def _read(res, nrows):
    col = res['is_burst']
    isbool = bool(getattr(col, 'dtype', None) == np.bool_) or len(col) == 0   # an empty column carries no label
    col = np.asarray(col)
    if col.ndim != 1 or len(col) != nrows or any(v is None or (isinstance(v, float) and v != v) for v in col.tolist()):
        return {'labels': [False] * nrows, 'bad_label_column': True, 'dtype_bool': isbool}
    return {'labels': [bool(x) for x in col], 'dtype_bool': isbool}


def run_impl(c):
    import pandas as pd
    from bycycle.burst import detect_bursts_amp
    fr = [_unhex(h) for h in c['fr']]
    df = pd.DataFrame({'burst_fraction': np.array(fr, dtype=float), 'period': np.arange(len(fr), dtype=float)})
    ix = c.get('index', 'default')
    if ix == 'offset':
        df.index = np.arange(len(fr)) + 7
    elif ix == 'reversed':
        df.index = np.arange(len(fr))[::-1]
    elif ix == 'sparse':
        df.index = np.arange(len(fr)) * 3 + 1
    lay = c.get('cols')
    df = tablelayout.apply_layout(df, lay)      # columns are addressed by name; a table may carry columns of the user's own
    kw = _kwargs(c)
    try:
        res = detect_bursts_amp(df, **kw)
    except Exception as e:
        return {'err': exc_kind(e)}
    out = _read(res, len(fr))
    out['fractions_unchanged'] = bool(np.array_equal(np.asarray(res['burst_fraction']), np.array(fr, dtype=float), equal_nan=True))
    if lay and lay.get('order', 'lib') != 'lib':
        # the returned table (now with an is_burst column) is brought into the same kind of order again
        res = tablelayout.apply_layout(res, {'order': lay['order'], 'seed': lay.get('seed', 0) + 1})
    t2, n2 = _raised(c)
    kw2 = dict(kw)
    if (c.get('raise') or {}).get('what') == 'n':
        kw2['min_n_cycles'] = n2
    else:
        kw2['burst_fraction_threshold'] = t2
    try:
        res2 = detect_bursts_amp(res, **kw2)
        out['second'] = _read(res2, len(fr))
        out['second']['fractions_unchanged'] = bool(np.array_equal(np.asarray(res2['burst_fraction']), np.array(fr, dtype=float),
                                                                   equal_nan=True))
    except Exception as e:
        out['second'] = {'err': exc_kind(e)}
    return out


def _spec(fr, t, n):
    q = [f >= t for f in fr]
    out, i = [False] * len(q), 0
    while i < len(q):
        if q[i]:
            j = i
            while j < len(q) and q[j]:
                j += 1
            if j - i >= n:
                out[i:j] = [True] * (j - i)
            i = j
        else:
            i += 1
    return out


def _judge(lab, fr, t, n, what):
    if lab.get('bad_label_column'):
        return '%s: is_burst column is not one label per cycle' % what
    want = _spec(fr, t, n)
    if lab['labels'] != want:
        return '%s: labels differ from (fraction >= %r, run >= %d): got %s want %s' % (what, t, n, lab['labels'], want)
    if not lab.get('fractions_unchanged', True):
        return '%s: burst_fraction column changed by labelling' % what
    return None


def oracle(c, o):
    t, n = _effective(c)
    fr = [_unhex(h) for h in c['fr']]
    if not (0 <= t <= 1) or n < 0 or not fr or not all(0 <= f <= 1 for f in fr):
        return None          # outside C07's quantifier: model comparison only
    if 'err' in o:
        return 'raised %s on a valid table' % o['err']
    msg = _judge(o, fr, t, n, 'first call')
    if msg or 'second' not in o:
        return msg
    s = o['second']
    t2, n2 = _raised(c)
    if 'err' in s:
        return 'labelling the returned table again (threshold %r, min_n_cycles %d) raised %s' % (t2, n2, s['err'])
    msg = _judge(s, fr, t2, n2, 'second call on the returned table')
    if msg:
        return msg
    if n2 == n and any(b and not a for a, b in zip(o['labels'], s['labels'])):
        return 'raising burst_fraction_threshold %r -> %r on a fixed table added a burst label: %s -> %s' % (
            t, t2, o['labels'], s['labels'])
    return None


def nontrivial(c, o):
    if 'err' in o:
        return len(c['fr']) > 0
    return len(o['labels']) >= 3 and any(o['labels']) and not all(o['labels'])


def kind_of(c, o):
    return KIND + tablelayout.tag(c.get('cols')) + ('/err' if 'err' in o else '')


def _res(o):
    if 'err' in o:
        return '(Err %s)' % ERRMAP.get(o['err'], 'EOther')
    if o.get('bad_label_column'):
        return '(Err EOther)'
    return '(Ok (%s, %s))' % (coqio.B(o.get('dtype_bool', True)), coqio.barr(len(o['labels']), coqio.mask_of(o['labels'])))


def coq_case(c, o):
    t, n = _effective(c)
    t2, n2 = _raised(c)
    inp = '(%s, %s%%Z, (%s, %s%%Z), %s)' % (coqio.fl(t), coqio.Z(n), coqio.fl(t2), coqio.Z(n2),
                                          coqio.flist([_unhex(h) for h in c['fr']]))
    return inp, '(%s, %s)' % (_res(o), '(Some %s)' % _res(o['second']) if 'second' in o else 'None')


def shrink(c):
    fr = c['fr']
    for i in range(len(fr)):
        yield dict(c, fr=fr[:i] + fr[i + 1:])
