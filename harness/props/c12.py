"""C12 — compute_features_3d / BycycleGroup.fit put every analysis at the position of its signal.
Model/Group.v (group3d_axis0 / group3d_axis1 / group3d_axis01)."""
import numpy as np
from harness import grouplib as gl
from harness.core import exc_kind
from harness.grouplib import COQ_HEADER, COQ_RUNNER, COQ_TYPES, SHARD, COQ_STREAMS

PROP = 'C12'
PROPS_FILE = 'Props/C12.v'
PARALLEL = False
RULE = ('real compute_features_3d / BycycleGroup.fit for every shape (n0, n1) in {1,2,3}^2 (incl. n0 != n1 and size-1 '
        'dimensions) x the three axis modes x {shared dict through the function, shared dict through the object, 1-D per-slice '
        'list / 2-D per-signal list of pairwise different option sets} (enumerated), plus the option argument not given (None) '
        'for one axis mode per shape (all in thorough); some dicts carry a "return_samples" entry (documented as ignored); '
        'the small option space return_samples {True, False} x {no progress bar, tqdm / tqdm.notebook through the in-process '
        'stand-in} x {n_jobs = 1, 2-4 jobs} is a covering design, not three coin flips: inside every (option form + entry point, '
        'axis) cell of the grid the shapes cycle through a shuffled list of all 8 combinations, and a second block crosses arrays '
        'that give ONE pool task (n0 = 1 for axis 0, n1 = 1 for axis 1, a single signal for axis (0,1)) with entry point and option '
        'form (5) x axis (3) x return_samples x bar on fresh objects / plain calls (job class: a parity function in quick, both '
        'in thorough; evidence: option_space_cells_covered); return_samples is given for every axis mode and the reference is '
        'computed with the SAME flag (column set included); C-ordered / Fortran-ordered / transposed-view arrays, '
        'perturbed completion orders (observed and logged); every returned table matched against candidates '
        'computed directly (compute_features for axis=(0,1); compute_features_2d(axis=None) of every row / column slice for axis '
        '0 / 1); placement matrix compared with the model, evaluated on the observed completion order; option dictionaries '
        '(and their nested dictionaries) are passed with a shuffled insertion order; through the object, about 60 % of the '
        'cases first fit the SAME BycycleGroup on 1-2 decoy arrays of another shape (more / fewer rows, another n1, a 2-D '
        'array, any axis) with other signals, and after the judged fit len(bg), bg.models, bg[i][j], iteration and '
        'df_features must have exactly the judged array\'s first two dimensions, every model holding the table (by value) '
        'and the signal of its own position; in about two thirds of these histories the user RE-ASSIGNS settings '
        'attributes of the object between the fits (sometimes before the first one): center_extrema, burst_method together '
        'with thresholds, thresholds = a new dict, burst_kwargs, find_extrema_kwargs, return_samples - all or a subset, '
        'values from another option set of the pool; the candidates then hold the tables of every signal / slice under '
        'EVERY option set the object held during the history, and every entry must be the analysis under the settings in '
        'force when the judged fit was called; the history (fits and assignments) is evaluated by the model of the object '
        '(second Coq stream); '
        'non-trivial = n0*n1 >= 2')
EXHAUSTIVE = {'quick': False, 'thorough': True}
ASSUMPTIONS = ['the statement about BycycleGroup.fit is applied to every call of fit, also on an object that was fitted before on '
               'arrays of another shape (the property does not restrict it to fresh objects); position-wise access is read as '
               'bg.models, bg[i] (bg[i][j]), len(bg) and iteration, compared by value',
               'the options of a BycycleGroup fit are the values its settings attributes hold when fit is called (the '
               'constructor\'s, or what the user assigned to the attribute since); every assignment block leaves a valid '
               'combination (a change of burst_method comes with matching thresholds)',
               'reference tables for axis 0 / 1 are produced by compute_features_2d(axis=None) itself (placement, not content, is checked here), '
               'called with the return_samples of the judged call: "the flattened-epoch analysis of sigs[i]" is read as that call with the '
               'same options',
               'the progress wrapper is exercised with a stand-in tqdm (iterates the wrapped iterable unchanged); the real tqdm package is outside the check']
TRUST = ['Pool.imap is modelled as a reorder buffer keyed by submission index']
AXV = {0: 0, 1: 1, 2: (0, 1)}
COVER = {}          # cell of the option space -> number of cases run in it
PROGRESS = {'cases_with_progress': 0, 'stub_wrapped_the_result_iterator': 0}


def _mode(c):
    if 'kwmode' in c:
        return c['kwmode']
    return 'list' if c.get('kw') is not None else 'dict'


def _one(rng, n0, n1, ax, mode, via, opts=None, fresh=False):
    """opts: (return_samples, progress bar?, one job?) fixed by the caller (covering design) instead of drawn;
    fresh: a plain call / a fresh object (no earlier fits, no re-assignments)."""
    if mode != 'list':
        kw = None
    elif ax == 2:
        kw = rng.sample(range(len(gl.KW_POOL)), min(n0 * n1, len(gl.KW_POOL)))
        if len(kw) < n0 * n1:
            return None
    else:
        kw = rng.sample(range(len(gl.KW_POOL)), n0 if ax == 0 else n1)
    n_entries = len(kw) if kw is not None else (1 if mode == 'dict' else 0)
    rs_key = [(rng.random() < 0.5 if rng.random() < 0.25 else None) for _ in range(n_entries)]
    if via == 'group':
        rs_key = [None] * n_entries
    shared = rng.randrange(len(gl.KW_POOL))
    # return_samples is given for every axis mode; the reference is the per-signal / flattened-epoch analysis with the SAME flag
    return_samples = rng.random() >= 0.4
    progress = rng.choice([None, None, 'tqdm', 'tqdm.notebook'])
    n_jobs = rng.choice([1, 2, 3, 4])
    if opts is not None:
        return_samples = bool(opts[0])
        progress = (progress or 'tqdm') if opts[1] else None
        n_jobs = 1 if opts[2] else (n_jobs if n_jobs > 1 else rng.choice([2, 3, 4]))
    history = (gl.gen_history(rng, (n0, n1), mode, shared, return_samples)
               if via == 'group' and mode != 'list' and rng.random() < 0.6 else [])
    if fresh:
        history = []
    return {'kind': 'g3d/ax%d/%s' % (ax, mode), 'n0': n0, 'n1': n1, 'ax': ax, 'kwmode': mode, 'kw': kw,
            'history': history, 'kseed': rng.randrange(10 ** 6),
            'shared': shared, 'rs_key': rs_key,
            'sig_ids': rng.sample(range(40), n0 * n1), 'n_jobs': n_jobs, 'progress': progress,
            'schedule': rng.choice(['reverse', 'first_slow', 'zigzag', 'none']), 'via': via,
            'return_samples': return_samples, 'layout': rng.choice(['C', 'C', 'F', 'view'])}


OPTS8 = [(rs, bar, one_job) for rs in (True, False) for bar in (False, True) for one_job in (True, False)]
ENTRIES = [('dict', 'func'), ('list', 'func'), ('none', 'func'), ('dict', 'group'), ('none', 'group')]


def n_tasks(c):
    return {0: c['n0'], 1: c['n1'], 2: c['n0'] * c['n1']}[c['ax']]


def cover_key(c):
    """Cell of the small option space: (entry point + option form, axis mode, one pool task / several,
    return_samples, progress bar or not, one job / several jobs)."""
    mode = _mode(c)
    via = 'func' if mode == 'list' else c['via']
    return (via + '/' + mode, 'ax%d' % c['ax'], 'one-task' if n_tasks(c) == 1 else 'tasks', bool(c.get('return_samples', True)),
            'bar' if c.get('progress') else 'nobar', 'one' if c['n_jobs'] == 1 else 'several')


def _cover_one_task(rng, tier):
    """Arrays that give ONE pool task (n0 = 1 for axis 0, n1 = 1 for axis 1, one signal for axis (0, 1)) crossed with the
    whole small option space: entry point and option form (5) x axis mode (3) x return_samples x {no bar, a tqdm bar} x
    {n_jobs = 1, several}: the full product in thorough; in quick the job class is a parity function of the other two binary
    options and the cell index (every pair of options with every entry point and axis, every job class with every
    (entry, axis, return_samples) and (entry, axis, bar)), on fresh objects / plain calls."""
    out = []
    q = 0
    for mode, via in ENTRIES:
        for ax in (0, 1, 2):
            q += 1
            for rs in (True, False):
                for bar in (False, True):
                    for one_job in ((True, False) if tier != 'quick' else (bool((rs + bar + q) % 2),)):
                        other = rng.choice([1, 1, 2, 3])
                        n0, n1 = {0: (1, other), 1: (other, 1), 2: (1, 1)}[ax]
                        c = _one(rng, n0, n1, ax, mode, via, (rs, bar, one_job), fresh=True)
                        c['cover'] = True
                        out.append(c)
    return out


def cases(rng, tier):
    out = []
    # (return_samples, bar, one job) of the enumerated grid: per (option form + entry point, axis) cell a shuffled cycle
    # through all 8 combinations, so that the 9 shapes of a cell see every combination (a covering design, not 3 coin flips)
    cyc = {}

    def next_opts(cell):
        if not cyc.get(cell):
            cyc[cell] = rng.sample(OPTS8, len(OPTS8))
        return cyc[cell].pop()
    for n0 in (1, 2, 3):
        for n1 in (1, 2, 3):
            none_ax = rng.randrange(3)
            for ax in (0, 1, 2):
                combos = [('dict', 'func'), ('dict', 'group'), ('list', 'func')]
                if tier != 'quick' or ax == none_ax:
                    combos.append(('none', rng.choice(['func', 'func', 'group'])))
                for mode, via in combos:
                    for rep in range(1 if tier == 'quick' else 2):
                        c = _one(rng, n0, n1, ax, mode, via, next_opts((mode, via, ax)))
                        if c:
                            out.append(c)
    out.extend(_cover_one_task(rng, tier))
    out.extend(_uneven(rng, tier))
    return out


# more pool tasks than jobs, the number of tasks not a multiple of the number of jobs: however the tasks are dealt out
# to the workers (one by one, in blocks, in chunks), some worker gets fewer than the others
UNEVEN = [(4, 3), (5, 2), (5, 3), (5, 4), (6, 4), (7, 2), (7, 3), (7, 5)]


def _uneven(rng, tier):
    """Axis 0 / axis 1 with 4-7 slices and 2-5 jobs (UNEVEN), per-slice option list or one shared dictionary, through the
    function compute_features_3d (axes alternating); the other extent is 1 or 2.  Quick: three of the pairs (per-slice list, other extent 1), thorough: all."""
    out = []
    pairs = rng.sample(UNEVEN, 3) if tier == 'quick' else UNEVEN
    for i, (n_slices, jobs) in enumerate(pairs):
        for ax in (i % 2,):
            other = 1 if tier == 'quick' else rng.choice([1, 2])
            n0, n1 = (n_slices, other) if ax == 0 else (other, n_slices)
            for mode, via in ([('list', 'func')] if tier == 'quick' else [('list', 'func'), ('dict', 'func')]):   # function entry only: the object model of a 7 x 2 group takes minutes to evaluate in Coq
                c = _one(rng, n0, n1, ax, mode, via, fresh=(via == 'func'))
                if c is None:
                    continue
                c['n_jobs'] = jobs
                c['kind'] += '/uneven'
                out.append(c)
    return out


def stream_of(c):
    return 'object' if c.get('via') == 'group' and _mode(c) != 'list' else 'func'


def _sid(ids):
    a = 0
    for x in ids:
        a = a * 41 + x + 1
    return a


def _aid(c, pos):
    """id of the option set expected at slice / signal position pos"""
    mode = _mode(c)
    if mode == 'list' and c['via'] != 'group':
        return c['kw'][pos]
    vid = gl.current_vid(c.get('history')) if c['via'] == 'group' else None
    if vid is not None:
        return vid                      # the option set assigned last
    return gl.NONE_ID if mode == 'none' else gl.SHARED_ID


def run_impl(c):
    import io, contextlib
    from bycycle.features import compute_features
    from bycycle.group import compute_features_2d, compute_features_3d
    n0, n1, ax = c['n0'], c['n1'], c['ax']
    mode = _mode(c)
    rs = c.get('return_samples', True)
    sigs = gl.relayout(np.array([[gl.make_sig(c['sig_ids'][i * n1 + j]) for j in range(n1)] for i in range(n0)]), c.get('layout', 'C'))
    if c['via'] == 'group' and mode == 'list':
        c = dict(c, via='func')
    rs_key = c.get('rs_key') or []

    krng = gl.key_rng(c)

    def opt(pos, a):
        return gl.option_set(a, rs_key[pos] if pos < len(rs_key) else None, krng)
    if mode == 'none':
        kwobj = None
    elif mode == 'dict':
        kwobj = opt(0, c['shared'])
    elif ax == 2:
        kwobj = [[opt(i * n1 + j, c['kw'][i * n1 + j]) for j in range(n1)] for i in range(n0)]
    else:
        kwobj = [opt(i, a) for i, a in enumerate(c['kw'])]
    # tasks, in submission order, identified by their first sample
    if ax == 0:
        tasks = [sigs[i, 0] for i in range(n0)]
    elif ax == 1:
        tasks = [sigs[0, j] for j in range(n1)]
    else:
        tasks = [sigs[i, j] for i in range(n0) for j in range(n1)]
    out = {}
    err = None
    bg = None
    orig = stub = None
    progress = c.get('progress')
    ck = '%s %s %s return_samples=%s %s jobs:%s' % cover_key(c)
    COVER[ck] = COVER.get(ck, 0) + 1
    try:
        with contextlib.redirect_stdout(io.StringIO()):
            if c['via'] == 'group':
                from bycycle import BycycleGroup
                if mode == 'none':
                    bg = BycycleGroup(return_samples=rs)
                else:
                    kw = gl.KW_POOL[c['shared']]
                    bg = BycycleGroup(center_extrema=kw['center_extrema'], burst_method=kw.get('burst_method', 'cycles'),
                                      thresholds=gl.shuffled(krng, kw['threshold_kwargs']),
                                      find_extrema_kwargs=kw.get('find_extrema_kwargs'), return_samples=rs)
                # earlier fits of the SAME object on arrays of another shape, re-assignments of its settings attributes
                gl.run_history(bg, c.get('history'), krng)
            stub = gl.ProgressStub().install() if progress else None
            orig = gl.install_delays(tasks, c['schedule'])
            if c['via'] == 'group':
                if progress:
                    bg.fit(sigs, gl.FS, gl.FR, axis=AXV[ax], n_jobs=c['n_jobs'], progress=progress)
                else:
                    bg.fit(sigs, gl.FS, gl.FR, axis=AXV[ax], n_jobs=c['n_jobs'])
                dfs = bg.df_features
            elif progress:
                dfs = compute_features_3d(sigs, gl.FS, gl.FR, compute_features_kwargs=kwobj, axis=AXV[ax], n_jobs=c['n_jobs'],
                                          return_samples=rs, progress=progress)
            else:
                dfs = compute_features_3d(sigs, gl.FS, gl.FR, compute_features_kwargs=kwobj, axis=AXV[ax], n_jobs=c['n_jobs'],
                                          return_samples=rs)
    except Exception as e:
        err = {'err': exc_kind(e), 'msg': str(e)[:200]}
    finally:
        out['completion'] = gl.uninstall(orig, c['schedule']) if orig is not None or gl._LOG[0] is not None else None
        pbar = stub.uninstall() if stub is not None else None
    if pbar is not None:
        out['pbar'] = pbar
        PROGRESS['cases_with_progress'] += 1
        PROGRESS['stub_wrapped_the_result_iterator'] += bool(pbar['calls'])
    if err is not None:
        out.update(err)
        return out
    # option sets whose tables are candidates: (id, keyword arguments or None, return_samples)
    if c['via'] == 'group':
        # every option set the object held during its history (the constructor's first)
        kws = []
        for vid, st in gl.versions(mode, c['shared'], rs, c.get('history')):
            if vid is None and mode == 'none':
                kws.append((gl.NONE_ID, None, rs))
            elif vid is None:
                kw = gl.option_set(c['shared'])
                kw.setdefault('find_extrema_kwargs', None)
                kws.append((gl.SHARED_ID, kw, rs))
            else:
                kws.append((vid, gl.settings_kwargs(st), st['return_samples']))
    elif mode == 'list':
        kws = [(a, gl.option_set(a), rs) for a in sorted(set(c['kw']))]
    elif mode == 'dict':
        kws = [(gl.SHARED_ID, gl.option_set(c['shared']), rs)]
    else:
        kws = [(gl.NONE_ID, None, rs)]
    cands = {}
    ref_errors = []
    for aid, kw, rs_v in kws:
        if ax == 2:
            for i in range(n0):
                for j in range(n1):
                    cands[(aid, i * n1 + j, 0)] = compute_features(sigs[i, j], gl.FS, gl.FR, return_samples=rs_v, **(kw or {}))
        else:
            slices = [(_sid([i * n1 + j for j in range(n1)]), sigs[i]) for i in range(n0)] + \
                     [(_sid([i * n1 + j for i in range(n0)]), sigs[:, j]) for j in range(n1)]
            for first_id, sl in slices:
                try:
                    # the flattened-epoch analysis of the slice alone, with the same return_samples as the judged call
                    if kw is None:
                        eps = compute_features_2d(np.array(sl), gl.FS, gl.FR, axis=None, return_samples=rs_v)
                    else:
                        eps = compute_features_2d(np.array(sl), gl.FS, gl.FR, compute_features_kwargs=dict(kw), axis=None,
                                                  return_samples=rs_v)
                except Exception as e:
                    # the flattened-epoch analysis of this slice itself fails: kept, and named by the oracle if that slice is needed
                    ref_errors.append([aid, first_id, exc_kind(e), str(e)[:120]])
                    continue
                for e, t in enumerate(eps):
                    cands.setdefault((aid, first_id, e), t)
    out['ref_errors'] = ref_errors
    shape_ok = isinstance(dfs, list) and len(dfs) == n0 and all(isinstance(r, list) and len(r) == n1 for r in dfs)
    out['shape_ok'] = bool(shape_ok)
    placement = []
    if shape_ok:
        want = _want(c)
        for i in range(n0):
            row = []
            for j in range(n1):
                df = dfs[i][j]
                row.append(gl.match(df, cands, tuple(want[i][j])) if hasattr(df, 'columns') else [gl.MISSING] * 3)
                if row[-1][0] == gl.MISSING and 'unmatched' not in out:
                    out['unmatched'] = 'the table at [%d][%d]: %s' % (i, j, gl.explain(df, cands, tuple(want[i][j])))
            placement.append(row)
    out['placement'] = placement
    if bg is not None:
        out['object'] = gl.observe_object(bg, sigs, cands, _want(c))
    return out


def _want(c):
    n0, n1, ax = c['n0'], c['n1'], c['ax']
    m = []
    for i in range(n0):
        row = []
        for j in range(n1):
            if ax == 2:
                row.append([_aid(c, i * n1 + j), i * n1 + j, 0])
            elif ax == 0:
                row.append([_aid(c, i), _sid([i * n1 + q for q in range(n1)]), j])
            else:
                row.append([_aid(c, j), _sid([q * n1 + j for q in range(n0)]), i])
        m.append(row)
    return m


def oracle(c, o):
    if 'err' in o:
        return 'raised %s (%s)' % (o['err'], o.get('msg'))
    if not o['shape_ok']:
        return 'result is not an n0 x n1 nested list'
    want = _want(c)
    for i in range(c['n0']):
        for j in range(c['n1']):
            if o['placement'][i][j] != want[i][j]:
                for aid, first_id, kind, msg in o.get('ref_errors', []):
                    if [aid, first_id] == want[i][j][:2]:
                        return ('entry [%d][%d] is a table, but the flattened-epoch analysis of that slice alone (compute_features_2d, '
                                'axis=None, same options) raised %s (%s)' % (i, j, kind, msg))
                return 'entry [%d][%d] holds (options, slice/signal, epoch) = %s, expected %s%s%s' % (
                    i, j, o['placement'][i][j], want[i][j],
                    ' (%d = no reference table matches: %s; return_samples=%s%s)' % (
                        gl.MISSING, o['unmatched'], c.get('return_samples', True), ', progress=%s' % c['progress'] if c.get('progress') else '')
                    if o['placement'][i][j][0] == gl.MISSING and o.get('unmatched') else '',
                    ' [BycycleGroup.fit%s; option ids: %d / %d = the constructor\'s, 1001.. = after the n-th assignment block]'
                    % (gl.history_note(c.get('history')), gl.SHARED_ID, gl.NONE_ID) if gl.n_reassign(c.get('history')) else '')
    if 'object' in o:
        p = gl.object_problem(o['object'], (c['n0'], c['n1']), want)
        if p:
            return 'BycycleGroup.fit%s: %s' % (gl.history_note(c.get('history')), p)
    return None


def nontrivial(c, o):
    return 'placement' in o and c['n0'] * c['n1'] >= 2


def kind_of(c, o):
    return 'g3d/ax%d/%s%s/%dx%d%s' % (c['ax'], _mode(c), '-object' if c['via'] == 'group' else '', c['n0'], c['n1'],
                                      '/refit%d%s' % (gl.n_decoys(c['history']), '-reassign' if gl.n_reassign(c['history']) else '')
                                      if c.get('history') else '')


def extra_evidence():
    one = [k for k in COVER if ' one-task ' in k]
    return {'completion_order_observed': dict(gl.STATS), 'progress_wrapper': dict(PROGRESS),
            'option_space_cells_covered': '%d of 240 (one pool task: %d of 120)' % (len(COVER), len(one))}


def coq_case(c, o):
    if 'err' in o or not o.get('shape_ok'):
        return None
    mode = _mode(c)
    if mode == 'list' and c['via'] == 'group':
        mode = 'dict'
    ntasks = {0: c['n0'], 1: c['n1'], 2: c['n0'] * c['n1']}[c['ax']]
    inp = '(G3 %d%%nat %s %s %d%%nat %d%%nat)' % (c['ax'], gl.nat_list(gl.sigma_for(c['schedule'], ntasks, o.get('completion'))),
                                                  gl.kw_term(mode, c['kw']), c['n0'], c['n1'])
    if stream_of(c) == 'object':
        if 'object' not in o:
            return None
        k0 = gl.NONE_ID if mode == 'none' else gl.SHARED_ID
        return (gl.history_term(k0, c.get('history'), inp),
                '(%s, %s)' % (gl.coq_triples(o['placement']), gl.coq_models(o['object']['models'])))
    return inp, gl.coq_triples(o['placement'])
