"""C12 — compute_features_3d / BycycleGroup.fit put every analysis at the position of its signal.
Model/Group.v (group3d_axis0 / group3d_axis1 / group3d_axis01)."""
import numpy as np
from harness import grouplib as gl
from harness.core import exc_kind
from harness.grouplib import COQ_HEADER, COQ_RUNNER, COQ_TYPES, SHARD

PROP = 'C12'
PROPS_FILE = 'Props/C12.v'
PARALLEL = False
RULE = ('real compute_features_3d / BycycleGroup.fit for every shape (n0, n1) in {1,2,3}^2 (incl. n0 != n1 and size-1 '
        'dimensions), the three axis modes, shared dict / 1-D per-slice list / 2-D per-signal list of pairwise different '
        'option sets, C-ordered / Fortran-ordered / transposed-view arrays, n_jobs in {1, 3}, perturbed completion orders; every returned table matched against candidates computed '
        'directly (compute_features for axis=(0,1); compute_features_2d(axis=None) of every row / column slice for axis 0 / 1); '
        'placement matrix compared with the model; non-trivial = n0*n1 >= 2')
EXHAUSTIVE = {'quick': False, 'thorough': True}
ASSUMPTIONS = ['reference tables for axis 0 / 1 are produced by compute_features_2d(axis=None) itself (placement, not content, is checked here)']
TRUST = ['Pool.imap is modelled as a reorder buffer keyed by submission index']
AXV = {0: 0, 1: 1, 2: (0, 1)}


def _one(rng, n0, n1, ax, mode):
    if mode == 'dict':
        kw = None
    elif ax == 2:
        kw = rng.sample(range(len(gl.KW_POOL)), min(n0 * n1, len(gl.KW_POOL)))
        if len(kw) < n0 * n1:
            return None
    else:
        kw = rng.sample(range(len(gl.KW_POOL)), n0 if ax == 0 else n1)
    return {'kind': 'g3d/ax%d/%s' % (ax, mode), 'n0': n0, 'n1': n1, 'ax': ax, 'kw': kw, 'shared': rng.randrange(len(gl.KW_POOL)),
            'sig_ids': rng.sample(range(40), n0 * n1), 'n_jobs': rng.choice([1, 2, 3, 4]),
            'schedule': rng.choice(['reverse', 'first_slow', 'zigzag', 'none']), 'via': (rng.choice(['func', 'func', 'group']) if kw is None else 'func'),
            'return_samples': True, 'layout': rng.choice(['C', 'C', 'F', 'view'])}


def cases(rng, tier):
    out = []
    for n0 in (1, 2, 3):
        for n1 in (1, 2, 3):
            for ax in (0, 1, 2):
                for mode in ('dict', 'list'):
                    for rep in range(1 if tier == 'quick' else 3):
                        c = _one(rng, n0, n1, ax, mode)
                        if c:
                            out.append(c)
    return out


def _sid(ids):
    a = 0
    for x in ids:
        a = a * 41 + x + 1
    return a


def run_impl(c):
    import io, contextlib
    from bycycle.features import compute_features
    from bycycle.group import compute_features_2d, compute_features_3d
    n0, n1, ax = c['n0'], c['n1'], c['ax']
    sigs = gl.relayout(np.array([[gl.make_sig(c['sig_ids'][i * n1 + j]) for j in range(n1)] for i in range(n0)]), c.get('layout', 'C'))
    if c['via'] == 'group' and c['kw'] is not None:
        c = dict(c, via='func')
    if c['kw'] is None:
        kwobj = dict(gl.KW_POOL[c['shared']])
    elif ax == 2:
        kwobj = [[dict(gl.KW_POOL[c['kw'][i * n1 + j]]) for j in range(n1)] for i in range(n0)]
    else:
        kwobj = [dict(gl.KW_POOL[a]) for a in c['kw']]
    # tasks, in submission order, identified by their first sample
    if ax == 0:
        tasks = [sigs[i, 0] for i in range(n0)]
    elif ax == 1:
        tasks = [sigs[0, j] for j in range(n1)]
    else:
        tasks = [sigs[i, j] for i in range(n0) for j in range(n1)]
    orig = gl.install_delays(tasks, c['schedule'])
    out = {}
    try:
        with contextlib.redirect_stdout(io.StringIO()):
            if c['via'] == 'group':
                from bycycle import BycycleGroup
                kw = gl.KW_POOL[c['shared']]
                bg = BycycleGroup(center_extrema=kw['center_extrema'], burst_method=kw.get('burst_method', 'cycles'),
                                  thresholds=dict(kw['threshold_kwargs']), find_extrema_kwargs=kw.get('find_extrema_kwargs'),
                                  return_samples=True)
                bg.fit(sigs, gl.FS, gl.FR, axis=AXV[ax], n_jobs=c['n_jobs'])
                dfs = bg.df_features
                out['models_ok'] = bool(all(bg.models[i][j].df_features is dfs[i][j] and np.array_equal(bg.models[i][j].sig, sigs[i, j])
                                            for i in range(n0) for j in range(n1)))
            else:
                dfs = compute_features_3d(sigs, gl.FS, gl.FR, compute_features_kwargs=kwobj, axis=AXV[ax], n_jobs=c['n_jobs'])
    except Exception as e:
        gl.uninstall(orig)
        return {'err': exc_kind(e), 'msg': str(e)[:200]}
    gl.uninstall(orig)
    kws = sorted(set(c['kw'])) if c['kw'] is not None else [c['shared']]
    cands = {}
    for a in kws:
        aid = a if c['kw'] is not None else gl.SHARED_ID
        kw = dict(gl.KW_POOL[a])
        if c['via'] == 'group' and 'find_extrema_kwargs' not in kw:
            kw['find_extrema_kwargs'] = None
        if ax == 2:
            for i in range(n0):
                for j in range(n1):
                    cands[(aid, i * n1 + j, 0)] = compute_features(sigs[i, j], gl.FS, gl.FR, return_samples=True, **kw)
        else:
            slices = [(_sid([i * n1 + j for j in range(n1)]), sigs[i]) for i in range(n0)] + \
                     [(_sid([i * n1 + j for i in range(n0)]), sigs[:, j]) for j in range(n1)]
            for first_id, sl in slices:
                try:
                    eps = compute_features_2d(np.array(sl), gl.FS, gl.FR, compute_features_kwargs=dict(kw), axis=None)
                except Exception:
                    continue
                for e, t in enumerate(eps):
                    cands.setdefault((aid, first_id, e), t)
    shape_ok = isinstance(dfs, list) and len(dfs) == n0 and all(isinstance(r, list) and len(r) == n1 for r in dfs)
    out['shape_ok'] = bool(shape_ok)
    placement = []
    if shape_ok:
        for i in range(n0):
            row = []
            for j in range(n1):
                if ax == 2:
                    prefer = ((c['kw'][i * n1 + j] if c['kw'] is not None else gl.SHARED_ID), i * n1 + j, 0)
                elif ax == 0:
                    prefer = ((c['kw'][i] if c['kw'] is not None else gl.SHARED_ID), _sid([i * n1 + q for q in range(n1)]), j)
                else:
                    prefer = ((c['kw'][j] if c['kw'] is not None else gl.SHARED_ID), _sid([q * n1 + j for q in range(n0)]), i)
                row.append(gl.match(dfs[i][j], cands, prefer))
            placement.append(row)
    out['placement'] = placement
    return out


def _want(c):
    n0, n1, ax = c['n0'], c['n1'], c['ax']
    per = c['kw'] is not None and c['via'] != 'group'
    m = []
    for i in range(n0):
        row = []
        for j in range(n1):
            if ax == 2:
                row.append([c['kw'][i * n1 + j] if per else gl.SHARED_ID, i * n1 + j, 0])
            elif ax == 0:
                row.append([c['kw'][i] if per else gl.SHARED_ID, _sid([i * n1 + q for q in range(n1)]), j])
            else:
                row.append([c['kw'][j] if per else gl.SHARED_ID, _sid([q * n1 + j for q in range(n0)]), i])
        m.append(row)
    return m


def oracle(c, o):
    if 'err' in o:
        return 'raised %s (%s)' % (o['err'], o.get('msg'))
    if not o['shape_ok']:
        return 'result is not an n0 x n1 nested list'
    want = _want(c)
    for i in range(c['n0']):
        for j in range(c['n1']):
            if o['placement'][i][j] != want[i][j]:
                return 'entry [%d][%d] holds (options, slice/signal, epoch) = %s, expected %s' % (i, j, o['placement'][i][j], want[i][j])
    if o.get('models_ok') is False:
        return 'BycycleGroup.models do not mirror df_features / sigs position by position'
    return None


def nontrivial(c, o):
    return 'placement' in o and c['n0'] * c['n1'] >= 2


def kind_of(c, o):
    return '%s/%dx%d' % (c['kind'], c['n0'], c['n1'])


def coq_case(c, o):
    if 'err' in o or not o.get('shape_ok'):
        return None
    per = c['kw'] is not None and c['via'] != 'group'
    kw = '(Some %s)' % gl.nat_list(c['kw']) if per else 'None'
    ntasks = {0: c['n0'], 1: c['n1'], 2: c['n0'] * c['n1']}[c['ax']]
    inp = '(G3 %d%%nat %s %s %d%%nat %d%%nat)' % (c['ax'], gl.nat_list(gl.sigma_of(c['schedule'], ntasks)), kw, c['n0'], c['n1'])
    return inp, gl.coq_triples(o['placement'])
