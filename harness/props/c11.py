"""C11 — compute_features_2d(axis=0) / BycycleGroup.fit place the analysis of row i at position i, for every
completion order, n_jobs and progress setting.  Model/Group.v (group2d_axis0 over an order-preserving pool)."""
import numpy as np
from harness import grouplib as gl
from harness.core import exc_kind
from harness.grouplib import COQ_HEADER, COQ_RUNNER, COQ_TYPES, SHARD

PROP = 'C11'
PROPS_FILE = 'Props/C11.v'
PARALLEL = False
RULE = ('real compute_features_2d(axis=0) / BycycleGroup.fit on 2-7 pairwise different signals, shared dict vs per-row list '
        'of pairwise different option sets, every n_jobs from 1 to rows+3 and -1 (so that rows are not a multiple of the job count), progress in {None, "tqdm"}, return_samples both; '
        'the worker is wrapped (before the fork) to sleep so that earlier rows finish later (reverse / first-slow / zigzag '
        'schedules); every returned table is matched against the tables of all (option set, row) pairs computed directly, '
        'giving a placement vector compared with the model; non-trivial = >= 3 rows and a perturbed schedule or a per-row list')
ASSUMPTIONS = ['the multiprocessing runtime is exercised only under the injected schedules; the theorem covers all permutations '
               'of completion order for the reorder-buffer model of Pool.imap']
TRUST = ['Pool.imap is modelled as a reorder buffer keyed by submission index']


def cases(rng, tier):
    out = []
    n = 60 if tier == 'quick' else 500
    for _ in range(n):
        rows = rng.choice([2, 3, 4, 5, 5, 6, 7])
        per_row = rng.random() < 0.55
        kw = rng.sample(range(len(gl.KW_POOL)), rows) if per_row else None
        shared = rng.randrange(len(gl.KW_POOL))
        out.append({'kind': 'g2d/' + ('list' if per_row else 'dict'), 'rows': rows, 'sig_ids': rng.sample(range(40), rows),
                    'kw': kw, 'shared': shared, 'n_jobs': rng.choice([1, 2, 3, 4, max(1, rows - 1), max(1, rows - 2), rows, rows + 3, -1]),
                    'progress': rng.choice([None, None, 'tqdm']), 'schedule': rng.choice(['reverse', 'first_slow', 'zigzag', 'none']),
                    'return_samples': rng.random() < 0.7, 'layout': rng.choice(['C', 'C', 'F', 'view']), 'via': (rng.choice(['func', 'func', 'group']) if kw is None else 'func')})
    return out


def run_impl(c):
    import io, contextlib
    from bycycle.features import compute_features
    from bycycle.group import compute_features_2d
    sigs = gl.relayout(np.array([gl.make_sig(k) for k in c['sig_ids']]), c.get('layout', 'C'))
    if c['via'] == 'group' and c['kw'] is not None:
        c = dict(c, via='func')
    kwobj = [dict(gl.KW_POOL[a]) for a in c['kw']] if c['kw'] is not None else dict(gl.KW_POOL[c['shared']])
    orig = gl.install_delays([s for s in sigs], c['schedule'])
    out = {}
    try:
        with contextlib.redirect_stdout(io.StringIO()):
            if c['via'] == 'group':
                from bycycle import BycycleGroup
                kw = gl.KW_POOL[c['shared']]
                bg = BycycleGroup(center_extrema=kw['center_extrema'], burst_method=kw.get('burst_method', 'cycles'),
                                  thresholds=dict(kw['threshold_kwargs']), find_extrema_kwargs=kw.get('find_extrema_kwargs'),
                                  return_samples=c['return_samples'])
                bg.fit(sigs, gl.FS, gl.FR, axis=0, n_jobs=c['n_jobs'], progress=c['progress'])
                dfs = bg.df_features
                out['models_ok'] = bool(len(bg.models) == len(sigs) and all(
                    bg.models[i].df_features is dfs[i] and np.array_equal(bg.models[i].sig, sigs[i]) for i in range(len(sigs))))
            else:
                dfs = compute_features_2d(sigs, gl.FS, gl.FR, compute_features_kwargs=kwobj, axis=0,
                                          return_samples=c['return_samples'], n_jobs=c['n_jobs'], progress=c['progress'])
    except Exception as e:
        gl.uninstall(orig)
        return {'err': exc_kind(e), 'msg': str(e)[:200]}
    gl.uninstall(orig)
    kws = c['kw'] if c['kw'] is not None else [c['shared']]
    cands = {}
    for a in set(kws):
        for b in range(len(sigs)):
            kw = dict(gl.KW_POOL[a])
            if c['via'] == 'group' and 'find_extrema_kwargs' not in kw:
                kw['find_extrema_kwargs'] = None
            cands[(a if c['kw'] is not None else gl.SHARED_ID, b, 0)] = compute_features(
                sigs[b], gl.FS, gl.FR, return_samples=c['return_samples'], **kw)
    placement = []
    for i, df in enumerate(dfs):
        prefer = ((c['kw'][i] if c['kw'] is not None else gl.SHARED_ID), i, 0)
        placement.append(gl.match(df, cands, prefer))
    out['placement'] = [placement]
    out['n'] = len(dfs)
    return out


def oracle(c, o):
    if 'err' in o:
        return 'raised %s (%s)' % (o['err'], o.get('msg'))
    if o['n'] != c['rows']:
        return '%d tables returned for %d rows' % (o['n'], c['rows'])
    for i, t in enumerate(o['placement'][0]):
        want = [(c['kw'][i] if (c['kw'] is not None and c['via'] != 'group') else gl.SHARED_ID), i, 0]
        if t != want:
            return 'position %d holds the analysis (options, row) = %s, expected %s' % (i, t[:2], want[:2])
    if o.get('models_ok') is False:
        return 'BycycleGroup.models do not mirror df_features / sigs position by position'
    return None


def nontrivial(c, o):
    return 'placement' in o and c['rows'] >= 3 and (c['schedule'] != 'none' or c['kw'] is not None)


def kind_of(c, o):
    return '%s/%s/jobs%s' % (c['kind'], c['schedule'], 'gt' if c['n_jobs'] > c['rows'] else ('all' if c['n_jobs'] == -1 else c['n_jobs']))


def coq_case(c, o):
    if 'err' in o:
        return None
    per_row = c['kw'] is not None and c['via'] != 'group'
    kw = '(Some %s)' % gl.nat_list(c['kw']) if per_row else 'None'
    inp = '(G2 %s %s %d%%nat)' % (gl.nat_list(gl.sigma_of(c['schedule'], c['rows'])), kw, c['rows'])
    return inp, gl.coq_triples(o['placement'])
